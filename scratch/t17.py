import sys
sys.path.insert(0, "/verif")
import z3
from lemmas.wires import _wire
from lemmas.symplectic import _ob
Int=z3.IntSort()
on = z3.Function("on", Int, z3.BoolSort()); idx = z3.Function("idx", Int, Int); E = z3.Function("E", Int, Int, z3.BoolSort())
L, nin, nout, u, v, w, a, b = z3.Ints("L nin nout u v w a b")
base = _wire(on, idx, L, nin, nout, E)
asm = base + [E(u, v), z3.Not(on(w))]
on2 = lambda x: z3.Or(on(x), x == w)
idx_bad = lambda x: z3.If(x == w, idx(u) + 1, idx(x))   # no shift
E2 = lambda x, y: z3.Or(z3.And(E(x, y), z3.Not(z3.And(x == u, y == v))), z3.And(x == u, y == w), z3.And(x == w, y == v))
print(_ob("canary-noshift","x",asm, E2(a, b) == z3.And(on2(a), on2(b), idx_bad(b) == idx_bad(a) + 1), "", timeout=5000).status)
E_bad = lambda x, y: z3.Or(E(x, y), z3.And(x == u, y == w), z3.And(x == w, y == v))  # old edge not removed
idx2 = lambda x: z3.If(x == w, idx(u) + 1, z3.If(z3.And(on(x), idx(x) > idx(u)), idx(x) + 1, idx(x)))
print(_ob("canary-keep-old-edge","x",asm, E_bad(a, b) == z3.And(on2(a), on2(b), idx2(b) == idx2(a) + 1), "", timeout=5000).status)
print(_ob("false","x",asm, z3.BoolVal(False), "", timeout=5000).status)
