import sys, time
sys.path.insert(0, "/verif"); sys.path.insert(0, "/repo")
from pyvc.driver import run_tasks
from contracts import relabel as R
t0=time.time()
d = run_tasks(R.tasks(), procs=1)
print("errors:", d.errors)
for o in d.obligations: print(o.status, o.name, round(o.ms,1), o.detail[:300] if o.status!="discharged" else "")
print(time.time()-t0)
