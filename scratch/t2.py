import sys, time
sys.path.insert(0, "/verif")
import z3
from pyvc.contract import Task
from pyvc.driver import run_task
from contracts import stab_gates as G
from contracts.common import *
C = G.C
q = f"{TRANS}:cnot_gate"
t = Task(q, C[q], lambda I: [mk_clifford(I), z3.Int("c"), z3.Int("t")], C, inline=TABLEAU_ACCESSORS, label="cnot")
label, qual, rows, meta = run_task(t)
for r in rows: print(r["name"], r["status"], r["count"])
print("--- canary: dropped ^1")
bad = G._two_qubit(lambda xc, zc, xt, zt, r: (xc, xor(zc, zt), xor(xt, xc), zt, xor(r, xc * zt * xor(xt, zc))))
t = Task(q, C[q], lambda I: [mk_clifford(I), z3.Int("c"), z3.Int("t")], C, inline=TABLEAU_ACCESSORS, label="cnot", spec_override=bad)
label, qual, rows, meta = run_task(t)
for r in rows:
    if r["status"]!="discharged": print(r["name"], r["status"], r["detail"][:200], r["model"][:600])
print("--- canary hadamard without phase")
q = f"{TRANS}:hadamard_gate"
bad = G._one_qubit(lambda x, z, r: (z, x, r))
t = Task(q, C[q], lambda I: [mk_clifford(I), z3.Int("q")], C, inline=TABLEAU_ACCESSORS, label="h", spec_override=bad)
label, qual, rows, meta = run_task(t)
for r in rows:
    if r["status"]!="discharged": print(r["name"], r["status"], r["detail"][:200])
