F = "graphiq/backends/density_matrix/functions.py"
SUITE = [
 ("ptrace: pre-fix (uppercase for all columns)", F, "            string.ascii_uppercase[i] if i in keep else string.ascii_lowercase[i]\n", "            string.ascii_uppercase[i]\n", ["scratch/d4_t4.py", "tasks"]),
 ("ptrace: right side keeps the traced ones", F, "        [string.ascii_lowercase[i] for i in range(ndim) if i in keep]\n    ) + \"\".join([string.ascii_uppercase[i] for i in range(ndim) if i in keep])", "        [string.ascii_lowercase[i] for i in range(ndim) if i not in keep]\n    ) + \"\".join([string.ascii_uppercase[i] for i in range(ndim) if i not in keep])", ["scratch/d4_t4.py", "tasks"]),
 ("ptrace: right side columns before rows", F, "    ssright = \"\".join(\n        [string.ascii_lowercase[i] for i in range(ndim) if i in keep]\n    ) + \"\".join([string.ascii_uppercase[i] for i in range(ndim) if i in keep])", "    ssright = \"\".join([string.ascii_uppercase[i] for i in range(ndim) if i in keep]) + \"\".join(\n        [string.ascii_lowercase[i] for i in range(ndim) if i in keep]\n    )", ["scratch/d4_t4.py", "tasks"]),
 ("ptrace: final reshape (nkeep, ndim)", F, "    return rho_a.reshape(nkeep, nkeep)", "    return rho_a.reshape(nkeep, ndim)", ["scratch/d4_t4.py", "tasks"]),
 ("ptrace: nkeep = prod(dims)", F, "    nkeep = np.prod(dims[keep])", "    nkeep = np.prod(dims)", ["scratch/d4_t4.py", "tasks"]),
 ("ptrace: first reshape tile(dims,1)", F, "    rho_a = rho.reshape(np.tile(dims, 2))", "    rho_a = rho.reshape(np.tile(dims, 1))", ["scratch/d4_t4.py", "tasks"]),
 ("ptrace: row letters off by one (i+1)", F, "    ssleft = \"\".join([string.ascii_lowercase[i] for i in range(ndim)])", "    ssleft = \"\".join([string.ascii_lowercase[i + 1] for i in range(ndim)])", ["scratch/d4_t4.py", "tasks"]),
 ("mc: no deepcopy in MonteCarloNoise._noisy_gates", "graphiq/noise/monte_carlo_noise.py", "            op = copy.deepcopy(op)\n", "", ["scratch/d4_t6.py", "mc"]),
]
