import sys, time, importlib, os
pm = importlib.import_module("props." + sys.argv[1])
print("props module:", pm.__file__)
t0 = time.time()
d = pm.deductive()
print("errors:", d.errors)
print("canaries:", [(c["name"], c["refuted"], c["replayed"]) for c in d.canaries])
bad = [o for o in d.obligations if o.status != "discharged"]
print(f"obligations={len(d.obligations)} bad={len(bad)} wall={time.time()-t0:.1f}s solver_ms={sum(o.ms for o in d.obligations):.0f}")
for o in bad: print("  ", o.name, o.status, o.detail[:200], o.witness)
for q, f in d.functions.items(): print(f"  {q.split(':')[1]:40s} {f['status']:6s} {f['discharged']}/{f['obligations']} paths={f['paths']} {f['solver_ms']}ms")
print("notes:", d.notes)
