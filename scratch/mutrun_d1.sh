#!/bin/bash
# usage: mutrun_d1.sh <prop> <file> <old> <new>   -> prints non-discharged obligations under the mutant
P=$1; F=$2; OLD=$3; NEW=$4
cd /tmp/wt_d1 && git checkout -q -- . && python3 - "$F" "$OLD" "$NEW" <<'PY'
import sys
f,old,new=sys.argv[1:4]
s=open(f).read()
assert s.count(old)>=1, "pattern not found"
s=s.replace(old,new,1)
open(f,'w').write(s)
PY
[ $? -ne 0 ] && exit 9
cd /verif && VERIF_REPO=/tmp/wt_d1 PYTHONPATH=/verif:/tmp/wt_d1 .venv/bin/python -W ignore scratch/runprop_d1.py $P 2>&1 | grep -v condarc
cd /tmp/wt_d1 && git checkout -q -- .
