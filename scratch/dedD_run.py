import sys, time, importlib, os
if not os.environ.get("DEDD_SHADOW"): sys.path.insert(0, "/verif")
import os
from pyvc.driver import run_tasks
modname, fn = sys.argv[1], sys.argv[2]
mod = importlib.import_module("contracts." + modname)
t0 = time.time()
tasks = getattr(mod, fn)()
d = run_tasks(tasks, procs=int(os.environ.get("VERIF_PROCS", "6")))
print("errors:", d.errors)
bad = [o for o in d.obligations if o.status != "discharged"]
print(f"obligations={len(d.obligations)} bad={len(bad)} wall={time.time()-t0:.1f}s solver_ms={sum(o.ms for o in d.obligations):.0f}")
if "-v" in sys.argv:
    for o in d.obligations: print("   ok " if o.status == "discharged" else "  BAD ", o.name, o.status)
for o in bad: print("  ", o.name, o.status, o.detail[:300], "| witness:", o.witness, "| replayed:", o.replayed)
for q, f in d.functions.items(): print(f"  {q.split(':')[1]:28s} {f['status']:6s} {f['discharged']}/{f['obligations']} paths={f['paths']} {f['solver_ms']}ms")
