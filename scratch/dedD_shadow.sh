#!/bin/bash
# run a contracts module's task function against the SHADOW engine (/tmp/shadow/pyvc = pyvc + planned additive edits)
cd /verif && DEDD_SHADOW=1 PYTHONPATH=/tmp/shadow:/verif:${VERIF_REPO:-/repo} .venv/bin/python scratch/dedD_run.py "$@" 2>&1 | grep -v 'condarc\|SyntaxWarning\|"""'
