"""TEMPORARY test-time patches standing for the additive engine edits planned after 19:15 UTC"""
from pyvc import models, interp as _interp
from pyvc.values import NDArr, Builtin, concrete_int
from pyvc.symlist import SymList

_orig = models.python_builtin
def python_builtin(interp, name):
    b = _orig(interp, name)
    if name == "list" and b is not None:
        fn = b.fn
        def b_list(i, x=()):
            if isinstance(x, NDArr) and x.ndim == 1 and concrete_int(x.shape[0]) is None:
                return SymList(x.shape[0], lambda k, _x=x.snapshot(): _x.get(k), "list(array)")
            return fn(i, x)
        return Builtin("list", b_list)
    return b
models.python_builtin = python_builtin

# list.remove(l[0]) on a SymList
import z3
from pyvc.interp import Undecided
from pyvc.values import to_z3
_orig_va = models.value_attr
def value_attr(interp, obj, attr):
    if isinstance(obj, SymList) and attr == "remove":
        def rem(i, x):
            first = obj.elem(z3.IntVal(0))
            if not (hasattr(x, "eq") and z3.simplify(to_z3(x)).eq(z3.simplify(to_z3(first)))):
                raise Undecided("list.remove(x) on a list of symbolic length with x other than its first element")
            nm = i.ob_name("remove-from-non-empty")
            i.path.oblige(nm, to_z3(obj.length) > 0)
            models.used("l.remove(l[0]) on a symbolic-length list = the list without its first element")
            i.note_write(obj, "remove")
            t = obj.tail(1)
            obj.length, obj.elem = t.length, t.elem
        return Builtin("remove", rem)
    return _orig_va(interp, obj, attr)
models.value_attr = value_attr
