import sys, time
sys.path.insert(0, "/verif"); sys.path.insert(0, "/repo")
import z3
from pyvc.contract import Task
from pyvc.driver import run_task
from pyvc import schema as S, loops
from contracts import stab_gates as G
from contracts.common import *
C = G.C
n = z3.Int("n"); rows = z3.Int("rows")
inputs = [S.Assume(z3.And(n >= 1, rows >= 1)), S.Matrix("X", rows, n, bits=True), S.Matrix("Z", rows, n, bits=True), S.Matrix("R", rows, bits=True), S.Matrix("IP", rows, bits=True), S.IntArg("a"), S.IntArg("t")]
class Sz(S.Item):
    name="sizes"
def mk(I):
    I.path.assume(z3.And(n >= 1, rows >= 1))
    return [it.symbolic(I) for it in inputs]
t = Task(G.ROW_SUM, C[G.ROW_SUM], inputs, C, label="row_sum", hooks={"loop": loops.make_hook(G.ROW_SUM_LOOPS)})
t0=time.time()
label, qual, rows_, meta = run_task(t)
print(meta["error"], meta["paths"], time.time()-t0)
for r in rows_:
    print(r["name"], r["status"], r["detail"][:300] if r["status"]!="discharged" else "")
