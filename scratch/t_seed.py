import sys
sys.path.insert(0, "/verif")
from pyvc.driver import run_tasks
from contracts import seeding as P
d = run_tasks(P.tasks())
from collections import Counter
print(Counter(o.status for o in d.obligations))
for o in d.obligations:
    print(o.status, o.name, "|", (o.detail or "")[:300])
for e in d.errors: print("ERR", str(e)[:1500])
