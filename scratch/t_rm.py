import sys, time
sys.path.insert(0, "/verif")
from pyvc.driver import run_tasks
from contracts import lc_rmatrix as R
d = run_tasks(R.tasks())
from collections import Counter
print(Counter(o.status for o in d.obligations))
for o in d.obligations:
    if o.status != "discharged" or "-v" in sys.argv:
        print(o.status, o.name, "|", (o.detail or "")[:200], "| replayed", o.replayed, str(o.witness)[:300])
for e in d.errors: print("ERR", str(e)[:1500])
