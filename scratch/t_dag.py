import sys
sys.path.insert(0, "/verif")
from pyvc.driver import run_tasks
from contracts import dag as D
pre = sys.argv[1] if len(sys.argv) > 1 else "replace_op"
d = run_tasks([t for t in D.tasks() if t.label.startswith(pre)])
from collections import Counter
print(Counter(o.status for o in d.obligations))
for o in d.obligations:
    if o.status != "discharged" or "-v" in sys.argv:
        print(o.status, o.name, "|", (o.detail or "")[:300])
for e in d.errors: print("ERR", str(e)[:2500])
