import sys, time
sys.path.insert(0, "/verif")
from contracts import hof as H
from pyvc.driver import run_tasks
from scratch.d4_run import show
t0=time.time()
what = sys.argv[1] if len(sys.argv) > 1 else "hof"
T = {"hof": H.update_hof_tasks, "tour": H.tournament_tasks, "canary": H.canary_tasks}[what]()
d = run_tasks(T)
show(d, verbose=len(sys.argv) > 2)
print("wall", time.time()-t0)
