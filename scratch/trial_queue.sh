#!/bin/bash
# usage: trial_queue.sh <k> <N> names...   (worker k of N)
K=$1; N=$2; shift 2
i=0
for name in "$@"; do
  i=$((i+1)); [ $((i % N)) -eq $K ] || continue
  [ -f /tmp/r_$name.txt ] && continue
  [ -f /tmp/seed_out/$name/patch.diff ] || continue
  VERIF_PROCS=8 /verif/scratch/try_seed.sh $name > /tmp/r_$name.txt.tmp 2>&1
  mv /tmp/r_$name.txt.tmp /tmp/r_$name.txt
done
