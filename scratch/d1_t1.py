import numpy as np
from lemmas import q8
from lemmas.q8 import Q8
import graphiq.circuit.ops as ops
import graphiq.backends.density_matrix.functions as dmf
names = ["hadamard","phase","sigmax","sigmay","sigmaz"]
ex = {}
for n in names:
    F = getattr(dmf, n)()
    E = q8.lift(F)
    assert E is not None, n
    print(n, np.abs(q8.to_complex(E)-F).max())
    ex[n] = E
saved = {n: getattr(dmf, n) for n in names}
try:
    for n in names:
        setattr(dmf, n, (lambda E: (lambda: E.copy()))(ex[n]))
    L = list(ops.one_qubit_cliffords())
    M = [ops.local_clifford_to_matrix_map(l) for l in L]
    M2 = list(ops.local_cliffords_name_to_matrix_map())
finally:
    for n in names: setattr(dmf, n, saved[n])
print(len(L), M[1], M[1].dtype, type(M[1][0,0]))
print(all(q8.eq(q8.mat(a.tolist()), q8.mat(b.tolist())) for a,b in zip(M,M2)))
