SUITE = [
 ("REPAIR infidelity: isinstance(rep_data, MixedStabilizer)", "graphiq/metrics.py", "elif isinstance(state.rep_data, MixedStabilizer):", "elif isinstance(rep_data, MixedStabilizer):", ["scratch/d4_t5.py", "Infidelity"]),
]
