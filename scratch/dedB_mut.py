"""mutation trials for contracts/moves_sem.py: edits of the REAL move bodies in the scratch worktree /tmp/wt_dedB"""
import subprocess, sys, os
WT = "/tmp/wt_dedB"; F = WT + "/graphiq/solvers/evolutionary_solver.py"
MUT = [
 ("M1 add_emitter_cnot: target_type='p'", 'target=circuit.dag.edges[edge1]["reg"],\n            target_type="e",', 'target=circuit.dag.edges[edge1]["reg"],\n            target_type="p",', "add_emitter_cnot"),
 ("M2 add_photon_one_qubit_op: drop the `is ops.CNOT` filter", 'if type(circuit.dag.nodes[edge[0]]["op"]) is ops.CNOT\n            and type(circuit.dag.nodes[edge[1]]["op"]) is not ops.OneQubitGateWrapper', 'if type(circuit.dag.nodes[edge[1]]["op"]) is not ops.OneQubitGateWrapper', "add_photon"),
 ("M3 remove_op: 'Fixed' removed from the exclude list", 'get_node_exclude_labels(["Fixed", "Input", "Output"])', 'get_node_exclude_labels(["Input", "Output"])', "remove_op"),
 ("M4 remove_op: refusal of a caller-chosen Fixed node dropped", '            if node in nodes:\n                return\n', '            if node in nodes:\n                pass\n', "remove_op"),
 ("M5 add_photon_one_qubit_op: reg_type='e' on the photon wrapper", 'gate = ops.OneQubitGateWrapper(op, reg_type="p", register=reg, noise=noise)\n            circuit.insert_at', 'gate = ops.OneQubitGateWrapper(op, reg_type="e", register=reg, noise=noise)\n            circuit.insert_at', "add_photon"),
 ("M6 _select_possible_measurement_position: p_edges taken from edge_dict['e']", 'for edge in circuit.edge_dict["p"]\n            if type(circuit.dag.nodes[edge[1]]["op"]) is not ops.MeasurementCNOTandReset', 'for edge in circuit.edge_dict["e"]\n            if type(circuit.dag.nodes[edge[1]]["op"]) is not ops.MeasurementCNOTandReset', "measurement"),
 ("M7 _select_possible_cnot_position: find_incompatible_edges ignored", 'possible_edges = [e for e in edges if e not in incompatible_edges]', 'possible_edges = [e for e in edges]', "_select_possible_cnot"),
 ("M8 replace_photon_one_qubit_op: replacement on another register", 'gate = ops.OneQubitGateWrapper(op, reg_type="p", register=reg, noise=noise)\n        gate.add_labels("Fixed")', 'gate = ops.OneQubitGateWrapper(op, reg_type="p", register=reg + 1, noise=noise)\n        gate.add_labels("Fixed")', "replace_photon"),
 ("M9 add_emitter_cnot: circuit.add instead of insert_at", 'circuit.insert_at(gate, [edge0, edge1])\n\n    def remove_op', 'circuit.add(gate)\n\n    def remove_op', "add_emitter_cnot"),
 ("M10 add_measurement_cnot_and_reset: edges handed over in swapped order", 'circuit.insert_at(gate, [edge0, edge1])\n\n    # helper', 'circuit.insert_at(gate, [edge1, edge0])\n\n    # helper', "add_measurement"),
 ("M11 add_measurement_cnot_and_reset: control_type='p'", 'control=circuit.dag.edges[edge0]["reg"],\n            control_type="e",\n            target=circuit.dag.edges[edge1]["reg"],\n            target_type="p",', 'control=circuit.dag.edges[edge0]["reg"],\n            control_type="p",\n            target=circuit.dag.edges[edge1]["reg"],\n            target_type="p",', "add_measurement"),
 ("M12 replace_photon_one_qubit_op: Fixed label dropped", '        gate.add_labels("Fixed")\n', '', "replace_photon"),
 ("M13 _select_possible_measurement_position: `is not ops.Input` dropped for photon edges", '            if type(circuit.dag.nodes[edge[1]]["op"]) is not ops.MeasurementCNOTandReset\n            and type(circuit.dag.nodes[edge[0]]["op"]) is not ops.Input\n        ]', '            if type(circuit.dag.nodes[edge[1]]["op"]) is not ops.MeasurementCNOTandReset\n        ]', "_select_possible_measurement"),
 ("M14 _select_possible_measurement_position: incompatibility test against the wrong edge list", 'possible_edges = [e for e in p_edges if e not in incompatible_edges]', 'possible_edges = [e for e in p_edges if e not in e_edges]', "_select_possible_measurement"),
 ("M15 add_emitter_cnot: target register read from edge0", 'target=circuit.dag.edges[edge1]["reg"],\n            target_type="e",', 'target=circuit.dag.edges[edge0]["reg"],\n            target_type="e",', "add_emitter_cnot"),
 ("M16 remove_op: direct call of circuit._remove_node", '        circuit.remove_op(node)\n\n    def add_measurement', '        circuit._remove_node(node)\n\n    def add_measurement', "remove_op"),
 ("M17 replace_emitter_one_qubit_op: draws from all one-qubit wrappers", 'get_node_by_labels(["OneQubitGateWrapper", "Emitter"])', 'get_node_by_labels(["OneQubitGateWrapper"])', "replace_emitter"),
 ("M18 add_emitter_one_qubit_op: edge drawn from the unfiltered list", '            edge = list(edges)[ind]\n            reg = circuit.dag.edges[edge]["reg"]\n\n            # select a random local Clifford gate\n            ind = np.random.choice(len(self.one_qubit_ops), p=self.e_dist)', '            edge = circuit.edge_dict["p"][ind]\n            reg = circuit.dag.edges[edge]["reg"]\n\n            # select a random local Clifford gate\n            ind = np.random.choice(len(self.one_qubit_ops), p=self.e_dist)', "add_emitter_one"),
]
only = sys.argv[1:]
for name, old, new, sel in MUT:
    if only and not any(o in name.split()[0] for o in only): continue
    subprocess.run(["git", "-C", WT, "checkout", "-q", "--", "."], check=True)
    s = open(F).read()
    assert s.count(old) == 1, (name, s.count(old))
    open(F, "w").write(s.replace(old, new))
    env = dict(os.environ, VERIF_REPO=WT, PYTHONPATH="/verif:" + WT)
    out = subprocess.run(["/verif/.venv/bin/python", "/verif/scratch/dedB_run.py", sel], capture_output=True, text=True, env=env).stdout
    bad = [l for l in out.splitlines() if "<<<<<<" in l or l.startswith("==") or "witness:" in l]
    print("#", name)
    cur = None
    for l in bad:
        if l.startswith("=="): cur = l; continue
        print("    ", cur.split(" paths")[0][3:], "|", l.strip()[:230])
subprocess.run(["git", "-C", WT, "checkout", "-q", "--", "."], check=True)
