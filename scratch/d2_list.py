import sys, os
sys.path.insert(0, "/verif"); sys.path.insert(1, os.environ.get("VERIF_REPO", "/repo"))
import importlib
from pyvc.driver import run_tasks
m = importlib.import_module("contracts." + sys.argv[1])
d = run_tasks(m.tasks(), procs=1)
print(d.errors)
for o in d.obligations: print(o.status, o.name, round(o.ms,1))
print(d.trusted_base)
