#!/bin/bash
# confirm each delivered round-2 seed, then run the official trials (deductive-only and full quick)
K=$1; N=$2
cd /verif
mkdir -p /tmp/seed2_confirm
while true; do
  n=0
  for d in /tmp/seed2_out/C*c; do
    [ -d "$d" ] || continue
    name=$(basename $d)
    [ -f $d/meta.json ] && [ -f $d/patch.diff ] && [ -f $d/demo.py ] || continue
    n=$((n+1))
    [ -f /tmp/seed2_confirm/$name.json ] && continue
    mkdir /tmp/seed2_confirm/$name.lock 2>/dev/null || continue
    VERIF_BASE_N=8 python3 tools/seed_trial.py confirm $d $name > /tmp/seed2_confirm/$name.json 2>/tmp/seed2_confirm/$name.err
    ok=$(python3 -c "import json;print(json.load(open('/tmp/seed2_confirm/$name.json')).get('confirmed'))" 2>/dev/null)
    echo "$(date -u +%H:%M) $name confirmed=$ok" >> /tmp/seed2_confirm/log
    if [ "$ok" = "True" ]; then
      VERIF_PROCS=8 python3 tools/seed_trial.py check $name --tier quick --only deductive > /tmp/seed2_confirm/$name.ded.log 2>&1
      VERIF_PROCS=8 python3 tools/seed_trial.py check $name --tier quick > /tmp/seed2_confirm/$name.full.log 2>&1
      echo "$(date -u +%H:%M) $name trials done" >> /tmp/seed2_confirm/log
    fi
  done
  [ -f /tmp/seed2_confirm/STOP ] && break
  [ $n -ge 20 ] && break
  sleep 120
done
