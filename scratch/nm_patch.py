"""temporary emulation (scratch only) of the additive b_set extension planned for pyvc/models.py"""
import z3
from pyvc import models
from pyvc.values import Builtin, is_sym, to_z3

_orig = models.python_builtin


def b_set(i, x=()):
    from pyvc.interp import Undecided
    vals = i.iterate(x)
    if any(is_sym(v) for v in vals):
        if not all((is_sym(v) and z3.is_int(v)) or (isinstance(v, int) and not isinstance(v, bool)) for v in vals):
            raise Undecided("set of symbolic values")
        models.used("set() of symbolic ints: duplicates removed by deciding pairwise equality on the path (forks)")
        out = []
        for v in vals:
            if not any(i.path.decide(to_z3(v) == to_z3(u)) for u in out):
                out.append(v)
        return set(out) if len(set(out)) == len(out) else out
    return set(vals)


def pb(interp, name):
    if name == "set":
        return Builtin("set", b_set)
    return _orig(interp, name)


models.python_builtin = pb
