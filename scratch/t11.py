import sys, time
sys.path.insert(0, "/verif"); sys.path.insert(0, "/repo")
from pyvc.driver import run_task
from contracts import compile_loop as CL
for t in CL.tasks():
    t0=time.time()
    label, qual, rows, meta = run_task(t)
    bad=[r for r in rows if r["status"]!="discharged"]
    print(f"{label:60s} ob={len(rows):3d} bad={len(bad)} paths={meta['paths']} {time.time()-t0:.2f}s", (meta["error"] or "")[-900:])
    for r in bad[:10]: print("    ", r["name"], r["status"], r["detail"][:300])
