import sys
sys.path.insert(0, "/verif"); sys.path.insert(0, "/repo")
from lemmas import symplectic
for o in symplectic.obligations():
    print(f"{o.name:55s} {o.status:11s} {o.ms:7.0f}ms {o.detail[:200] if o.status!='discharged' else ''}")
