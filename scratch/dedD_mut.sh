#!/bin/bash
# usage: dedD_mut.sh <file-in-repo> <old> <new> -- <command...>   (exact-string replace, first occurrence)
F=$1; OLD=$2; NEW=$3; shift 4
cd /tmp/wt_dedD && git checkout -q -- . && python3 - "$F" "$OLD" "$NEW" <<'PY'
import sys
f,old,new=sys.argv[1:4]
s=open(f).read()
assert old in s, "pattern not found"
s=s.replace(old,new,1)
open(f,'w').write(s)
PY
cd /verif && VERIF_EVID_DIR=/tmp/ev_dedD VERIF_REPO=/tmp/wt_dedD PYTHONPATH=${DEDD_SHADOW:+/tmp/shadow:}/verif:/tmp/wt_dedD "$@"
cd /tmp/wt_dedD && git checkout -q -- .
