#!/bin/bash
# usage: outcome_queue.sh <k> <N>  : official catch matrix - tools/seed_trial.py check for every seeded change (worker k of N)
K=$1; N=$2
cd /verif
i=0
for d in seeded/C*[ab]; do
  name=$(basename $d); i=$((i+1)); [ $((i % N)) -eq $K ] || continue
  [ -f /tmp/outcome_done_$name ] && continue
  VERIF_PROCS=8 python3 tools/seed_trial.py check $name --tier quick --only deductive > /tmp/outcome_$name.ded.log 2>&1
  VERIF_PROCS=8 python3 tools/seed_trial.py check $name --tier quick > /tmp/outcome_$name.log 2>&1
  touch /tmp/outcome_done_$name
done
