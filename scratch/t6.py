import sys, time
sys.path.insert(0, "/verif"); sys.path.insert(0, "/repo")
import z3
from pyvc.contract import Task
from pyvc.driver import run_task
from pyvc import schema as S, loops, nzseq
from contracts import tasks_stab as TS, stab_clifford as K
from contracts.tasks_clifford import INLINE
C = TS.all_contracts()
hooks = {"loop": loops.make_hook(K.ZMEAS_LOOPS)}
hooks.update(nzseq.HOOKS)
mode = sys.argv[1] if len(sys.argv) > 1 else "probabilistic"
if mode in ("0","1"): mode = int(mode)
t = Task(K.ZMEAS, C[K.ZMEAS], [S.Clifford("T"), S.IntArg("q"), S.Const("mode", mode)], C, inline=INLINE, hooks=hooks, label=f"z_measurement_gate[{mode}]", timeout_ms=20000)
t0=time.time()
label, qual, rows, meta = run_task(t)
print(meta["error"], meta["paths"], time.time()-t0)
for r in rows:
    print(r["name"], r["status"], round(r["ms"]), r["detail"][:400] if r["status"]!="discharged" else "")
