"""mutation matrix of agent ded-F: applies each edit to the scratch worktree /tmp/wt_dedF and runs `./check Cxx --only deductive` with
VERIF_REPO pointing at it; prints the first failing obligations.  usage: dF_mutants.py [filter]"""
import os, re, subprocess, sys

WT = "/tmp/wt_dedF"
REL = "graphiq/utils/relabel_module.py"
ATS = "graphiq/solvers/alternate_target_solver.py"
CMP = "graphiq/utils/circuit_comparison.py"
STB = "graphiq/backends/stabilizer/functions/stabilizer.py"
DAG = "graphiq/circuit/circuit_dag.py"
M = [
    # (id, property, file | patch, old, new)
    ("C10a*", "C10", "patch", "/verif/seeded/C10a/patch.diff", None),
    ("C10-2 drop `assert GM.is_isomorphic()`", "C10", REL, "    assert GM.is_isomorphic()", "    GM.is_isomorphic()"),
    ("C10-3 identity test compares g1 with g1", "C10", REL, "np.array_equal(nx.to_numpy_array(g1), nx.to_numpy_array(g2))", "np.array_equal(nx.to_numpy_array(g1), nx.to_numpy_array(g1))"),
    ("C10-4 get_relabel_map(iso_graph, self.target_graph) in solve", "C10", ATS, "rmap = get_relabel_map(self.target_graph, iso_graph)", "rmap = get_relabel_map(iso_graph, self.target_graph)"),
    ("C10-5 'g': iso_graph", "C10", ATS, '{"g": lc_graphs[i],', '{"g": iso_graph,'),
    ("C10-6 lc_check(iso_graph, lc_graph)", "C10", ATS, "lc_graph, iso_graph, validate=True\n                )\n                try", "iso_graph, lc_graph, validate=True\n                )\n                try"),
    ("C10-7 conversion gates only when adjacencies are EQUAL", "C10", ATS, "if not lc_graph.adj == iso_graph.adj:", "if lc_graph.adj == iso_graph.adj:"),
    ("C10-8 'g': lc_graphs[i - 1]", "C10", ATS, '(circ, {"g": lc_graphs[i],', '(circ, {"g": lc_graphs[i - 1],'),
    ("C10-9 linear orbit of the TARGET", "C10", ATS, "lc_graphs = linear_partial_orbit(iso_graph)[:n_lc]", "lc_graphs = linear_partial_orbit(self.target_graph)[:n_lc]"),
    ("C10-10 depth_first orbit not cut to n_lc", "C10", ATS, "lc_graphs = depth_first_orbit(iso_graph)[:n_lc]", "lc_graphs = depth_first_orbit(iso_graph)"),
    ("C15a*", "C15", "patch", "/verif/seeded/C15a/patch.diff", None),
    ("C15b*", "C15", "patch", "/verif/seeded/C15b/patch.diff", None),
    ("C15-3 q_registers not compared in direct", "C15", CMP, "                    and op1.q_registers == op2.q_registers\n", "\n"),
    ("C15-4 cursor of circuit2 follows the first listed out-edge", "C15", CMP, "node2 = out_edge_compare[0][1]", "node2 = list(circuit2.dag.out_edges(node2, keys=True))[0][1]"),
    ("C15-5 break instead of return False", "C15", CMP, "                else:\n                    return False\n        return True", "                else:\n                    break\n        return True"),
    ("C15-6 roles 'c'/'t' swapped", "C15", CMP, 'reg == operation.control:\n            return "c"', 'reg == operation.control:\n            return "t"'),
    ("C15-7 tag computed from the PREVIOUS operation", "C15", CMP, '            op = circuit.dag.nodes[next_node]["op"]\n            control_target = _create_edge_control_target_attr(op, reg_type, register)', '            control_target = _create_edge_control_target_attr(op, reg_type, register)\n            op = circuit.dag.nodes[next_node]["op"]'),
    ("C15-8 existing tags are kept", "C15", CMP, '            circuit.dag[node][next_node][label]["control_target"] = control_target\n\n            node = next_node', '            if "control_target" not in circuit.dag[node][next_node][label]:\n                circuit.dag[node][next_node][label]["control_target"] = control_target\n\n            node = next_node'),
    ("C15-9 class test dropped in direct", "C15", CMP, "if isinstance(op1, type(op2)) and control_match:", "if control_match:"),
    ("C15-10 remove_redundant compares with the last kept circuit only", "C15", CMP, "            for circuit in new_circuit_list:\n                current_circuit", "            for circuit in new_circuit_list[-1:]:\n                current_circuit"),
    ("C15-11 remove_redundant rewrites the caller's circuit", "C15", CMP, "                to_add_circuit = new_circuit.copy()", "                to_add_circuit = new_circuit"),
    ("C15-12 storage appends a redundant circuit", "C15", CMP, "        if self.is_redundant(new_circuit):\n            return False", "        if self.is_redundant(new_circuit):\n            pass"),
    ("C15-13 second circuit not annotated", "C15", CMP, "    add_control_target_to_dag(circuit1)\n    add_control_target_to_dag(circuit2)", "    add_control_target_to_dag(circuit1)\n    add_control_target_to_dag(circuit1)"),
    ("C15-14 node_match ignores register types", "C15", CMP, "if type(op1) != type(op2) or op1.q_registers_type != op2.q_registers_type:", "if type(op1) != type(op2):"),
    ("C15-15 node counts not compared in direct", "C15", CMP, "    if n_reg_match and n_nodes_match:", "    if n_reg_match:"),
    ("C15-16 CircuitDAG.compare swaps its arguments", "C15", DAG, "return compare_circuits(self, circuit, method=method)", "return compare_circuits(circuit, self, method=method)"),
    ("C11a*", "C11", "patch", "/verif/seeded/C11a/patch.diff", None),
    ("C11b*", "C11", "patch", "/verif/seeded/C11b/patch.diff", None),
    ("C11-3 canonical_form X block: guard row_m != pivot dropped", "C11", STB, "if tableau.x_matrix[row_m, j] == 1 and row_m != pivot[0]:", "if tableau.x_matrix[row_m, j] == 1:"),
    ("C11-4 canonical_form clears a sign directly", "C11", STB, "                    tableau = tab_row_sum(tableau, pivot[0], row_m)\n            pivot[0] = pivot[0] + 1\n    # confirm", "                    tableau = tab_row_sum(tableau, pivot[0], row_m)\n                    tableau.phase[row_m] = 0\n            pivot[0] = pivot[0] + 1\n    # confirm"),
    ("C11-5 Hadamard block y-branch takes y_list[-1]", "C11", STB, "            tableau = tab_row_swap(tableau, pivot[0], y_list[0])\n        elif z_list:", "            tableau = tab_row_swap(tableau, pivot[0], y_list[-1])\n        elif z_list:"),
    ("C11-6 Eliminate Zs: tab_row_sum(k, k)", "C11", STB, "                tableau = tab_row_sum(tableau, j, k)", "                tableau = tab_row_sum(tableau, k, k)"),
    ("C11-7 sign block also clears the sign directly", "C11", STB, '        tableau = transform.x_gate(tableau, i)\n        circuit_list.append(("X", int(i)))', '        tableau = transform.x_gate(tableau, i)\n        tableau.phase[i] = 0\n        circuit_list.append(("X", int(i)))'),
    ("C11-8 CNOT(k, j) in list AND gate", "C11", STB, '                circuit_list.append(("CNOT", j, k))\n                tableau = transform.cnot_gate(tableau, j, k)', '                circuit_list.append(("CNOT", k, j))\n                tableau = transform.cnot_gate(tableau, k, j)'),
    ("C11-9 Eliminate Zs: tab_row_sum(k, j)", "C11", STB, "                tableau = tab_row_sum(tableau, j, k)", "                tableau = tab_row_sum(tableau, k, j)"),
    ("C11-10 canonical_form X block: tab_row_sum(row_m, pivot)", "C11", STB, "                if tableau.x_matrix[row_m, j] == 1 and row_m != pivot[0]:\n                    # update the generator in row_m\n                    tableau = tab_row_sum(tableau, pivot[0], row_m)", "                if tableau.x_matrix[row_m, j] == 1 and row_m != pivot[0]:\n                    # update the generator in row_m\n                    tableau = tab_row_sum(tableau, row_m, pivot[0])"),
    ("C11-11 H condition `or` -> `and`", "C11", STB, "            if np.any(tableau.x_matrix[pivot[0], j + 1 : n_qubits]) or np.any(", "            if np.any(tableau.x_matrix[pivot[0], j + 1 : n_qubits]) and np.any("),
    ("C11-12 (survivor expected) canonical_form Z block takes z_list[-1]", "C11", STB, "tableau = tab_row_swap(tableau, pivot[0], z_list[0])\n\n            for row_m", "tableau = tab_row_swap(tableau, pivot[0], z_list[-1])\n\n            for row_m"),
]


def sh(cmd, **kw):
    return subprocess.run(cmd, shell=True, capture_output=True, text=True, **kw)


flt = sys.argv[1] if len(sys.argv) > 1 else ""
for mid, prop, f, old, new in M:
    if flt not in mid and flt != prop:
        continue
    sh(f"cd {WT} && git checkout -q -- .")
    if f == "patch":
        r = sh(f"cd {WT} && git apply {old}")
        assert r.returncode == 0, r.stderr
    else:
        p = os.path.join(WT, f)
        s = open(p).read()
        assert old in s, f"pattern not found for {mid}"
        open(p, "w").write(s.replace(old, new, 1))
    env = dict(os.environ, VERIF_REPO=WT, VERIF_EVID_DIR="/tmp/ev_dedF_mut", VERIF_PROCS="6", PYTHONPATH=f"/verif:{WT}")
    r = sh(f"cd /verif && ./check {prop} --only deductive", env=env)
    lines = [l for l in r.stdout.splitlines() if l.startswith(("VIOLATION", "UNDECIDED", "CHECKER-ERROR"))]
    names = []
    for l in lines:
        m_ = re.search(r"obligation=(\S.*?)(?: reason=|$)", l) or re.search(r"replay=\S*/([^/\s]+)\.json", l)
        names.append((l.split()[0], (m_.group(1) if m_ else l)[:230]))
    print(f"== {mid}  [{prop}] exit={r.returncode}  {len([n for n in names if n[0]=='VIOLATION'])} violation(s), {len([n for n in names if n[0]=='UNDECIDED'])} undecided")
    seen = set()
    names = [(k, n) for k, n in names if not any(b in n for b in ("ClassicalC", "MeasurementCNOTandReset", "edge_match.verdict-does-not"))]
    for k, n in names:
        short = re.sub(r"\[[^\]]*\]", "[..]", n)
        if short in seen:
            continue
        seen.add(short)
        if len(seen) <= 4:
            print("     ", k, n)
    sys.stdout.flush()
sh(f"cd {WT} && git checkout -q -- .")
