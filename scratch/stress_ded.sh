#!/bin/bash
# repeat the deductive parts with different pool sizes / seeds to flush out nondeterministic verdicts
cd /verif
for round in 1 2 3 4 5 6; do
  for i in $(seq -w 1 20); do
    p=C$i
    procs=$(( (round % 3 + 1) * 5 ))
    out=$(VERIF_EVID_DIR=/tmp/ev_stress VERIF_PROCS=$procs VERIF_SEED=$round ./check $p --only deductive 2>&1)
    rc=$?
    echo "round=$round $p procs=$procs exit=$rc $(echo "$out" | grep -c '^VIOLATION') viol $(echo "$out" | grep -c '^UNDECIDED') und"
    [ $rc -ne 0 ] && echo "$out" | grep '^VIOLATION\|CHECKER' | head -5
  done
done
