import sys, importlib
from pyvc.driver import run_tasks
mod = importlib.import_module(sys.argv[1]); fn = getattr(mod, sys.argv[2]); flt = sys.argv[3]
try:
    ts = fn()
except TypeError:
    from contracts import tasks_stab as TS
    ts = fn(TS.all_contracts())
ts = [t for t in ts if flt in t.label][:1]
d = run_tasks(ts)
print(d.errors)
for o in d.obligations:
    print(o.status, o.name.split(":",1)[1] if ":" in o.name else o.name, "|", o.detail[:150])
