import sys, time, cProfile, pstats
sys.path.insert(0, "/verif"); sys.path.insert(0, "/repo")
from contracts import dag as D
t = [t for t in D.tasks() if t.label=="remove_op[CNOT,ee]"][0]
pr = cProfile.Profile(); pr.enable()
t.run()
pr.disable()
pstats.Stats(pr).sort_stats("cumulative").print_stats(28)
