"""usage: d2_run.py <module> [filter]  - run tasks() (+canaries if 'can') of contracts.<module> and print non-discharged"""
import sys, time
sys.path.insert(0, "/verif")
import importlib
from pyvc.driver import run_tasks
m = importlib.import_module("contracts." + sys.argv[1])
flt = sys.argv[2] if len(sys.argv) > 2 else ""
ts = [t for t in (m.canary_tasks() if flt == "can" else m.tasks()) if flt in ("", "can") or flt in t.label]
t0 = time.time()
d = run_tasks(ts, procs=1 if len(ts) < 3 else None)
print("errors:", d.errors)
bad = [o for o in d.obligations if o.status != "discharged"]
print(f"obligations={len(d.obligations)} bad={len(bad)} wall={time.time()-t0:.1f}s")
for o in bad: print("  ", o.status, o.name, "|", o.detail[:160], "| replayed=", o.replayed, "|", str(o.witness)[:300])
