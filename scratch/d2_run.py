"""usage: d2_run.py <module> [filter] [-v]  - run tasks() (canary_tasks() if filter == 'can') of contracts.<module>"""
import sys, time, os
sys.path.insert(0, "/verif"); sys.path.insert(1, os.environ.get("VERIF_REPO", "/repo"))
import importlib
from pyvc.driver import run_tasks
m = importlib.import_module("contracts." + sys.argv[1])
args = [a for a in sys.argv[2:] if a != "-v"]
flt = args[0] if args else ""
ts = [t for t in (m.canary_tasks() if flt == "can" else m.tasks()) if flt in ("", "can") or flt in t.label]
t0 = time.time()
d = run_tasks(ts, procs=1 if len(ts) < 3 else None)
print("errors:", d.errors)
bad = [o for o in d.obligations if o.status != "discharged"]
print(f"obligations={len(d.obligations)} bad={len(bad)} wall={time.time()-t0:.1f}s")
if "-v" in sys.argv:
    for o in d.obligations: print("  ", o.status, o.name, round(o.ms, 1))
for o in bad: print("  ", o.status, o.name, "|", o.detail[:160], "| replayed=", o.replayed, "|", str(o.witness)[:300])
