#!/bin/bash
# Mutation trials of the C08 / C09 deductive additions (ded-D).  Each trial: exact-string edit in the scratch worktree /tmp/wt_dedD,
# the relevant task group is run with VERIF_REPO pointing there, the non-discharged obligations are printed.
# usage: scratch/dedD_mutants.sh            (needs: git -C /repo worktree add --detach /tmp/wt_dedD HEAD)
cd /verif
SRC=graphiq/backends/state_rep_conversion.py
LCC=graphiq/backends/stabilizer/functions/local_cliff_equi_check.py
LIN=graphiq/backends/stabilizer/functions/linalg.py
t() { # name file old new module taskfn
  echo "=== $1"
  scratch/dedD_mut.sh "$2" "$3" "$4" -- .venv/bin/python scratch/dedD_run.py "$5" "$6" 2>&1 | grep -v 'condarc\|SyntaxWarning\|"""' \
    | grep '^   [^ ]' | sed -E 's/ (refuted|undecided) .*/ \1/' | sort -u | head -${7:-6}
}
t "C08a _graph_finder: defensive copies dropped" $SRC '    x_mat = np.copy(x_matrix)
    z_mat = np.copy(z_matrix)
    n_row, n_column = x_mat.shape
    x_mat, z_mat, rank = sla.row_reduction(x_mat, z_mat)' '    n_row, n_column = x_matrix.shape
    x_mat, z_mat, rank = sla.row_reduction(x_matrix, z_matrix)' graph_finder gf_tasks 8
t "G2 _graph_finder: returned tuple (p_dag, h) exchanged" $SRC 'return state_graph, (h_positions, z_diag_pos)' 'return state_graph, (z_diag_pos, h_positions)' graph_finder gf_tasks
t "G3 _graph_finder: H positions computed on the unreduced argument" $SRC 'h_positions = _position_finder(x_mat)' 'h_positions = _position_finder(x_matrix)' graph_finder gf_tasks
t "G5 _graph_finder: P_dag positions read after the diagonal was cleared" $SRC '    final_z_diag = list(np.diag(final_z))
    z_diag_pos = [i for i, d in enumerate(final_z_diag) if d != 0]
    # remove diagonal parts of z_matrix
    for i in range(n_row):
        final_z[i, i] = 0
' '    for i in range(n_row):
        final_z[i, i] = 0
    final_z_diag = list(np.diag(final_z))
    z_diag_pos = [i for i, d in enumerate(final_z_diag) if d != 0]
' graph_finder gf_tasks
t "G6 _graph_finder: z copy replaced by np.asarray(.., dtype=int) (aliases int input only)" $SRC 'z_mat = np.copy(z_matrix)' 'z_mat = np.asarray(z_matrix, dtype=int)' graph_finder gf_tasks
t "C08b state_to_graph: early return when no H / P_dag is needed" $SRC '    # phase correction; adding Z gates' '    if not gate_list:
        return graph, tab, gate_list
    # phase correction; adding Z gates' graph_finder s2g_tasks
t "S2 state_to_graph(adjacency): component order (graph, [], tab)" $SRC '            return graph, tab, []
        except' '            return graph, [], tab
        except' graph_finder s2g_tasks
t "S3 state_to_graph: P_dag list before H list" $SRC 'gate_list = [("H", pos) for pos in h_pos] + [("P_dag", pos) for pos in p_dag_pos]' 'gate_list = [("P_dag", pos) for pos in p_dag_pos] + [("H", pos) for pos in h_pos]' graph_finder s2g_tasks
t "S4 state_to_graph: _phase_correction(g_tab, tab, ..)" $SRC '_phase_correction(tab, g_tab, gate_list)' '_phase_correction(g_tab, tab, gate_list)' graph_finder s2g_tasks
t "S6 state_to_graph: deep copy removed" $SRC '    state = copy.deepcopy(state)' '    state = state' graph_finder s2g_tasks
t "S7 state_to_graph(Clifford): destabilizer_z instead of stabilizer_z" $SRC 'z_matrix = state.stabilizer_z' 'z_matrix = state.destabilizer_z' graph_finder s2g_tasks
t "S9 state_to_graph: sign repair computed before the P_dag gates are added" $SRC '    phase_correction = _phase_correction(tab, g_tab, gate_list)' '    phase_correction = _phase_correction(tab, g_tab, [("H", pos) for pos in h_pos])' graph_finder s2g_tasks
t "P1 _phase_correction: circuit run on tab1 itself" $SRC 'run_circuit(tab1.copy(), gate_list)' 'run_circuit(tab1, gate_list)' graph_finder pc_tasks
t "P2 _phase_correction: signs of tab1 instead of tab2" $SRC 'phase_diff = (tab2.phase - new_tab.phase) % 2' 'phase_diff = (tab1.phase - new_tab.phase) % 2' graph_finder pc_tasks
t "P3 _phase_correction: Z where z_ops is 0" $SRC 'enumerate(z_ops) if z]' 'enumerate(z_ops) if not z]' graph_finder pc_tasks
t "P5 _phase_correction: canonical form of the circuit result dropped (leaves the accepted subset: float inverse of a non-identity matrix)" $SRC 'new_tab = canonical_form(run_circuit(tab1.copy(), gate_list))' 'new_tab = run_circuit(tab1.copy(), gate_list)' graph_finder pc_tasks
t "P7 _phase_correction: + instead of - under mod 2 (EQUIVALENT mutant: must survive)" $SRC 'phase_diff = (tab2.phase - new_tab.phase) % 2' 'phase_diff = (tab2.phase + new_tab.phase) % 2' graph_finder pc_tasks
t "T1 stabilizer_to_graph: X and Z part exchanged" $SRC '            graph = _graph_finder(tableau.x_matrix, tableau.z_matrix)
            graph_list.append((each_stabilizer[0], graph))' '            graph = _graph_finder(tableau.z_matrix, tableau.x_matrix)
            graph_list.append((each_stabilizer[0], graph))' graph_finder stg_tasks
t "H1 hadamard_transform: Z keeps its columns" $LIN '    z_matrix[:, positions] = temp2
' '' graph_finder ht_tasks
t "R1 _row_red_one_step: add_rows on Z with source/target exchanged" $LIN '                z_matrix = add_rows(z_matrix, pivot[0], j)
            pivot = [pivot[0] + 1, pivot[1] + 1]' '                z_matrix = add_rows(z_matrix, j, pivot[0])
            pivot = [pivot[0] + 1, pivot[1] + 1]' row_reduction tasks
t "R7 _row_red_one_step: first hit not removed (pivot row added to itself)" $LIN '            the_ones.remove(the_ones[0])
            for j in the_ones:
                x_matrix = add_rows(x_matrix, pivot[0], j)
                z_matrix = add_rows(z_matrix, pivot[0], j)
            pivot' '            for j in the_ones:
                x_matrix = add_rows(x_matrix, pivot[0], j)
                z_matrix = add_rows(z_matrix, pivot[0], j)
            pivot' row_reduction tasks
t "R4 row_reduction: works on a copy of x_matrix" $LIN '    pivot = [0, 0]
    old_pivot = [1, 1]' '    pivot = [0, 0]
    x_matrix = x_matrix.copy()
    old_pivot = [1, 1]' row_reduction tasks
t "C09a lc_check: stable sort moves the Z gates to the end" $LCC '    inversed_gates2 = inversed_gates2[::-1]
' '    inversed_gates2 = inversed_gates2[::-1]
    inversed_gates2.sort(key=lambda gate: gate[0] == "Z")
' lc_gate_lists lc_check_tasks
t "M1b lc_check: sorted(...) copy instead of list.sort" $LCC '    inversed_gates2 = inversed_gates2[::-1]
' '    inversed_gates2 = sorted(inversed_gates2[::-1], key=lambda gate: gate[0] == "Z")
' lc_gate_lists lc_check_tasks
t "M2 lc_check: reversal dropped" $LCC '    inversed_gates2 = inversed_gates2[::-1]
' '' lc_gate_lists lc_check_tasks
t "M3 lc_check: P_dag not inverted" $LCC 'inversed_gates2.append(("P", gate[1]))' 'inversed_gates2.append(("P_dag", gate[1]))' lc_gate_lists lc_check_tasks
t "M4 lc_check: converter gates before gates1" $LCC 'total_gate_list = gates1 + gate_list + inversed_gates2' 'total_gate_list = gate_list + gates1 + inversed_gates2' lc_gate_lists lc_check_tasks
t "M5 lc_check: validates an equal list object (EQUIVALENT mutant: must survive)" $LCC 'final_tab = run_circuit(tab1.copy(), total_gate_list)' 'final_tab = run_circuit(tab1.copy(), gates1 + gate_list + inversed_gates2)' lc_gate_lists lc_check_tasks
t "M6 lc_check: validation runs on tab1 itself" $LCC 'final_tab = run_circuit(tab1.copy(), total_gate_list)' 'final_tab = run_circuit(tab1, total_gate_list)' lc_gate_lists lc_check_tasks
t "M7 lc_check: converter_gate_list(graph2, graph1)" $LCC 'gate_list = converter_gate_list(graph1, graph2)' 'gate_list = converter_gate_list(graph2, graph1)' lc_gate_lists lc_check_tasks
t "K1 converter_gate_list: word order kept" $LCC 'for op in ops.split()[::-1]:' 'for op in ops.split():' lc_gate_lists conv_tasks
t "K3 converter_gate_list: tableaux exchanged" $LCC 'phase_correction = _phase_correction(tab1, tab2, gate_list)' 'phase_correction = _phase_correction(tab2, tab1, gate_list)' lc_gate_lists conv_tasks
t "K4 converter_gate_list: sign repair first" $LCC '    gate_list += phase_correction' '    gate_list = phase_correction + gate_list' lc_gate_lists conv_tasks
t "C1 state_converter_circuit: gates added in reversed order" $LCC '    for gate in gate_list:
        op = str_to_op(gate)' '    for gate in gate_list[::-1]:
        op = str_to_op(gate)' lc_gate_lists scc_tasks
t "C3 str_to_op: P and P_dag exchanged in the name table" $LCC 'name_list = ["I", "H", "X", "P", "P_dag", "Z"]' 'name_list = ["I", "H", "X", "P_dag", "P", "Z"]' lc_gate_lists scc_tasks
