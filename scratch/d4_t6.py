import sys, time
sys.path.insert(0, "/verif")
from contracts import frames as F
from pyvc.driver import run_tasks
from scratch.d4_run import show
t0=time.time()
what = sys.argv[1] if len(sys.argv) > 1 else "trs"
T = {"trs": F.trs_tasks, "noisy": F.noisy_gates_tasks, "assign": F.assign_noise_tasks, "mc": F.mc_noisy_gates_tasks, "canary": F.canary_tasks}[what]()
d = run_tasks(T)
show(d, verbose=len(sys.argv) > 2)
print("wall", time.time()-t0)
