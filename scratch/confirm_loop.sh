#!/bin/bash
# usage: confirm_loop.sh <k> <N> : confirm every delivered seed whose ordinal % N == k, once; loops until all 40 are seen
K=$1; N=$2
cd /verif
mkdir -p /tmp/seed_confirm
while true; do
  n=0; i=0
  for d in /tmp/seed_out/C*[ab]; do
    name=$(basename $d); i=$((i+1))
    [ -f $d/meta.json ] && [ -f $d/patch.diff ] && [ -f $d/demo.py ] || continue
    n=$((n+1))
    [ $((i % N)) -eq $K ] || continue
    [ -f /tmp/seed_confirm/$name.json ] && continue
    VERIF_BASE_N=6 python3 tools/seed_trial.py confirm $d $name > /tmp/seed_confirm/$name.json 2>/tmp/seed_confirm/$name.err
    echo "$(date -u +%H:%M) $name $(python3 -c "import json;d=json.load(open('/tmp/seed_confirm/$name.json'));print(d.get('confirmed'), d.get('demo_unchanged_exit'), d.get('demo_changed_exit'), d.get('baseline_ok'), d.get('error',''))" 2>&1)" >> /tmp/seed_confirm/log
  done
  [ -f /tmp/seed_confirm/STOP ] && break
  [ $n -ge 40 ] && break
  sleep 60
done
