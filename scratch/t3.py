import sys
sys.path.insert(0, "/verif"); sys.path.insert(0, "/repo")
import z3
from pyvc.contract import Task
from pyvc.driver import run_task
from pyvc import schema as S
from contracts import stab_gates as G
from contracts.common import *
C = G.C
q = f"{TRANS}:cnot_gate"
bad = G._two_qubit(lambda xc, zc, xt, zt, r: (xc, xor(zc, zt), xor(xt, xc), zt, xor(r, xc * zt * xor(xt, zc))))
import copy
Cb = dict(C); Cb[q] = copy.copy(C[q]); Cb[q].spec = bad
t = Task(q, Cb[q], [S.Clifford("T"), S.IntArg("c"), S.IntArg("t")], Cb, inline=TABLEAU_ACCESSORS, label="cnot")
label, qual, rows, meta = run_task(t)
print(meta["error"])
for r in rows:
    if r["status"]!="discharged": print(r["name"], r["status"], r["replayed"], r["witness"])
