import sys, time
sys.path.insert(0, "/verif"); sys.path.insert(0, "/repo")
from pyvc.driver import run_task
from contracts import tasks_stab as TS, stab_state as SS
C = TS.all_contracts()
for t in SS.tasks(C):
    t0=time.time()
    label, qual, rows, meta = run_task(t)
    bad=[r for r in rows if r["status"]!="discharged"]
    print(f"{label:50s} ob={len(rows):3d} bad={len(bad)} {time.time()-t0:.2f}s", (meta["error"] or "")[-600:])
    for r in bad: print("    ", r["name"], r["status"], r["detail"][:300])
