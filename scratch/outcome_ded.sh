#!/bin/bash
K=$1; N=$2
cd /verif
i=0
for d in seeded/C*[ab]; do
  name=$(basename $d); i=$((i+1)); [ $((i % N)) -eq $K ] || continue
  VERIF_PROCS=8 python3 tools/seed_trial.py check $name --tier quick --only deductive > /tmp/outcome_$name.ded2.log 2>&1
  touch /tmp/outcome_ded2_done_$name
done
