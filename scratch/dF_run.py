"""usage: dF_run.py <module> <func returning tasks> [filter]  - run tasks and print obligations that are not discharged"""
import sys, importlib, time
from pyvc.driver import run_tasks
mod = importlib.import_module(sys.argv[1])
fn = getattr(mod, sys.argv[2])
flt = sys.argv[3] if len(sys.argv) > 3 else ""
args = []
if len(sys.argv) > 4:
    ctor = sys.argv[4]
    if ctor == "C":
        from contracts import tasks_stab as TS
        args = [TS.all_contracts()]
try:
    ts = fn(*args)
except TypeError:
    from contracts import tasks_stab as TS
    ts = fn(TS.all_contracts())
ts = [t for t in ts if flt in t.label]
t0 = time.time()
d = run_tasks(ts)
print("errors:", d.errors)
st = {}
for o in d.obligations:
    st[o.status] = st.get(o.status, 0) + 1
    if o.status != "discharged":
        print(o.status.upper(), o.name, "|", o.detail[:400], "| replayed=", o.replayed)
print(st, f"{time.time()-t0:.1f}s", "max ms", max((o.ms for o in d.obligations), default=0))
for q, f in d.functions.items():
    print(q, f["obligations"], f["discharged"], f["paths"])
