import sys, time
import os; sys.path.insert(0, "/verif"); sys.path.insert(0, os.environ.get("VERIF_REPO", "/repo"))
import importlib
from pyvc.driver import run_task
from contracts import tasks_stab as TS
C = TS.all_contracts()
mod = importlib.import_module("contracts." + sys.argv[1])
fn = getattr(mod, sys.argv[2] if len(sys.argv) > 2 else "tasks")
pat = sys.argv[3] if len(sys.argv) > 3 else ""
import inspect
for t in (fn(C) if inspect.signature(fn).parameters else fn()):
    if pat and pat not in t.label: continue
    t0 = time.time()
    label, qual, rows, meta = run_task(t)
    bad = [r for r in rows if r["status"] != "discharged"]
    print(f"== {label}: {len(rows)} obligations, {len(bad)} bad, paths={meta['paths']} wall={time.time()-t0:.1f}s solver={meta['solver_ms']:.0f}ms", meta["error"] or "")
    for r in (rows if "-v" in sys.argv else bad):
        print("   ", r["name"], r["status"], round(r["ms"]), r["detail"][:300], "| replayed" if r.get("replayed") else "", str(r.get("witness"))[:300] if r["status"]!="discharged" else "")
