import sys
sys.path.insert(0, "/verif")
from contracts import metrics as M
from pyvc.driver import run_tasks
from scratch.d4_run import show
d = run_tasks([M.reads_defined_task(n) for n in M.metric_class_names()])
show(d)
