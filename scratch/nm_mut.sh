#!/bin/bash
# usage: nm_mut.sh <file-in-repo> <old> <new> -- <command...>     (dedE; worktree /tmp/wt_dedE)
F=$1; OLD=$2; NEW=$3; shift 4
cd /tmp/wt_dedE && git checkout -q -- . && python3 - "$F" "$OLD" "$NEW" <<'PY'
import sys
f,old,new=sys.argv[1:4]
s=open(f).read()
assert s.count(old)>=1, "pattern not found"
s=s.replace(old,new,1)
open(f,'w').write(s)
PY
[ $? -ne 0 ] && { echo "MUTATION NOT APPLIED"; exit 9; }
cd /verif && VERIF_EVID_DIR=/tmp/ev_dedE VERIF_REPO=/tmp/wt_dedE "$@"
rc=$?
cd /tmp/wt_dedE && git checkout -q -- .
exit $rc
