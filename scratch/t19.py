import sys, os
sys.path.insert(0, "/verif"); sys.path.insert(0, os.environ.get("VERIF_REPO","/repo"))
from contracts import ats
from pyvc.driver import run_task
for t in ats.tasks():
    label, qual, rows, meta = run_task(t)
    print(label, meta["paths"], meta["error"], [(r["name"].split(":")[1], r["status"], r["count"]) for r in rows])
