import sys, time
sys.path.insert(0, "/verif"); sys.path.insert(0, "/repo")
from pyvc.driver import run_task
from contracts import dag as D
sel = sys.argv[1] if len(sys.argv)>1 else ""
ok=0; n=0
for t in D.tasks():
    if sel not in t.label: continue
    n+=1
    t0=time.time()
    label, qual, rows, meta = run_task(t)
    bad=[r for r in rows if r["status"]!="discharged"]
    if not bad and not meta["error"]: ok+=1; print(f"{label:40s} ob={len(rows):3d} ok paths={meta['paths']} {time.time()-t0:.1f}s"); continue
    print(f"{label:40s} ob={len(rows):3d} bad={len(bad)} paths={meta['paths']} {time.time()-t0:.2f}s", (meta["error"] or "")[-300:])
    for r in bad[:6]: print("    ", r["name"], r["status"], r["detail"][:400])
print(ok, "of", n)
