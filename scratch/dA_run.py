import sys, time
sys.path.insert(0, "/verif")
from pyvc.driver import run_tasks
from contracts import trs_sync as X
which = sys.argv[1]
pre = sys.argv[2] if len(sys.argv) > 2 and not sys.argv[2].startswith("-") else ""
T = getattr(X, which)()
T = [t for t in T if pre in t.label]
t0 = time.time()
d = run_tasks(T)
from collections import Counter
print(Counter(o.status for o in d.obligations), f"wall={time.time()-t0:.1f}s max_ms={max([o.ms for o in d.obligations] or [0]):.0f}")
for o in d.obligations:
    if o.status != "discharged" or "-v" in sys.argv:
        print(o.status, o.name, "|", (o.detail or "")[:400])
for e in d.errors: print("ERR", str(e)[:3000])
for q, f in d.functions.items(): print(f"  {q.split(':')[1]:50s} {f['status']:6s} {f['discharged']}/{f['obligations']} paths={f['paths']} {f['solver_ms']}ms")
