import sys, time
sys.path.insert(0, "/verif")
import z3
from pyvc.contract import Task
from pyvc.driver import run_task
from contracts import stab_gates as G
from contracts.common import *

C = G.C
tasks = []
def mk_mat(I):
    r = sym_nat(I, "rows", 1); c = sym_nat(I, "cols", 1)
    return int_matrix(I, "M", r, c)
for fn in ["row_swap", "add_rows", "column_swap", "add_columns"]:
    q = f"{LINALG}:{fn}"
    tasks.append(Task(q, C[q], lambda I: [mk_mat(I), z3.Int("a"), z3.Int("b")], C))
q = f"{LINALG}:multiply_columns"
def mk_mc(I):
    r = sym_nat(I, "rows", 1)
    return [int_matrix(I, "A", r, sym_nat(I, "ca", 1)), int_matrix(I, "B", r, sym_nat(I, "cb", 1)), z3.Int("a"), z3.Int("b")]
tasks.append(Task(q, C[q], mk_mc, C))
q = f"{LINALG}:g_function"
tasks.append(Task(q, C[q], lambda I: [z3.Int("x1"), z3.Int("z1"), z3.Int("x2"), z3.Int("z2")], C))
for fn in G.RULES1:
    q = f"{TRANS}:{fn}"
    tasks.append(Task(q, C[q], lambda I: [mk_clifford(I), z3.Int("q")], C, inline=TABLEAU_ACCESSORS, label=fn + "[Clifford]"))
    tasks.append(Task(q, C[q], lambda I: [mk_stabilizer(I), z3.Int("q")], C, inline=TABLEAU_ACCESSORS, label=fn + "[Stabilizer]"))
for fn in G.RULES2:
    q = f"{TRANS}:{fn}"
    tasks.append(Task(q, C[q], lambda I: [mk_clifford(I), z3.Int("c"), z3.Int("t")], C, inline=TABLEAU_ACCESSORS, label=fn + "[Clifford]"))
for t in tasks:
    t0 = time.time()
    label, qual, rows, meta = run_task(t)
    bad = [r for r in rows if r["status"] != "discharged"]
    print(f"{label:32s} obligations={len(rows):3d} bad={len(bad)} paths={meta['paths']} {time.time()-t0:.2f}s", meta["error"] or "")
    for r in bad:
        print("    ", r["name"], r["status"], r["detail"][:300])
