import sys, time, os
sys.path.insert(0, "/verif"); sys.path.insert(0, os.environ.get("VERIF_REPO", "/repo"))
from contracts import moves_sem as M
from pyvc.driver import run_task
which = sys.argv[1:] 
T = M.tasks() + (M.canary_tasks() if "canary" in which else [])
for t in T:
    if which and which != ["canary"] and not any(w in t.label for w in which): continue
    t0 = time.time()
    label, qual, rows, meta = run_task(t)
    print(f"== {label} paths={meta['paths']} wall={meta['wall']:.2f}s solver={meta['solver_ms']:.0f}ms err={meta['error']}")
    for r in rows:
        flag = "" if r["status"] == "discharged" else "   <<<<<< " + r["status"] + " " + r["detail"][:300]
        print(f"   {r['name'].split(':',1)[1]:90s} {r['ms']:.0f}ms x{r['count']}{flag}")
        if r["status"]=="refuted" and r.get("witness"): print("        witness:", r["witness"], r["replayed"])
