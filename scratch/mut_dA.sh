#!/bin/bash
# usage: mut_dA.sh <file-in-repo> <old> <new> [occurrence-index] -- <command...>
F=$1; OLD=$2; NEW=$3; shift 3
OCC=0
if [ "$1" != "--" ]; then OCC=$1; shift; fi
shift
cd /tmp/wt_dedA && git checkout -q -- . && python3 - "$F" "$OLD" "$NEW" "$OCC" <<'PY'
import sys
f,old,new,occ=sys.argv[1:5]
occ=int(occ)
s=open(f).read()
parts=s.split(old)
assert len(parts)-1>occ, f"pattern occurs {len(parts)-1} times"
s=old.join(parts[:occ+1])+new+old.join(parts[occ+1:])
open(f,'w').write(s)
PY
cd /verif && VERIF_PROCS=6 VERIF_EVID_DIR=/tmp/ev_dedA VERIF_REPO=/tmp/wt_dedA PYTHONPATH=/verif:/tmp/wt_dedA "$@"
cd /tmp/wt_dedA && git checkout -q -- .
