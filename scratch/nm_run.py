"""scratch runner for contracts/noise_models.py (dedE): python scratch/nm_run.py <group> [label-substring]"""
import sys, time, os
sys.path.insert(0, "/verif"); sys.path.insert(0, os.environ.get("VERIF_REPO", "/repo"))
from contracts import noise_models as N
from pyvc.driver import run_tasks

grp = sys.argv[1] if len(sys.argv) > 1 else "depol"
sub = sys.argv[2] if len(sys.argv) > 2 else ""
tasks = N.group(grp) if hasattr(N, "group") else N.depol_tasks(N.stab_contracts(), N.dm_contracts())
tasks = [t for t in tasks if sub in t.label]
t0 = time.time()
d = run_tasks(tasks, procs=int(os.environ.get("VERIF_PROCS", "6")))
print("errors:", d.errors)
bad = [o for o in d.obligations if o.status != "discharged"]
print(f"tasks={len(tasks)} obligations={len(d.obligations)} bad={len(bad)} wall={time.time()-t0:.1f}s solver_ms={sum(o.ms for o in d.obligations):.0f} max_ms={max([o.ms for o in d.obligations] or [0]):.0f}")
for o in bad[:40]:
    print("  ", o.name, o.status, o.detail[:300])
for q, f in d.functions.items():
    print(f"  {q.split(':')[1]:40s} {f['status']:6s} {f['discharged']}/{f['obligations']} paths={f['paths']} {f['solver_ms']}ms")
if os.environ.get("SHOW"):
    for o in d.obligations:
        print("   ", o.status[:4], f"{o.ms:7.0f}", o.name)
if os.environ.get("WIT"):
    for o in bad[:int(os.environ["WIT"])]:
        print("WITNESS", o.name, "replayed=", o.replayed, str(o.witness)[:700])
