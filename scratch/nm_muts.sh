#!/bin/bash
# mutation trials of graphiq/noise/noise_models.py for contracts/noise_models.py (dedE)
F=graphiq/noise/noise_models.py
RUN="env WIT=1 .venv/bin/python scratch/nm_run.py all"
show() { grep "^tasks=\|errors: \[.\|NOT APPLIED" "$1" | cut -c1-160; grep " refuted \| undecided " "$1" | cut -c1-230 | head -3; grep "^WITNESS" "$1" | cut -c1-420 | head -1; }
m() { echo "=== $1"; shift; scratch/nm_mut.sh "$F" "$1" "$2" -- $RUN > /tmp/nm_mut_one.log 2>&1; show /tmp/nm_mut_one.log; }
echo "=== M1 seeded C06a: sign-flip helper with x|z"; (cd /tmp/wt_dedE && git checkout -q -- . && git apply /verif/seeded/C06a/patch.diff); (cd /verif && VERIF_REPO=/tmp/wt_dedE $RUN > /tmp/nm_mut_one.log 2>&1; show /tmp/nm_mut_one.log); (cd /tmp/wt_dedE && git checkout -q -- .)
m "M2 error weight p/n_kraus (p/4)" '+ (n_kraus - 1) * [depolarizing_prob / (n_kraus - 1)]' '+ (n_kraus - 1) * [depolarizing_prob / n_kraus]'
m "M3 error applied to the original tableau, no copy" 'new_tableau_i = tableau_i.copy()' 'new_tableau_i = tableau_i'
m "M4 Y implemented as X" '                transform.y_gate,' '                transform.x_gate,'
m "M5 qubit offset +1" 'new_tableau_i = pauli_j(new_tableau_i, qubit_position)' 'new_tableau_i = pauli_j(new_tableau_i, qubit_position + 1)'
m "M5b two-register error: registers reversed" 'zip(trans_iter[k], reg_list)' 'zip(trans_iter[k], reg_list[::-1])'
m "M6 identity branch dropped" 'if factors[k] > 0:' 'if k > 0 and factors[k] > 0:'
m "M7 loss weight (mixture): l instead of 1-l" 'mixture[i] = ((1 - loss_rate) * mixture[i][0], mixture[i][1])' 'mixture[i] = (loss_rate * mixture[i][0], mixture[i][1])'
m "M7b loss weight (pure state): weight 1" 'state_rep = MixedStabilizer([(1 - loss_rate, state_rep.data)])' 'state_rep = MixedStabilizer([(1.0, state_rep.data)])'
m "M7c loss weight (dm): squared" 'state_rep.data = (1 - loss_rate) * state_rep.data' 'state_rep.data = (1 - loss_rate) * ((1 - loss_rate) * state_rep.data)'
m "M8 placement default: before instead of after" 'noise_parameters = {"After gate": True}
        else:
            if "After gate" not in noise_parameters.keys():
                noise_parameters["After gate"] = True' 'noise_parameters = {"After gate": True}
        else:
            if "After gate" not in noise_parameters.keys():
                noise_parameters["After gate"] = False'
m "M9 zero-weight branches dropped again (revert a2d0fba)" 'if factors[k] > 0:' 'if p_i * factors[k] > 0:'
m "M10 PauliError Y on a mixture applies X" 'state_rep.apply_sigmay(reg_list[0])' 'state_rep.apply_sigmax(reg_list[0])'
m "M11 Kraus weight without sqrt" 'np.sqrt(factors[i])' 'factors[i]'
m "M12 Kraus order: Y and Z exchanged (dm only)" '                dmf.sigmay(),
                dmf.sigmaz(),
            ]
            kraus_ops_iter = itertools.product' '                dmf.sigmaz(),
                dmf.sigmay(),
            ]
            kraus_ops_iter = itertools.product'
m "M13 reduce() before the new mixture is installed" '            state_rep.mixture = mixture
            if REDUCE_STABILIZER_MIXTURE:
                state_rep.reduce()' '            if REDUCE_STABILIZER_MIXTURE:
                state_rep.reduce()
            state_rep.mixture = mixture'
m "M14 PauliError Y on a density matrix uses sigmax" 'error_op = dmf.get_one_qubit_gate(n_quantum, reg_list[0], dmf.sigmay())' 'error_op = dmf.get_one_qubit_gate(n_quantum, reg_list[0], dmf.sigmax())'
m "M15 new mixture never installed" '            state_rep.mixture = mixture
' '            pass
'
m "M16 PauliError on a pure tableau: Z appended for Y" 'gate_list.append(("Y", reg_list[0]))' 'gate_list.append(("Z", reg_list[0]))'
m "M17 copy is shallow (copy.copy semantics via sharing the table)" 'new_tableau_i = tableau_i.copy()' 'new_tableau_i = tableau_i.copy(); new_tableau_i._table = tableau_i._table'
m "M18 identity weight 1-p/4... (1 - p) -> (1 - p/2)" '[1 - depolarizing_prob]' '[1 - depolarizing_prob / 2]'
