import sys
sys.path.insert(0, "/verif")
from lemmas import wires
for o in wires.obligations():
    print(f"{o.name:55s} {o.status:11s} {o.ms:7.0f}ms {o.detail[:300] if o.status!='discharged' else ''}")
