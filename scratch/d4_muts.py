"""mutation trials: python scratch/d4_muts.py <suite>   (worktree /tmp/wt_d4)"""
import subprocess, sys, os, json
WT = "/tmp/wt_d4"
def run_mut(f, old, new, script_args, nth=1):
    subprocess.run(["git", "-C", WT, "checkout", "-q", "--", "."], check=True)
    p = os.path.join(WT, f); s = open(p).read()
    assert s.count(old) >= nth, ("pattern not found", old)
    idx = -1
    for _ in range(nth):
        idx = s.index(old, idx + 1)
    s = s[:idx] + new + s[idx + len(old):]
    open(p, "w").write(s)
    env = dict(os.environ, VERIF_REPO=WT, PYTHONPATH=f"/verif:{WT}", PYTHONDONTWRITEBYTECODE="1", GRAPHIQ_VERIF="1")
    out = subprocess.run(["/verif/.venv/bin/python", "-W", "ignore"] + script_args, capture_output=True, text=True, env=env, cwd="/verif")
    subprocess.run(["git", "-C", WT, "checkout", "-q", "--", "."], check=True)
    return out.stdout + out.stderr
SUITES = {}
SUITES["c18"] = [
 ("unitary: drop CZ", "graphiq/metrics.py", '            "CNOT",\n            "CZ",\n        ]:', '            "CNOT",\n        ]:', ["scratch/d4_t2.py", "CircuitUnitaryCount"]),
 ("unitary: SigmaY->SigmaX (X twice)", "graphiq/metrics.py", '            "SigmaY",\n            "SigmaZ",\n            "Phase",', '            "SigmaX",\n            "SigmaZ",\n            "Phase",', ["scratch/d4_t2.py", "CircuitUnitaryCount"]),
 ("unitary: no copy", "graphiq/metrics.py", "        circuit = circuit.copy()\n        circuit.unwrap_nodes()", "        circuit.unwrap_nodes()", ["scratch/d4_t2.py", "CircuitUnitaryCount"]),
 ("unitary: no remove_identity", "graphiq/metrics.py", "        circuit.remove_identity()\n        n_u = 0", "        n_u = 0", ["scratch/d4_t2.py", "CircuitUnitaryCount"]),
 ("depth: penalty(depth+1)", "graphiq/metrics.py", "val = self.depth_penalty(depth)\n        self.increment()\n\n        if self._inc % self.log_steps == 0:\n            self.log.append(val)\n\n        return val\n\n\nclass Metrics", "val = self.depth_penalty(depth + 1)\n        self.increment()\n\n        if self._inc % self.log_steps == 0:\n            self.log.append(val)\n\n        return val\n\n\nclass Metrics", ["scratch/d4_t2.py", "CircuitDepth"]),
 ("emitter: log condition == 1", "graphiq/metrics.py", "val = self.n_emitter_penalty(n)\n        self.increment()\n\n        if self._inc % self.log_steps == 0:", "val = self.n_emitter_penalty(n)\n        self.increment()\n\n        if self._inc % self.log_steps == 1:", ["scratch/d4_t2.py", "CircuitEmitterCount"]),
 ("emitter: no increment", "graphiq/metrics.py", "val = self.n_emitter_penalty(n)\n        self.increment()\n", "val = self.n_emitter_penalty(n)\n", ["scratch/d4_t2.py", "CircuitEmitterCount"]),
 ("measure: counts MeasurementZ", "graphiq/metrics.py", 'c.get_node_by_labels(["MeasurementCNOTandReset"])', 'c.get_node_by_labels(["MeasurementZ"])', ["scratch/d4_t2.py", "CircuitMeasureCount"]),
 ("cnot: counts CZ", "graphiq/metrics.py", '["Emitter-Emitter", "CNOT"]', '["Emitter-Emitter", "CZ"]', ["scratch/d4_t2.py", "CircuitCnotCount"]),
 ("cnot: returns n not penalty", "graphiq/metrics.py", "        val = self.n_cnot_penalty(n)\n", "        val = n\n", ["scratch/d4_t2.py", "CircuitCnotCount"]),
 ("measure: log appends n", "graphiq/metrics.py", "val = self.m_penalty(n)\n        self.increment()\n\n        if self._inc % self.log_steps == 0:\n            self.log.append(val)", "val = self.m_penalty(n)\n        self.increment()\n\n        if self._inc % self.log_steps == 0:\n            self.log.append(n)", ["scratch/d4_t2.py", "CircuitMeasureCount"]),
 ("ctor: default penalty under wrong attribute (unitary)", "graphiq/metrics.py", "            self.n_unitary_penalty = (\n                lambda x: x", "            self.n_emitter_penalty = (\n                lambda x: x", ["scratch/d4_t2.py", "CircuitUnitaryCount"]),
]
if __name__ == "__main__":
    suite = SUITES[sys.argv[1]] if sys.argv[1] in SUITES else None
    if suite is None:
        sys.path.insert(0, "/verif/scratch"); import importlib; suite = importlib.import_module(sys.argv[1]).SUITE
    pick = sys.argv[2] if len(sys.argv) > 2 else None
    for m in suite:
        name, f, old, new, args = m[:5]
        if pick and pick not in name: continue
        out = run_mut(f, old, new, args, *(m[5:6]))
        bad = [l.strip() for l in out.splitlines() if " refuted " in l or " undecided " in l or "Traceback" in l or "Error" in l]
        print(f"== {name}: {len(bad)} failing lines")
        for l in bad[:6]: print("     ", l[:230])
