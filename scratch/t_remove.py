import sys, time, z3
sys.path.insert(0, "/verif")
from pyvc.contract import Task
from pyvc import schema as S, loops, nzseq
from pyvc.driver import run_tasks
from contracts import tasks_stab as TS, stab_remove as R, stab_clifford as K
from contracts.tasks_clifford import INLINE
C = TS.all_contracts(); C.update(R.C)
modes = sys.argv[1:] or ["probabilistic", "0", "1"]
B = z3.Function("T_tab", z3.IntSort(), z3.IntSort(), z3.BoolSort())
n, q = z3.Int("n_T"), z3.Int("q")
s, d = z3.Ints("tb_s tb_d")
basis = z3.Implies(z3.ForAll([s], z3.Implies(z3.And(s >= n, s < 2 * n), z3.Not(B(s, q)))),
                   z3.Exists([d], z3.And(d >= 0, d < n, B(d, q))))
from pyvc.symlist import comprehension_hook
hooks = {"loop": loops.make_hook(R.REMOVE_LOOPS), "comprehension": comprehension_hook}
tasks = []
for m in modes:
    mode = m if m == "probabilistic" else int(m)
    tasks.append(Task(R.REMOVE, C[R.REMOVE], [S.Clifford("T"), S.IntArg("q"), S.Const("mode", mode), S.Assume(basis, "T-basis")],
                      C, inline=INLINE, hooks=hooks, label=f"remove_qubit[{mode}]", timeout_ms=20000))
t0 = time.time()
d = run_tasks(tasks)
from collections import Counter
print(Counter(o.status for o in d.obligations), round(time.time() - t0, 1), "s")
for o in d.obligations:
    if o.status != "discharged":
        print(o.status, o.name, "|", (o.detail or "")[:300], "| replayed", o.replayed)
for e in d.errors: print("ERR", str(e)[:600])
for k, v in d.functions.items(): print(k, {a: b for a, b in v.items() if a != "tasks"})
import os
if os.environ.get("LIST"):
    for o in d.obligations: print(" ", o.status, o.name, o.ms)
