"""emulates the planned wiring of props/C10, C15, C11, C05 without editing them"""
import sys, time
which = sys.argv[1]
t0 = time.time()
if which == "C10":
    from props import C10 as P; from contracts import ats_map as M
    d = M.extend_deductive(P.deductive(), "quick")
elif which == "C15":
    from props import C15 as P; from contracts import cmp_walk as M
    d = M.extend_deductive(P.deductive())
elif which == "C11":
    from props import C11 as P; from contracts import stab_group as M, tasks_stab as TS
    d = M.extend_deductive(P.deductive(), TS.all_contracts())
elif which == "C05":
    from props import C05 as P; from contracts import stab_group as M, tasks_stab as TS
    d = M.extend_deductive(P.deductive(), TS.all_contracts(), with_inverse=False)
st = {}
for o in d.obligations:
    st[o.status] = st.get(o.status, 0) + 1
    if o.status != "discharged":
        print(o.status.upper(), o.name[:200], "| replayed", o.replayed)
print(which, st, "errors", d.errors, f"{time.time()-t0:.1f}s")
for c in d.canaries:
    print("  canary", c["name"], c["refuted"], c["replayed"])
