import sys, time
sys.path.insert(0, "/verif")
from contracts import metrics as M
from pyvc.driver import run_tasks
from scratch.d4_run import show
t0=time.time()
pat = sys.argv[1] if len(sys.argv) > 1 else ""
d = run_tasks(M.dispatch_tasks(only=(lambda lab: pat in lab) if pat else None))
show(d, verbose=len(sys.argv) > 2)
print("wall", time.time()-t0)
