import sys, time
sys.path.insert(0, "/verif")
from pyvc.driver import run_tasks
import importlib
def show(d, verbose=False):
    print("errors:", d.errors[:3])
    bad = [o for o in d.obligations if o.status != "discharged"]
    print(f"obligations={len(d.obligations)} bad={len(bad)} solver_ms={sum(o.ms for o in d.obligations):.0f}")
    for o in bad[:40]: print("  ", o.name, o.status, o.detail[:300], o.witness, o.replayed)
    if verbose:
        for o in d.obligations: print("   ", o.status, o.name)
    for q, f in d.functions.items(): print(f"  {q.split(':')[1]:34s} {f['status']:6s} {f['discharged']}/{f['obligations']} paths={f['paths']} {f['solver_ms']}ms")
if __name__ == "__main__":
    mod, fn = sys.argv[1], sys.argv[2]
    m = importlib.import_module(mod)
    t0 = time.time()
    tasks = getattr(m, fn)()
    d = run_tasks(tasks)
    show(d, verbose=len(sys.argv) > 3)
    print("wall", round(time.time() - t0, 1))
