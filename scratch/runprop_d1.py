import sys, time, importlib, json, os
pm = importlib.import_module("props." + sys.argv[1])
t0 = time.time()
d = pm.deductive()
print("errors:", [e[:300] for e in d.errors])
print("canaries:", [(c["name"], c["refuted"], c["replayed"]) for c in d.canaries])
bad = [o for o in d.obligations if o.status != "discharged"]
base = set()
bf = f"/tmp/d1_base_{sys.argv[1]}.json"
if "--save-base" in sys.argv:
    json.dump([o.name for o in bad], open(bf, "w"))
elif os.path.exists(bf):
    base = set(json.load(open(bf)))
new = [o for o in bad if o.name not in base]
gone = base - {o.name for o in bad}
print(f"obligations={len(d.obligations)} bad={len(bad)} new-vs-baseline={len(new)} fixed-vs-baseline={len(gone)} wall={time.time()-t0:.1f}s")
for o in new[:14]: print("  ", o.status, o.name, "|", o.detail[:160], "| replayed", o.replayed)
