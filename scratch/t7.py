import sys, time
sys.path.insert(0, "/verif")
import os
sys.path.insert(0, os.environ.get("VERIF_REPO","/repo"))
import z3, numpy as np
from pyvc.contract import Task
from pyvc import schema as S, loops, nzseq
from contracts import tasks_stab as TS, stab_clifford as K
from contracts.tasks_clifford import INLINE
C = TS.all_contracts()
t = Task(K.ZMEAS, C[K.ZMEAS], [S.Clifford("T"), S.IntArg("q"), S.Const("mode", "probabilistic")], C, inline=INLINE, label="zm")
rng = np.random.default_rng(0)
for k in range(5):
    env = {}
    concs = [it.random(rng, env) for it in t.inputs]
    try:
        print(t.replay_concrete(concs))
    except Exception as e:
        import traceback; traceback.print_exc()
