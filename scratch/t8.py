import sys, time
sys.path.insert(0, "/verif"); sys.path.insert(0, "/repo")
from pyvc.driver import run_task
from contracts import compile_stab as CS
C = CS.recorder_contracts()
tasks = CS.tasks(C)
print(len(tasks))
sel = sys.argv[1] if len(sys.argv)>1 else ""
for t in tasks:
    if sel not in t.label: continue
    t0=time.time()
    label, qual, rows, meta = run_task(t)
    bad=[r for r in rows if r["status"]!="discharged"]
    print(f"{label:90s} ob={len(rows):3d} bad={len(bad)} {time.time()-t0:.2f}s", (meta["error"] or "")[-600:])
    for r in bad: print("    ", r["name"], r["status"], r["detail"][:300])
