#!/bin/bash
# usage: try_seed.sh <name e.g. C01a> [extra ./check args]   -- runs ./check <prop> against a scratch worktree with the seed applied
name=$1; shift
prop=${name:0:3}
src=/tmp/seed_out/$name; [ -d /verif/seeded/$name ] && src=/verif/seeded/$name
wt=/tmp/try_$name
git -C /repo worktree remove --force $wt >/dev/null 2>&1; rm -rf $wt
git -C /repo worktree add -q --detach $wt HEAD || exit 9
git -C $wt apply $src/patch.diff || { echo "PATCH DOES NOT APPLY"; git -C /repo worktree remove --force $wt; exit 9; }
cd /verif
t0=$(date +%s)
VERIF_REPO=$wt VERIF_EVID_DIR=/tmp/try_evid_$name ./check $prop "$@" > /tmp/try_$name.log 2>&1
rc=$?
t1=$(date +%s)
echo "== $name $* exit=$rc $((t1-t0))s viol=$(grep -c '^VIOLATION' /tmp/try_$name.log) undecided=$(grep -c '^UNDECIDED' /tmp/try_$name.log)"
grep '^VIOLATION' /tmp/try_$name.log | head -4 | cut -c1-220
grep -v '^VIOLATION\|^UNDECIDED\|^KNOWN' /tmp/try_$name.log | tail -2 | cut -c1-300
git -C /repo worktree remove --force $wt >/dev/null 2>&1; rm -rf $wt /tmp/try_evid_$name
