"""mutation trials for contracts/dag_rewrites.py + contracts/depth.py (scratch worktree /tmp/wt_dedC)"""
import json, os, subprocess, sys
WT = "/tmp/wt_dedC"
F = "graphiq/circuit/circuit_dag.py"
MEMO = "MEMO"
M = [
 ("C13a group: wrapper gates collected from op.unwrap()", '''                    if isinstance(op, ops.OneQubitGateWrapper):
                        gate_list += op.operations
                    else:
                        gate_list.append(op.__class__)''', '''                    gate_list += [type(gate) for gate in op.unwrap()]'''),
 ("C18a _max_depth memo, stamp = _node_id", MEMO, None),
 ("C18b remove_identity iterates the live list", 'identity_list = self.node_dict["Identity"].copy()', 'identity_list = self.node_dict["Identity"]'),
 ("M4 unwrap_nodes inserts the gates in listed order", 'op_list = self.dag.nodes[node]["op"].unwrap()', 'op_list = self.dag.nodes[node]["op"].unwrap()[::-1]'),
 ("M5 unwrap_nodes inserts after the wrapper (out edge)", '''                    in_edge = list(self.dag.in_edges(node, keys=True))
                    self.insert_at(op, in_edge)''', '''                    in_edge = list(self.dag.out_edges(node, keys=True))
                    self.insert_at(op, in_edge)'''),
 ("M6 _max_depth takes the minimum over predecessors", "        return max(depth) + 1", "        return min(depth) + 1"),
 ("M7 _max_depth looks at the first incoming edge only", "        connected_nodes = [edge[0] for edge in in_edges]", "        connected_nodes = [edge[0] for edge in in_edges][:1]"),
 ("M8 calculate_reg_depth skips register 0", "        for i in range(len(self._register_depth[reg_type])):", "        for i in range(1, len(self._register_depth[reg_type])):"),
 ("M9 calculate_reg_depth queries the in node", '            output_node = f"{reg_type}{i}_out"', '            output_node = f"{reg_type}{i}_in"'),
 ("M10 group: plain gates prepended to gate_list", "                        gate_list.append(op.__class__)", "                        gate_list.insert(0, op.__class__)"),
 ("M11 remove_identity skips the last listed identity", "            for node in identity_list:", "            for node in identity_list[:-1]:"),
 ("M12 wrapper_list not copied in unwrap_nodes", 'wrapper_list = self.node_dict["OneQubitGateWrapper"].copy()', 'wrapper_list = self.node_dict["OneQubitGateWrapper"]'),
 ("M13 calculate_all_reg_depth forgets the classical registers", "        for reg_type in self._register_depth:\n            self.calculate_reg_depth(reg_type=reg_type)", '        for reg_type in ("e", "p"):\n            self.calculate_reg_depth(reg_type=reg_type)'),
 ("M14 group: new wrapper gets the gates in application order", "                        ops.OneQubitGateWrapper(gate_list, register, reg_type),", "                        ops.OneQubitGateWrapper(gate_list[::-1], register, reg_type),"),
 ("M15 _max_depth: Input nodes have depth 0", "            return -1\n\n        in_edges", "            return 0\n\n        in_edges"),
 ("M16 _remove_node re-joins only when there is one in-edge (two-qubit nodes left cut)", "                if in_edge[2] == out_edge[2]:  # i.e. if the keys are the same", "                if in_edge[2] == out_edge[2] and len(in_edges) == 1:"),
 ("M17 reg_gate_history follows any edge with the register NUMBER (type ignored)", '                if edge[2]["reg"] == reg and edge[2]["reg_type"] == reg_type', '                if edge[2]["reg"] == reg'),
 ("M18 reg_gate_history takes the last matching out edge of all", '                if edge[2]["reg"] == reg and edge[2]["reg_type"] == reg_type\n            ][0]', '            ][-1]'),
 ("EQ1 (equivalent) remove_identity iterates list(node_dict.get(...))", '        if "Identity" in self.node_dict:\n            identity_list = self.node_dict["Identity"].copy()\n            for node in identity_list:\n                self.remove_op(node)', '        for node in list(self.node_dict.get("Identity", [])):\n            self.remove_op(node)'),
 ("EQ2 (equivalent) _max_depth as a generator expression", '        in_edges = self.dag.in_edges(root_node)\n        connected_nodes = [edge[0] for edge in in_edges]\n        depth = []\n\n        for node in connected_nodes:\n            depth.append(self._max_depth(node))\n        return max(depth) + 1', '        return 1 + max(self._max_depth(e[0]) for e in self.dag.in_edges(root_node))'),
 ("EQ3 (equivalent) group uses gate_list.extend", "                        gate_list += op.operations", "                        gate_list.extend(op.operations)"),
]
RUN = r'''
import sys, json
sys.path.insert(0, "/verif")
from pyvc.driver import run_tasks
from contracts import dag_rewrites as RW, depth as DP
d = run_tasks(RW.tasks() + DP.tasks())
bad = [(o.name, o.status, o.detail[:160]) for o in d.obligations if o.status != "discharged"]
print("RESULT" + json.dumps(dict(errors=d.errors, n=len(d.obligations), bad=bad)))
'''
def sh(*a, **k): return subprocess.run(*a, **k, capture_output=True, text=True)
out = []
sel = sys.argv[1:] 
for name, old, new in M:
    if sel and not any(s in name for s in sel): continue
    sh(["git", "checkout", "-q", "--", "."], cwd=WT)
    if old == MEMO:
        sh(["python3", "/tmp/dedC_memo.py", F], cwd=WT)
    else:
        p = os.path.join(WT, F); s = open(p).read(); assert old in s, name; open(p, "w").write(s.replace(old, new, 1))
    env = dict(os.environ, VERIF_REPO=WT, VERIF_PROCS="6", PYTHONPATH=f"/verif:{WT}")
    r = sh(["/verif/.venv/bin/python", "-c", RUN], env=env, cwd="/verif")
    line = [l for l in r.stdout.splitlines() if l.startswith("RESULT")]
    if not line:
        print(name, "NO RESULT", r.stderr[-800:]); continue
    res = json.loads(line[0][6:])
    ref = [b for b in res["bad"] if b[1] == "refuted"]; und = [b for b in res["bad"] if b[1] == "undecided"]
    print(f"## {name}: refuted={len(ref)} undecided={len(und)} errors={len(res['errors'])}")
    for b in ref[:3]: print("     R", b[0], "|", b[2][:110])
    for b in und[:2]: print("     U", b[0], "|", b[2][:110])
    for e in res["errors"][:1]: print("     E", e[:300])
    out.append(dict(name=name, refuted=[b[0] for b in ref], undecided=[b[0] for b in und], errors=res["errors"]))
sh(["git", "checkout", "-q", "--", "."], cwd=WT)
json.dump(out, open("/tmp/ev_dedC_mutants.json", "w"), indent=1)
