#!/bin/bash
# usage: mut.sh <file-in-repo> <old> <new> -- <command...>     (scratch worktree /tmp/wt_dedC)
F=$1; OLD=$2; NEW=$3; shift 4
cd /tmp/wt_dedC && git checkout -q -- . && python3 - "$F" "$OLD" "$NEW" <<'PY'
import sys
f,old,new=sys.argv[1:4]
s=open(f).read()
assert old in s, "pattern not found"
s=s.replace(old,new,1)
open(f,'w').write(s)
PY
cd /verif && VERIF_EVID_DIR=/tmp/ev_dedC VERIF_REPO=/tmp/wt_dedC VERIF_PROCS=6 PYTHONPATH=/verif:/tmp/wt_dedC "$@"
cd /tmp/wt_dedC && git checkout -q -- .
