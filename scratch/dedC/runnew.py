import sys, time, importlib.util
sys.path.insert(0, "/verif")
spec = importlib.util.spec_from_file_location("propnew", sys.argv[1]); pm = importlib.util.module_from_spec(spec); spec.loader.exec_module(pm)
t0 = time.time()
d = pm.deductive()
print("errors:", d.errors)
print("canaries not refuted:", [c for c in d.canaries if not c["refuted"]], "of", len(d.canaries))
bad = [o for o in d.obligations if o.status != "discharged"]
print(f"obligations={len(d.obligations)} bad={len(bad)} wall={time.time()-t0:.1f}s")
for o in bad: print("  ", o.name, o.status, o.detail[:200])
for q, f in d.functions.items(): print(f"  {q.split(':')[1]:45s} {f['status']:6s} {f['discharged']}/{f['obligations']} paths={f['paths']} {f['solver_ms']}ms")
