import sys, time, importlib
sys.path.insert(0, "/verif")
import os
from pyvc.driver import run_tasks
mod = importlib.import_module(sys.argv[1])
fn = sys.argv[2]
pat = sys.argv[3] if len(sys.argv) > 3 else ""
T = [t for t in getattr(mod, fn)() if pat in t.label]
t0 = time.time()
d = run_tasks(T)
print("errors:", d.errors)
bad = [o for o in d.obligations if o.status != "discharged"]
print(f"tasks={len(T)} obligations={len(d.obligations)} bad={len(bad)} wall={time.time()-t0:.1f}s")
for o in bad: print("  ", o.name, o.status, o.detail[:300])
for q, f in d.functions.items():
    print(f"  {q.split(':')[1]:40s} {f['status']:6s} {f['discharged']}/{f['obligations']} paths={f['paths']} {f['solver_ms']}ms")
if "-v" in sys.argv:
    for o in d.obligations: print("   ", o.status, o.name)
