"""C13 - deductive part: frame clauses (contracts/frames.py, contracts/metrics.py, contracts/compile_loop.py).

[P]  metrics: every `evaluate` under contract writes only self._inc / appends to self.log; mutating circuit/state methods are
     only called on copies (write log of the interpreter + receivers of recorded calls).
[P]  CompilerBase.compile: op.noise restored after every loop iteration (trace induction; contracts/compile_loop.py).
[P]  CircuitDAG._noisy_gates / assign_noise, MonteCarloNoise._noisy_gates: fresh ops, original ops (noise fields) not written.
[P]  TimeReversedSolver.__init__: REFUTED for graph / density-matrix targets - converts the caller's target in place
     (known finding T1, replayed natively); discharged for stabilizer targets.
[B-only] rewrite clauses (copy / unwrap_nodes / remove_identity / group_one_qubit_gates preserve the compiled state), solver
     .solve() frames, interleavings.
"""
from __future__ import annotations

from pyvc.driver import run_tasks, merge
from contracts import frames as F, metrics as M, compile_loop as CL


def deductive(tier="quick", seed=0):
    d = run_tasks(M.count_tasks() + F.noisy_gates_tasks() + F.mc_noisy_gates_tasks() + CL.tasks() + F.trs_tasks()
                  + F.assign_noise_tasks() + M.dispatch_tasks())
    can = run_tasks(F.canary_tasks() + M.frame_canary_tasks())
    d.errors.extend(can.errors)
    d.canaries = M.canary_summary(can)
    d.inlined = sorted(M.INLINE | CL.CS.INLINE)
    d.trusted_base += [
        "[A] copy.deepcopy = fresh equal object graph (S7); CircuitDAG._slim_seq returns the circuit's own operation objects",
        "[A] frame checks see writes through attribute / item assignment and list, dict, set mutators of interpreted code; "
        "recorded (abstract) callees are classified as mutators / readers by name (contracts/metrics.py MUTATORS)",
        "[B-only] rewrite clauses: copy, unwrap_nodes, remove_identity, group_one_qubit_gates, assign_noise(empty map) preserve "
        "the compiled state (needs the wire view, C12/C20); solver.solve() frames; histories of <= 3 calls: bounded/C13.py",
        "[B-only] CircuitMaxEmit*Depth.evaluate, Metrics.evaluate, GraphMetric.evaluate frames",
    ]
    d.not_applicable_clauses += ["'repeating a deterministic compile returns the same state' follows from the compile frame "
                                 "clause + C01 (mode 0/1); not a separate obligation"]
    return d


def replay_obligation(data):
    """./check C13 --replay FILE"""
    name = data["obligation"]
    if name.startswith("TimeReversedSolver.__init__[target.rep_type=") and ":frame." in name:
        rep = name.split("rep_type=")[1].split("]")[0]
        wit, bad = F.native_trs(rep)
        print(f"replay: {wit['call']}\n  expected: {wit['expected']}\n  actual:   {wit['actual']}")
        if bad:
            print(f"VIOLATION property=C13 obligation={name}")
        return 1 if bad else 0
    d = deductive()
    bad = [o for o in d.obligations if o.name == name and o.status == "refuted"]
    print(f"VIOLATION property=C13 obligation={name}" if bad else "replay: obligation is discharged on the current tree")
    return 1 if bad else 0
