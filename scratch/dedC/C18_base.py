"""C18 - deductive part: graphiq/metrics.py constructors and the five counting metrics (contracts/metrics.py).

[P]  <Class>.__init__(defaults):reads-defined.*   every attribute `evaluate` (and what it calls on self) reads exists on the
     object the REAL constructor chain builds with default arguments - all 12 metric classes.
[P]  <Class>.evaluate[default arguments | log_steps=L,penalty=pen]  for CircuitDepth / CircuitEmitterCount / CircuitCnotCount /
     CircuitUnitaryCount / CircuitMeasureCount: value = penalty(definition) where the definition is a query of the circuit API
     (recorder contracts), `_inc` incremented, log appended iff the new `_inc` is a multiple of log_steps (symbolic L >= 1,
     symbolic counter), the caller's circuit is not mutated (mutators only on the copy; write log).
[F]  CircuitUnitaryCount iterates exactly the 8 unitary gate class names, each once (`labels.*` obligations, all 2^8
     node_dict membership patterns) and those 8 names are exactly the unitary gate classes of graphiq.circuit.ops (lemma).
"""
from __future__ import annotations

from pyvc.driver import run_tasks, merge
from contracts import metrics as M


def deductive(tier="quick", seed=0):
    tasks = [M.reads_defined_task(n) for n in M.metric_class_names()] + M.count_tasks()
    d = run_tasks(tasks)
    d.obligations.extend(M.unitary_label_lemma())
    can = run_tasks(M.count_canary_tasks())
    d.errors.extend(can.errors)
    d.canaries = M.canary_summary(can)
    for c in d.canaries:
        if c["refuted"] and not c["replayed"]:
            d.notes.append(f"canary {c['name']} refuted, counter-model not replayed")
    d.inlined = sorted(M.INLINE)
    d.trusted_base += [
        "[A-API] recorder contracts: CircuitDAG.depth (= nx.dag_longest_path_length-1), CircuitBase.n_emitters, "
        "CircuitDAG.get_node_by_labels (= |intersection of the label sets|), CircuitBase.copy (deepcopy: equal circuit, fresh "
        "object), unwrap_nodes / remove_identity (circuit versions unwrap(C), rmid(..)) - their own contracts are C12/C13/C20 "
        "and the bounded stand-in of C18",
        "[A-WF4] a label that is not a key of node_dict labels no node (count = 0)",
        "[A] explicit penalty functions are pure (uninterpreted pen: Int -> Int); `x % m` for m >= 1 is Euclidean mod",
        "[B-only] CircuitMaxEmitDepth / CircuitMaxEmitResetDepth / CircuitMaxEmitEffDepth .evaluate (reg_gate_history, _max_depth "
        "walks), register depth (calculate_reg_depth), Metrics.evaluate weighting, GraphMetric.evaluate (networkx): only their "
        "constructors are under contract here; values are decided by bounded/C18.py",
        "[B-only] that circuit.depth / get_node_by_labels compute the longest path / the label intersection of the real DAG",
    ]
    d.not_applicable_clauses += ["floating-point penalties (penalty functions are abstract integer functions here)"]
    return d
