#!/bin/bash
# usage: mut.sh <file-in-repo> <python-regex-old> <new> -- <command...>
F=$1; OLD=$2; NEW=$3; shift 4
cd /tmp/wt_me && git checkout -q -- . && python3 - "$F" "$OLD" "$NEW" <<'PY'
import sys,re
f,old,new=sys.argv[1:4]
s=open(f).read()
assert old in s, "pattern not found"
s=s.replace(old,new,1)
open(f,'w').write(s)
PY
cd /verif && VERIF_EVID_DIR=/tmp/mut_evid VERIF_REPO=/tmp/wt_me "$@"
cd /tmp/wt_me && git checkout -q -- .
