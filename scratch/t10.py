import sys, time
sys.path.insert(0, "/verif"); sys.path.insert(0, "/repo")
from pyvc.driver import run_task
from contracts import compile_dm as CD
C = CD.contracts()
tasks = CD.tasks(C)
sel = sys.argv[1] if len(sys.argv)>1 else ""
ok=0
for t in tasks:
    if sel not in t.label: continue
    t0=time.time()
    label, qual, rows, meta = run_task(t)
    bad=[r for r in rows if r["status"]!="discharged"]
    if not bad and not meta["error"]: ok+=1; continue
    print(f"{label:90s} ob={len(rows):3d} bad={len(bad)} {time.time()-t0:.2f}s", (meta["error"] or "")[-600:])
    for r in bad: print("    ", r["name"], r["status"], r["detail"][:300])
print(ok, "of", len(tasks), "fully discharged")
