import numpy as np, time, itertools
import graphiq.circuit.ops as ops
import graphiq.backends.density_matrix.functions as dmf
L = list(ops.one_qubit_cliffords())
M = list(ops.local_cliffords_name_to_matrix_map())
for l, m in zip(L, M):
    nz = np.abs(m)[(np.abs(m) > 0) & (np.abs(m) < 1e-3)]
    if len(nz): print([c.__name__ for c in l], m)
w = np.exp(1j*np.pi/4)
t0 = time.time(); bad = 0
for i, m in enumerate(M):
    for k in range(8):
        r = ops.find_local_clifford_by_matrix(w**k * m)
        if r != L[i]: bad += 1; print("mismatch", i, k, [c.__name__ for c in r])
print("192 done", bad, time.time()-t0)
# words: products via simplify for 24x24
t0 = time.time(); bad = 0
for i in range(24):
    for j in range(24):
        r = ops.simplify_local_clifford(L[i] + L[j])
print("576 done", time.time()-t0)
# tiny residues in words up to len 4 over generator classes
G = [ops.Identity, ops.Hadamard, ops.Phase, ops.SigmaX, ops.SigmaY, ops.SigmaZ]
worst = 0
for n in range(1, 6):
    for wd in itertools.product(G[1:], repeat=n):
        m = ops.local_clifford_to_matrix_map(list(wd))
        a = np.abs(m)
        tiny = a[(a > 0) & (a < 1e-3)]
        if len(tiny):
            worst = max(worst, tiny.max())
            try:
                ops.find_local_clifford_by_matrix(m)
            except ValueError:
                print("RAISES for", [c.__name__ for c in wd], m); raise SystemExit
print("worst tiny", worst)
