import sys, time, z3, os, itertools
sys.path.insert(0, "/verif")
from pyvc.contract import Task
from pyvc import schema as S, loops
from pyvc.driver import run_tasks
from contracts import tasks_stab as TS, stab_remove as R
from contracts.tasks_clifford import INLINE
C = TS.all_contracts(); C.update(R.C)
tasks = []
what = sys.argv[1]
if what == "tensor":
    tasks.append(Task(R.TENSOR, C[R.TENSOR], [S.ListOf("tables", [S.Clifford("A"), S.Clifford("B")])], C, inline=INLINE, label="tensor[2]", timeout_ms=20000))
    tasks.append(Task(R.TENSOR, C[R.TENSOR], [S.ListOf("tables", [S.Clifford("A"), S.Clifford("B"), S.Clifford("D")])], C, inline=INLINE, label="tensor[3]", timeout_ms=20000))
else:
    n = int(sys.argv[2])
    for r in range(0, n + 1):
        for keep in itertools.combinations(range(n), r):
            for mode in ("probabilistic", 1):
                tasks.append(Task(R.PTRACE, C[R.PTRACE], [S.Clifford("T", n), S.Const("keep", list(keep)), S.Const("dims", None), S.Const("mode", mode)],
                                  C, inline=INLINE, label=f"partial_trace[n={n},keep={list(keep)},{mode}]", timeout_ms=20000))
t0 = time.time()
d = run_tasks(tasks)
from collections import Counter
print(Counter(o.status for o in d.obligations), round(time.time() - t0, 1), "s")
for o in d.obligations:
    if o.status != "discharged":
        print(o.status, o.name, "|", (o.detail or "")[:300], "| replayed", o.replayed)
for e in d.errors: print("ERR", str(e)[:600])
for k, v in d.functions.items(): print(k, {a: b for a, b in v.items() if a != "tasks"})
if os.environ.get("LIST"):
    for o in d.obligations: print(" ", o.status, o.name, o.ms)
