import sys, time
sys.path.insert(0, "/verif"); sys.path.insert(0, "/repo")
from contracts import compile_loop as CL
import pyvc.trace as TR
orig = TR.Cursor.expect
def dbg(self, name, *args):
    if self.pos < len(self.trace):
        ev = self.trace[self.pos]
        for k,(g,w) in enumerate(zip(ev["args"], args)):
            s = TR.same(g,w)
            if s is False: print("MISMATCH", name, k, type(g), type(w), g, w); 
    return orig(self, name, *args)
TR.Cursor.expect = dbg
t = CL.tasks()[0]
eng = t.run()
