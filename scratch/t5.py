import sys
sys.path.insert(0, "/verif"); sys.path.insert(0, "/repo")
from pyvc.driver import run_tasks
from contracts import tasks_stab as TS
C = TS.all_contracts()
can = run_tasks(TS.canary_tasks(C))
for o in can.obligations:
    if o.status != "discharged": print(o.name, o.status, o.replayed, o.witness)
