import sys, json, numpy as np, z3
sys.path.insert(0, "/verif")
from contracts import tasks_stab as TS, tasks_clifford as TC
C = TS.all_contracts()
tasks = {t.label: t for t in TC.shrink_grow_tasks(C)}
rng = np.random.default_rng(1)
for lab in ("remove_qubit[1]", "remove_qubit[probabilistic]", "remove_qubit[0]"):
    t = tasks[lab]
    stats = {}
    for k in range(60):
        env = {}
        concs = [it.random(rng, env) for it in t.inputs]
        try:
            wit, ok = t.replay_concrete(concs)
        except Exception as e:
            stats["EXC " + type(e).__name__ + str(e)[:80]] = stats.get("EXC " + type(e).__name__ + str(e)[:80], 0) + 1
            continue
        key = (ok, (wit.get("note") or wit.get("difference") or wit.get("actual") or "")[:90])
        stats[key] = stats.get(key, 0) + 1
    print(lab)
    for k, v in stats.items(): print("   ", v, k)
