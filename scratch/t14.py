import sys
sys.path.insert(0, "/verif")
import z3
Int=z3.IntSort()
Row = z3.DeclareSort("Row")
SP = z3.Function("SP", Row, Row, z3.BoolSort())
add = z3.Function("radd", Row, Row, Row)
R = z3.Function("R", Int, Row)
Z = z3.Const("Zq", Row)
u, v, w = z3.Consts("u v w", Row)
n, p, a, b, i, k = z3.Ints("n p a b i k")
ax = [z3.ForAll([u, v], SP(u, v) == SP(v, u)), z3.ForAll([u, v, w], SP(add(u, v), w) == z3.Xor(SP(u, w), SP(v, w))), z3.Not(SP(Z, Z)), z3.ForAll([u], z3.Not(SP(u,u)))]
valid_old = z3.ForAll([i, k], z3.Implies(z3.And(i >= 0, i < 2 * n, k >= 0, k < 2 * n), SP(R(i), R(k)) == z3.Or(i - k == n, k - i == n)))
h = lambda t: SP(R(t), Z)
asm = ax + [valid_old, n >= 1, p >= n, p < 2 * n, h(p), a >= 0, a < 2 * n, b >= 0, b < 2 * n]
s=z3.Solver(); s.set("timeout",20000); s.add(*asm); s.add(n==1); print("assumptions satisfiable:", s.check())
# canary: row p-n not replaced
newrow = lambda t: z3.If(t == p, Z, z3.If(z3.And(h(t), t != p), add(R(t), R(p)), R(t)))
s=z3.Solver(); s.set("timeout",20000); s.add(*asm); s.add(z3.Not(SP(newrow(a), newrow(b)) == z3.Or(a - b == n, b - a == n))); print("canary (no p-n update):", s.check())
