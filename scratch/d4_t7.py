import sys, time
sys.path.insert(0, "/verif")
from contracts import metrics as M
from pyvc.driver import run_tasks
from scratch.d4_run import show
d = run_tasks(M.count_canary_tasks() + M.dispatch_canary_tasks() + M.frame_canary_tasks())
show(d)
print(M.canary_summary(d))
