"""additive edits to EXISTING files (to be run once, after 19:15 UTC): engine models + wiring of props/C08.py, props/C09.py"""
import sys

ROOT = sys.argv[1] if len(sys.argv) > 1 else "/verif"


def edit(path, old, new, count=1):
    p = f"{ROOT}/{path}"
    s = open(p).read()
    if new in s:
        print("already applied:", path, new[:50].replace("\n", " "))
        return
    assert s.count(old) == count, (path, old[:60], s.count(old))
    s = s.replace(old, new)
    open(p, "w").write(s)
    print("edited", path)


# ---- pyvc/models.py: list(<1-D array of symbolic length>)
edit("pyvc/models.py", '''    def b_list(i, x=()):
        if isinstance(x, _SymList) and concrete_int(x.length) is None:
            return x.copy()  # list(l) of a list of symbolic length: a fresh list with the same elements
''', '''    def b_list(i, x=()):
        if isinstance(x, _SymList) and concrete_int(x.length) is None:
            return x.copy()  # list(l) of a list of symbolic length: a fresh list with the same elements
        if isinstance(x, NDArr) and x.ndim == 1 and concrete_int(x.shape[0]) is None:
            used("list(<1-D array of symbolic length>) = the list of its entries in order (copy)")
            snap = x.snapshot()
            return _SymList(x.shape[0], lambda k, _s=snap: _s.get(to_z3(k)), "list(array)")
''')
# ---- pyvc/models.py: l.remove(l[0]) on a list of symbolic length
edit("pyvc/models.py", '''        if attr == "copy":
            return Builtin("copy", lambda interp_: obj.copy())
        raise Undecided(f"list.{attr} on a list of symbolic length")
''', '''        if attr == "copy":
            return Builtin("copy", lambda interp_: obj.copy())
        if attr == "remove":
            def srem(interp_, x):
                # [A] l.remove(x) removes the FIRST occurrence; for x = l[0] (syntactically) that is position 0: the tail remains
                first = obj.elem(z3.IntVal(0))
                if not (is_sym(x) and z3.simplify(to_z3(x)).eq(z3.simplify(to_z3(first)))):
                    raise Undecided("list.remove(x) on a list of symbolic length with x other than its first element")
                interp_.path.oblige(interp_.ob_name("remove-from-non-empty"), to_z3(obj.length) > 0)
                used("l.remove(l[0]) on a symbolic-length list = the list without its first element")
                interp_.note_write(obj, "remove")
                t = obj.tail(1)
                obj.length, obj.elem = t.length, t.elem
            return Builtin("remove", srem)
        raise Undecided(f"list.{attr} on a list of symbolic length")
''')
# ---- pyvc/models.py: sorted(<abstract list of a contract module>) via hook
edit("pyvc/models.py", '''    def b_sorted(i, x, key=None, reverse=False):
        if isinstance(x, _SymList) and getattr(x, "increasing", False) and key is None and not reverse:
''', '''    def b_sorted(i, x, key=None, reverse=False):
        h = i.hooks.get("sorted")  # abstract sequences of a contract module (e.g. pyvc/gateseq.py: an unspecified re-ordering)
        if h:
            r = h(i, x, key, reverse)
            if r is not None:
                return r
        if isinstance(x, _SymList) and getattr(x, "increasing", False) and key is None and not reverse:
''')

# ================================================================ props/C08.py
edit("props/C08.py", '''[B-only]/[N]: _graph_to_density_pure, _stabilizer_to_density_pure (dense 2^n x 2^n operator algebra; the latter ignores the
    generator signs - bounded finding F08-2), density_to_graph/_density_to_graph_pure/density_to_stabilizer (negativity through
    np.linalg.eigh with a threshold: [N]), stabilizer_to_graph/_graph_finder/_position_finder (np.linalg.det/inv in floating
    point as a GF(2) inverse: [N]; only its certificate asserts are checked at run time), state_to_graph, _phase_correction,
    mixed_*_equivalency, get_clifford_tableau_from_graph / clifford_from_stabilizer (inverse_circuit: C11).
"""''', '''[P] stabilizer -> graph chain (contracts/graph_finder.py, contracts/row_reduction.py; symbolic n unless stated):
    _graph_finder: FRAME (int- and float-dtype arguments are not modified; the in-place callees sla.row_reduction /
      sla.hadamard_transform only ever see np.copy's whose contents equal the arguments') + gate BOOKKEEPING (the returned H
      positions are the very list the X/Z column exchange was done with, found on the row-reduced working X part; the returned
      P_dag positions are the increasing enumeration of the non-zero diagonal entries that are cleared; the graph is built from
      that matrix with zero diagonal) + result shape for get_ops_data True / False; abrupt exits: the three certificate asserts.
    sla.hadamard_transform: listed columns of X and Z exchanged in place, everything else untouched (0, 1, 2 positions).
    sla._row_red_one_step / sla.row_reduction: X and Z are written ONLY by row_swap / add_rows, the same operation with the same
      rows on both (add_rows source != target), argument objects returned, pivot characterised (while-loop: partial correctness).
    state_to_graph [trace], 4 input kinds: deep copy; _graph_finder on the copy's X / Z part (stabilizer half of a Clifford tableau);
      gates = H list + P_dag list (element-wise, symbolic lengths) + the result of _phase_correction, which is called on EVERY
      path with exactly that list; returns (graph, tableau, gates); graph / adjacency input: (graph, tableau(graph), []).
    _phase_correction [trace + arithmetic, precondition X(T) = I]: canonical forms of both arguments, circuit run forward on a COPY,
      Z on qubit i <=> sign of generator i differs (Z_i flips exactly K_i), ascending; afterwards all signs agree.
[F] _position_finder, exact over ALL echelon forms n <= 3 (real code evaluated): returns exactly the non-pivot columns - holds when column 0
    carries a pivot; the complementary class is REFUTED on the unchanged tree = recorded finding C08-F3 (props/C08.findings.md D08-4).
[P] stabilizer_to_graph, graph_to_density [trace]: dispatch (one _graph_finder per tableau on ITS X / Z views, weights in order,
      validation compares the input with the result's tableaux; mixture = sum p_i rho_i; other inputs raise).
[B-only]/[N]: _graph_to_density_pure, _stabilizer_to_density_pure (dense 2^n x 2^n operator algebra; the latter ignores the
    generator signs - bounded finding F08-2), density_to_graph/_density_to_graph_pure/density_to_stabilizer (negativity through
    np.linalg.eigh with a threshold: [N]), the float GF(2) inverse inside _graph_finder / _phase_correction (np.linalg.det/inv:
    [N] - modelled as an unspecified 0/1 matrix, exact only for the identity), hence "the graph found is LC-equivalent to the
    input" (certificate asserts + bounded), _position_finder for n > 3 (relies on IndexError control flow: outside the accepted subset),
    canonical_form / run_circuit as recorded calls here (C05, C07, C11), mixed_*_equivalency,
    get_clifford_tableau_from_graph / clifford_from_stabilizer (inverse_circuit: C11).
"""''')
edit("props/C08.py", '''    d = run_tasks(RCV.tasks())
    _attach_native_witnesses(d)
    from lemmas import model_checks

    model_checks.attach(d, seed)
    can = run_tasks(RCV.canary_tasks())
    d.errors.extend(can.errors)
    d.canaries = TS.canary_summary(can)
''', '''    from contracts import graph_finder as GFM, row_reduction as RRM
    from lemmas import matsum, gateseq_checks

    d = run_tasks(RCV.tasks() + GFM.tasks() + RRM.tasks())
    d.obligations.extend(matsum.prove_sum_support2())  # L2 lemma behind the closed form of x_inv @ phase_diff (_phase_correction)
    d.obligations.extend(GFM.position_finder_obligations())  # [F] exact; the class "column 0 carries no pivot" is finding C08-F3
    _attach_native_witnesses(d)
    from lemmas import model_checks

    model_checks.attach(d, seed)
    gateseq_checks.attach(d, seed)
    can = run_tasks(RCV.canary_tasks() + GFM.canary_tasks() + RRM.canary_tasks())
    d.errors.extend(can.errors)
    d.canaries = TS.canary_summary(can) + [matsum.canary()]
''')
edit("props/C08.py", '''        "[B-only] _graph_to_density_pure, _stabilizer_to_density_pure, density_to_graph (eigh/negativity [N]), stabilizer_to_graph "
        "/_graph_finder (float GF(2) inverse [N]), state_to_graph, _phase_correction, clifford_from_stabilizer",
    ]''', '''        "[B-only] _graph_to_density_pure, _stabilizer_to_density_pure, density_to_graph (eigh/negativity [N]), the float GF(2) inverse "
        "inside _graph_finder / _phase_correction ([N]: which graph is found), _position_finder, clifford_from_stabilizer",
        "[T-canon] the canonical form of a stabilizer tableau whose X part is invertible has X = I (precondition X(T) = I of _phase_correction)",
    ] + GFM.TRUSTED + RRM.TRUSTED
    d.assumptions += [
        "_graph_finder: x_matrix, z_matrix are n x n bit matrices (int or float dtype), x_matrix is not the zero matrix in its last column at/below "
        "the pivot of row 0 - i.e. row_reduction returns rank >= 0 (for X = 0 the code indexes x_mat[-1], a negative index outside S6; that input "
        "class ends in the 'not independent' assert anyway: finding C08-F3)",
        "_phase_correction: X part of canonical(run(gates, canonical(tab1))) is the identity (both callers: the target is a graph state)",
    ]''')
edit("props/C08.py", '''        "stabilizer -> graph for any generating set (float det/inv as GF(2) inverse): [N]; certificate + bounded only",
        "state_to_graph gates map the input exactly, signs included: bounded only",''', '''        "stabilizer -> graph for any generating set: WHICH graph is found (float det/inv as GF(2) inverse) is [N] - certificate + bounded only; "
        "frame, gate bookkeeping and composition are [P] (contracts/graph_finder.py)",
        "state_to_graph gates map the input exactly, signs included: the composition (H list, P_dag list, sign repair always consulted, Z exactly "
        "where a sign differs) is [P]; that H / P_dag at the recorded positions turn the reduced tableau into the graph's is bounded only",''')

# ================================================================ props/C09.py
edit("props/C09.py", '''    local_cliff_equi_check.py (lc_check, converter_gate_list, state_converter_circuit): certificate contracts, bounded only.
"""''', '''    local_cliff_equi_check.py: that the assembled gates map state 1 onto state 2 (needs the three facts above) - bounded only.
[P] gate-list assembly of local_cliff_equi_check.py (contracts/lc_gate_lists.py, pyvc/gateseq.py):
    lc_check: returned list == gates1 + converter gates + inverse(gates2) with inverse = REVERSED order and every gate inverted
      (H, Z, X, I self-inverse, P_dag <-> P) for gate lists of symbolic length over the whole six-letter alphabet (MAP rule: complete
      case split per element, induction over the length) - any re-ordering (sort), missing reversal, wrong inverse table or segment
      order fails `post.total.*` and is replayed on the real code; (False, []) when the converter raises; validate=True validates the
      returned list on a copy of tab1 against canonical(tab2).
    converter_gate_list [F: 36 word pairs x 4 corrections, n = 2]: per qubit the local-Clifford word in reversed word order, then the
      sign repair computed for exactly that list; is_lc_equivalent(adj(g1), adj(g2)) in this order.
    str_to_op [F: 6 names], state_converter_circuit [trace, validate=False]: one operation per gate of lc_check's list, in order.
    linalg._row_red_one_step / row_reduction (contracts/row_reduction.py): X and the companion matrix are transformed in lockstep by
      row_swap / add_rows only (same rows, add_rows source != target) - the null space / row space is preserved step by step.
"""''')
edit("props/C09.py", '''    from contracts import lc_rmatrix as RMX

    d = run_tasks(L.tasks() + GL.tasks() + RMX.tasks())
''', '''    from contracts import lc_rmatrix as RMX
    from contracts import lc_gate_lists as LGL, row_reduction as RRM
    from lemmas import gateseq_checks

    d = run_tasks(L.tasks() + GL.tasks() + RMX.tasks() + LGL.tasks() + RRM.tasks())
    gateseq_checks.attach(d, seed)
''')
edit("props/C09.py", '''    can = run_tasks(L.canary_tasks() + GL.canary_tasks())
''', '''    can = run_tasks(L.canary_tasks() + GL.canary_tasks() + LGL.canary_tasks() + RRM.canary_tasks()[1:])
''')
edit("props/C09.py", '''        "_random_checker, _col_finder, lc_graph_operations and helpers, local_cliff_equi_check.py",
''', '''        "_random_checker, _col_finder, lc_graph_operations and helpers; local_cliff_equi_check.py: only the gate-list ASSEMBLY is [P] "
        "(contracts/lc_gate_lists.py), that the gates map state 1 onto state 2 is bounded",
''')
edit("props/C09.py", '''    d.assumptions += [
        "_R_matrix: adjacency''', '''    d.trusted_base += LGL.TRUSTED + RRM.TRUSTED
    d.assumptions += [
        "_R_matrix: adjacency''')

# ---- pyvc/models.py: enumerate(<abstract sequence of a contract module>) via hook
edit("pyvc/models.py", '''    def b_enumerate(i, x, start=0):
        if isinstance(x, NDArr) and x.ndim == 1 and concrete_int(x.shape[0]) is None:
''', '''    def b_enumerate(i, x, start=0):
        h = i.hooks.get("enumerate")  # abstract sequences of a contract module (iterable of that module's own loop rule)
        if h:
            r = h(i, x, start)
            if r is not None:
                return r
        if isinstance(x, NDArr) and x.ndim == 1 and concrete_int(x.shape[0]) is None:
''')

# ---- pyvc/README.md: one bullet for the new engine module (additive)
edit("pyvc/README.md", '''  - `lemmas/model_checks.py`: differential self-test of these [A] models against numpy/networkx (checker error on mismatch).
''', '''  - `lemmas/model_checks.py`: differential self-test of these [A] models against numpy/networkx (checker error on mismatch).
* gate lists of symbolic length (C08 state_to_graph / _phase_correction, C09 lc_check / converter_gate_list; `pyvc/gateseq.py`,
  worked examples `contracts/lc_gate_lists.py`, `contracts/graph_finder.py`, `contracts/row_reduction.py`):
  - `GateSeq` / `PosSeq` (engine values, extensional like `SymList`: length + name(k) + qubit(k)); hooks for `+`, `[::-1]`, `append`,
    `extend`, `reverse`, truthiness, `len`, `[(name, p) for p in positions]`; `list.sort` / `sorted` = an UNSPECIFIED re-ordering
    (an order contract fails across it with a counter-model); Python-level iteration is `Undecided`, never silently right.
  - MAP rule `gateseq.loop_hook` (`for g in gates: out.append(F(g))`: the body is run for an arbitrary element and EVERY one of
    the six gate names, one append per element, no other effect; induction over the length), FOREACH / FLAT-MAP variants living
    with their contracts (`lc_gate_lists.gate_foreach_hook`, `word_loop_hook`), filtering comprehensions over `enumerate(L)` /
    `range(a, b)` of symbolic length by the filter theory (`graph_finder.enumerate_filter_hook`, `row_reduction.range_filter_hook`).
  - paired-operation traces (`row_reduction.check_pairs`): X and Z are written only by the same row operation with the same rows.
  - `lemmas/gateseq_checks.py`: differential self-test of the list models against Python lists (checker error on mismatch).
''')


# ---- props/C08.findings.md: the deductive face of the recorded finding C08-F3 (append)
def append(path, marker, text):
    p = f"{ROOT}/{path}"
    s = open(p).read()
    if marker in s:
        print("already applied:", path, marker)
        return
    open(p, "w").write(s.rstrip("\n") + "\n" + text)
    print("appended", path)


append("props/C08.findings.md", "## D08-4", '''
## D08-4  `_position_finder` never chooses column 0  (= bounded finding C08-F3, located at the function; known finding, not repaired)

* obligation ([F], exact, complete finite domain - contracts/graph_finder.py `position_finder_obligations`):
  `_position_finder[echelon forms n<=3, column 0 is NOT a pivot column]:returns-exactly-the-non-pivot-columns` - refuted for 9 of 9
  echelon forms of that class; the sibling obligation for the class "column 0 is a pivot column" is discharged for all 29 forms.
* contract: the Hadamard positions are exactly the columns of the row-reduced X part that carry no pivot (then the X part of an
  independent generating set becomes invertible - the construction `_graph_finder` relies on).
* smallest input: `_position_finder(np.array([[0]]))` -> `[]`, expected `[0]`; two qubits: `[[0, 1], [0, 0]]` -> `[]`, expected `[0]`.
* consequence (bounded C08-F3): `state_to_graph` raises "Stabilizer generators are not independent." for every state whose qubit 0 is in a
  computational-basis state.  Smallest repair: see bounded/C08.findings.md C08-F3.

```json
{"property": "C08", "id": "C08-F3",
 "symptom": "_position_finder walks from pivot [0,0] and never considers column 0: for an echelon form whose column 0 carries no pivot the returned Hadamard positions miss column 0",
 "obligations": ["_position_finder[echelon forms n<=3, column 0 is NOT a pivot column]:returns-exactly-the-non-pivot-columns"]}
```
''')
