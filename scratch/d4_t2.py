import sys, time
sys.path.insert(0, "/verif")
from contracts import metrics as M
from pyvc.driver import run_tasks
from scratch.d4_run import show
t0=time.time()
only = sys.argv[1].split(",") if len(sys.argv) > 1 and sys.argv[1] != "all" else None
d = run_tasks(M.count_tasks(only))
show(d, verbose=len(sys.argv) > 2)
print("wall", time.time()-t0)
