#!/bin/bash
# Offline bootstrap of the overlay interpreter used by every check:
#   /verif/.venv = /venv's python 3.12 + a .pth to /venv's site-packages (numpy, scipy,
#   networkx ... exactly what graphiq's test-suite uses) + z3-solver, cvc5, jsonschema,
#   deal, icontract from the offline wheelhouse.  Idempotent.
set -e
cd "$(dirname "$0")"
export PIP_NO_INDEX=1 PIP_DISABLE_PIP_VERSION_CHECK=1
WH=/opt/veriftools/wheels
if [ ! -x .venv/bin/python ] || ! .venv/bin/python -c "import z3, jsonschema, numpy, networkx" 2>/dev/null; then
  rm -rf .venv
  /venv/bin/python -m venv .venv
  SP=$(.venv/bin/python -c "import sysconfig; print(sysconfig.get_paths()['purelib'])")
  echo "import site; site.addsitedir('/venv/lib/python3.12/site-packages')" > "$SP/_graphiq_venv_overlay.pth"
  .venv/bin/python -m pip install -q --no-index --find-links "$WH" z3-solver jsonschema deal icontract >/dev/null
  .venv/bin/python -m pip install -q --no-index --find-links "$WH" cvc5 >/dev/null 2>&1 || echo "setup: cvc5 wheel not installed (optional second solver; /usr/bin/cvc5 CLI is used instead)"
fi
.venv/bin/python - <<'PY'
import z3, jsonschema, numpy, networkx, scipy
print("setup ok: z3", z3.get_version_string(), "numpy", numpy.__version__, "networkx", networkx.__version__)
PY
