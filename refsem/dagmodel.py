"""Independent "wire" model of a circuit under edits (executable specification for C12; imports nothing from graphiq).

A circuit is, per register key ("e0", "p1", "c0", ...), the ordered list of operation ids on that register's wire.
Operation descriptors (JSON-able):
    ["g",  cls, [t,i]]                 one-qubit gate, cls in I,H,P,PD,X,Y,Z
    ["w",  [cls,...], [t,i]]           one-qubit wrapper: matrix product cls1*cls2*... (LAST listed acts first)
    ["cx", [t,i], [t,i]]  ["cz", ...]  control, target
    ["ccx", ctrl, tgt, c] ["ccz", ...] ["mcr", ...]   classical-controlled pairs writing classical register c
    ["mz", [t,i], c]                   Z measurement into classical register c

The view updates are the ones of DESIGN.md section 5 C12:
    add(op)            op appended at the end of each of its wires (quantum and classical)
    insert(op, pos)    op inserted at index pos[j] of the wire of its j-th quantum register (classical wire untouched)
    remove(u)          u deleted from each of its wires
    replace(u, op)     descriptor swapped
    unwrap()           every wrapper replaced, in place, by its gates in application order
    remove_identity()  every identity gate deleted
    group()            every maximal run of consecutive one-qubit *gates* (plain or wrapper) on a quantum wire replaced by
                       one wrapper whose list is the concatenation of the run's lists, latest first
"""
from __future__ import annotations

ONE_Q = ("g", "w")
TWO_Q = ("cx", "cz", "ccx", "ccz", "mcr")


def key(r):
    return f"{r[0]}{r[1]}"


def qregs(d):
    k = d[0]
    if k in ("g", "w"):
        return [tuple(d[2])]
    if k == "mz":
        return [tuple(d[1])]
    return [tuple(d[1]), tuple(d[2])]


def cregs(d):
    k = d[0]
    if k == "mz":
        return [d[2]]
    if k in ("ccx", "ccz", "mcr"):
        return [d[3]]
    return []


def norm(d):
    """canonical hashable form of a descriptor"""
    k = d[0]
    if k == "g":
        return ("g", d[1], tuple(d[2]))
    if k == "w":
        return ("w", tuple(d[1]), tuple(d[2]))
    if k in ("cx", "cz"):
        return (k, tuple(d[1]), tuple(d[2]))
    if k in ("ccx", "ccz", "mcr"):
        return (k, tuple(d[1]), tuple(d[2]), d[3])
    if k == "mz":
        return ("mz", tuple(d[1]), d[2])
    raise ValueError(d)


class RegisterError(Exception):
    """the edit names a register that is neither present nor the next free index"""


class WireModel:
    def __init__(self, n_e=0, n_p=0, n_c=0):
        self.n = {"e": 0, "p": 0, "c": 0}
        self.wires = {}
        self.ops = {}
        self.cwired = {}  # uid -> set of classical keys the op sits on
        self._next = 0
        self._ever_one = False  # has an op carrying the "one-qubit" label ever been placed (bookkeeping for C12 domains)
        for t, m in (("e", n_e), ("p", n_p), ("c", n_c)):
            for _ in range(m):
                self.add_register(t)

    def copy(self):
        o = WireModel.__new__(WireModel)
        o.n = dict(self.n)
        o.wires = {k: list(w) for k, w in self.wires.items()}
        o.ops = dict(self.ops)
        o.cwired = {u: set(s) for u, s in self.cwired.items()}
        o._next = self._next
        o._ever_one = self._ever_one
        return o

    # ------------------------------------------------------------------ registers
    def add_register(self, t):
        self.wires[f"{t}{self.n[t]}"] = []
        self.n[t] += 1

    def registers_needed(self, d):
        """register counts after the edit's implicit register creation; RegisterError if numbering not continuous"""
        n = dict(self.n)
        need = [("c", c) for c in cregs(d)] + [(t, i) for (t, i) in qregs(d)]
        # registers may be created in any order; continuity is judged on the final counts
        for t in "epc":
            idx = sorted(i for (tt, i) in need if tt == t)
            for i in idx:
                if i == n[t]:
                    n[t] += 1
                elif i > n[t]:
                    raise RegisterError((t, i, n[t]))
        return n

    def _ensure(self, d):
        n = self.registers_needed(d)
        for t in "epc":
            while self.n[t] < n[t]:
                self.add_register(t)

    def _uid(self):
        self._next += 1
        return self._next

    # ------------------------------------------------------------------ edits
    def add(self, d):
        self._ensure(d)
        u = self._uid()
        self.ops[u] = d
        self.cwired[u] = set()
        for r in qregs(d):
            self.wires[key(r)].append(u)
        for c in cregs(d):
            self.wires[f"c{c}"].append(u)
            self.cwired[u].add(f"c{c}")
        return u

    def insert(self, d, pos):
        self._ensure(d)
        u = self._uid()
        self.ops[u] = d
        self.cwired[u] = set()
        for r, p in zip(qregs(d), pos):
            w = self.wires[key(r)]
            assert 0 <= p <= len(w)
            w.insert(p, u)
        return u

    def remove(self, u):
        for w in self.wires.values():
            if u in w:
                w.remove(u)
        del self.ops[u]
        del self.cwired[u]

    def replace(self, u, d):
        assert [tuple(r) for r in qregs(d)] == [tuple(r) for r in qregs(self.ops[u])] and cregs(d) == cregs(self.ops[u])
        self.ops[u] = d

    def unwrap(self):
        for u in [u for u, d in self.ops.items() if d[0] == "w"]:
            d = self.ops[u]
            w = self.wires[key(d[2])]
            i = w.index(u)
            new = []
            for cls in reversed(d[1]):  # last listed acts first
                v = self._uid()
                self.ops[v] = ["g", cls, list(d[2])]
                self.cwired[v] = set()
                new.append(v)
            w[i : i + 1] = new
            del self.ops[u]
            del self.cwired[u]

    def remove_identity(self):
        for u in [u for u, d in self.ops.items() if d[0] == "g" and d[1] == "I"]:
            self.remove(u)

    def group(self):
        for k, w in self.wires.items():
            if k[0] == "c":
                continue
            out = []
            run = []
            def flush():
                if run:
                    lst = []
                    for u in reversed(run):  # latest first
                        d = self.ops[u]
                        lst += [d[1]] if d[0] == "g" else list(d[1])
                        del self.ops[u]
                        del self.cwired[u]
                    v = self._uid()
                    self.ops[v] = ["w", lst, [k[0], int(k[1:])]]
                    self.cwired[v] = set()
                    out.append(v)
                    run.clear()
            for u in w:
                if self.ops[u][0] in ONE_Q:
                    run.append(u)
                else:
                    flush()
                    out.append(u)
            flush()
            w[:] = out

    # ------------------------------------------------------------------ queries
    def op_ids(self):
        return sorted(self.ops)

    def successors(self):
        succ = {u: set() for u in self.ops}
        for w in self.wires.values():
            for a, b in zip(w, w[1:]):
                succ[a].add(b)
        return succ

    def reaches(self, src, dst):
        """is there a path (length >= 0) from op src to op dst along the wires"""
        succ = self.successors()
        seen = {src}
        todo = [src]
        while todo:
            u = todo.pop()
            if u == dst:
                return True
            for v in succ[u]:
                if v not in seen:
                    seen.add(v)
                    todo.append(v)
        return False

    def insert_would_cycle(self, d, pos):
        """would inserting the two-qubit op d at pos create a cycle? (textbook criterion: some op after the first
        position reaches an op before the second position, or the other way round)"""
        (r0, r1) = qregs(d)
        w0, w1 = self.wires[key(r0)], self.wires[key(r1)]
        before0, after0 = w0[: pos[0]], w0[pos[0] :]
        before1, after1 = w1[: pos[1]], w1[pos[1] :]
        # new node n: last(before0)->n->first(after0), last(before1)->n->first(after1)
        for a in after0[:1]:
            for b in before1[-1:]:
                if self.reaches(a, b):
                    return True
        for a in after1[:1]:
            for b in before0[-1:]:
                if self.reaches(a, b):
                    return True
        return False

    def linear_order(self):
        """a linear extension of the wire orders (list of uids); None if cyclic"""
        succ = self.successors()
        indeg = {u: 0 for u in self.ops}
        for u, vs in succ.items():
            for v in vs:
                indeg[v] += 1
        ready = sorted(u for u, k in indeg.items() if k == 0)
        out = []
        while ready:
            u = ready.pop(0)
            out.append(u)
            for v in sorted(succ[u]):
                indeg[v] -= 1
                if indeg[v] == 0:
                    ready.append(v)
        return out if len(out) == len(self.ops) else None
