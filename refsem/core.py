"""Independent reference semantics ("textbook"), used ONLY as executable specification by bounded stand-ins and by
replays of solver counter-models.  Nothing here imports graphiq.

Conventions (taken from the property statements, not from graphiq's code):
  * qubit order: photons 0..n_p-1 first, then emitters n_p..n_p+n_e-1; qubit 0 is the most significant tensor factor
  * H, P=diag(1,i), Pdag, X, Y, Z, CNOT, CZ are the textbook matrices
  * a one-qubit wrapper [g1,...,gk] denotes the matrix product g1*g2*...*gk (the LAST listed gate acts first)
  * tableau row (x|z|r) denotes (-1)^r * prod_j sigma(x_j,z_j) with sigma(1,1)=Y
"""
from __future__ import annotations

import itertools
import numpy as np

SQ = 1 / np.sqrt(2)
I2 = np.eye(2, dtype=complex)
X = np.array([[0, 1], [1, 0]], dtype=complex)
Y = np.array([[0, -1j], [1j, 0]], dtype=complex)
Z = np.array([[1, 0], [0, -1]], dtype=complex)
H = np.array([[SQ, SQ], [SQ, -SQ]], dtype=complex)
P = np.array([[1, 0], [0, 1j]], dtype=complex)
PD = np.array([[1, 0], [0, -1j]], dtype=complex)
GATES1 = {"I": I2, "H": H, "P": P, "PD": PD, "X": X, "Y": Y, "Z": Z}
# graphiq class name -> textbook gate name
CLASS1 = {"Identity": "I", "Hadamard": "H", "Phase": "P", "PhaseDagger": "PD", "SigmaX": "X", "SigmaY": "Y", "SigmaZ": "Z"}


# ------------------------------------------------------------------ state vectors
def ket0(n):
    v = np.zeros(2**n, dtype=complex)
    v[0] = 1
    return v


def apply1(v, n, q, U):
    t = v.reshape([2] * n)
    t = np.tensordot(U, t, axes=([1], [q]))
    t = np.moveaxis(t, 0, q)
    return t.reshape(-1)


def apply_ctrl(v, n, c, t, U):
    """apply U on t where qubit c is |1>"""
    psi = v.reshape([2] * n).copy()
    idx = [slice(None)] * n
    idx[c] = 1
    sub = psi[tuple(idx)]
    tt = t if t < c else t - 1
    sub = np.moveaxis(np.tensordot(U, sub, axes=([1], [tt])), 0, tt)
    psi[tuple(idx)] = sub
    return psi.reshape(-1)


def prob1(v, n, q):
    t = v.reshape([2] * n)
    idx = [slice(None)] * n
    idx[q] = 1
    return float(np.sum(np.abs(t[tuple(idx)]) ** 2))


def project(v, n, q, o):
    t = v.reshape([2] * n).copy()
    idx = [slice(None)] * n
    idx[q] = 1 - o
    t[tuple(idx)] = 0
    w = t.reshape(-1)
    nrm = np.linalg.norm(w)
    return w / nrm if nrm > 1e-12 else w


def same_state(v, w, tol=1e-7):
    """equal up to global phase (both normalised)"""
    return abs(abs(np.vdot(v, w)) - 1) < tol


def dm(v):
    return np.outer(v, np.conj(v))


def reduced_dm(v, n, keep):
    """textbook partial trace of |v><v| keeping the (sorted) qubits in keep"""
    keep = sorted(keep)
    t = v.reshape([2] * n)
    rest = [q for q in range(n) if q not in keep]
    t = np.transpose(t, keep + rest).reshape(2 ** len(keep), -1)
    return t @ np.conj(t.T)


def partial_trace_dm(rho, n, keep):
    keep = sorted(keep)
    t = rho.reshape([2] * (2 * n))
    rest = [q for q in range(n) if q not in keep]
    perm = keep + rest + [n + q for q in keep] + [n + q for q in rest]
    t = np.transpose(t, perm).reshape(2 ** len(keep), 2 ** len(rest), 2 ** len(keep), 2 ** len(rest))
    return np.einsum("ajbj->ab", t)


# ------------------------------------------------------------------ circuits (abstract op tuples)
# op tuples:  ("g", name, q) one-qubit gate;  ("w", [names], q) wrapper;  ("cx", c, t); ("cz", c, t)
#             ("ccx", c, t, creg) classical CNOT: measure c, X on t iff 1;  ("ccz", c, t, creg)
#             ("mz", q, creg);  ("mcr", c, t, creg) measure c, X on t iff 1, reset c to |0>

def wrapper_matrix(names):
    M = I2
    for g in names:
        M = M @ GATES1[g]
    return M


def run_ops(n, ops, outcomes=None, v0=None, force=None):
    """Run abstract ops on |0..0> (or v0).  Measurement outcomes:
       `outcomes` - iterator/list consumed in order of measuring ops (the outcomes 'actually drawn');
       `force`    - 0/1: graphiq's forced determinism: take `force` whenever it has non-zero probability.
    Returns (state vector, list of outcomes, creg dict) or None if a prescribed outcome has probability 0."""
    v = ket0(n) if v0 is None else v0.astype(complex)
    outs = []
    cregs = {}
    it = iter(outcomes) if outcomes is not None else None
    for op in ops:
        k = op[0]
        if k == "g":
            v = apply1(v, n, op[2], GATES1[op[1]])
        elif k == "w":
            v = apply1(v, n, op[2], wrapper_matrix(op[1]))
        elif k == "cx":
            v = apply_ctrl(v, n, op[1], op[2], X)
        elif k == "cz":
            v = apply_ctrl(v, n, op[1], op[2], Z)
        elif k in ("ccx", "ccz", "mz", "mcr"):
            q = op[1]
            p1 = prob1(v, n, q)
            if it is not None:
                o = next(it)
                if (o == 1 and p1 < 1e-9) or (o == 0 and p1 > 1 - 1e-9):
                    return None
            elif force is not None:
                o = force
                if o == 1 and p1 < 1e-9:
                    o = 0
                elif o == 0 and p1 > 1 - 1e-9:
                    o = 1
            else:
                raise ValueError("no outcome rule")
            v = project(v, n, q, o)
            outs.append(o)
            if k == "mz":
                cregs[op[2]] = o
            else:
                cregs[op[3]] = o
                if o == 1:
                    v = apply1(v, n, op[2], X if k in ("ccx", "mcr") else Z)
                if k == "mcr" and o == 1:
                    v = apply1(v, n, q, X)  # reset: measured |1> -> |0>
        else:
            raise ValueError(op)
    return v, outs, cregs


def measuring(ops):
    return [op for op in ops if op[0] in ("ccx", "ccz", "mz", "mcr")]


def graphiq_ops(circuit):
    """Abstract op tuples of a graphiq CircuitDAG in the order of circuit.sequence() (any topological order is
    equivalent: unordered nodes act on disjoint registers).  Reads only public attributes of the op objects."""
    n_p = circuit.n_photons
    def qi(reg, typ):
        return reg if typ == "p" else n_p + reg
    out = []
    for op in circuit.sequence():
        nm = type(op).__name__
        if nm in ("Input", "Output"):
            continue
        if nm in CLASS1:
            out.append(("g", CLASS1[nm], qi(op.register, op.reg_type)))
        elif nm == "OneQubitGateWrapper":
            out.append(("w", [CLASS1[g.__name__] for g in op.operations], qi(op.register, op.reg_type)))
        elif nm == "CNOT":
            out.append(("cx", qi(op.control, op.control_type), qi(op.target, op.target_type)))
        elif nm == "CZ":
            out.append(("cz", qi(op.control, op.control_type), qi(op.target, op.target_type)))
        elif nm == "ClassicalCNOT":
            out.append(("ccx", qi(op.control, op.control_type), qi(op.target, op.target_type), op.c_register))
        elif nm == "ClassicalCZ":
            out.append(("ccz", qi(op.control, op.control_type), qi(op.target, op.target_type), op.c_register))
        elif nm == "MeasurementCNOTandReset":
            out.append(("mcr", qi(op.control, op.control_type), qi(op.target, op.target_type), op.c_register))
        elif nm == "MeasurementZ":
            out.append(("mz", qi(op.register, op.reg_type), op.c_register))
        else:
            raise ValueError(f"refsem: unsupported op {nm}")
    return out


# ------------------------------------------------------------------ Paulis / stabilizer states
_S = {(0, 0): I2, (1, 0): X, (1, 1): Y, (0, 1): Z}


def pauli(xs, zs, r=0):
    M = np.array([[1]], dtype=complex)
    for a, b in zip(xs, zs):
        M = np.kron(M, _S[(int(a), int(b))])
    return (-1) ** int(r) * M


def stabilizer_projector(xm, zm, r):
    n = len(xm)
    Pj = np.eye(2**n, dtype=complex)
    for i in range(n):
        Pj = Pj @ (np.eye(2**n) + pauli(xm[i], zm[i], r[i])) / 2
    return Pj


def stabilizer_state(xm, zm, r):
    """state vector stabilised by the n signed generators, or None if they are dependent/inconsistent"""
    Pj = stabilizer_projector(xm, zm, r)
    tr = np.real(np.trace(Pj))
    if abs(tr - 1) > 1e-6:
        return None
    w, V = np.linalg.eigh((Pj + Pj.conj().T) / 2)
    return V[:, -1]


def stabilizes(v, xs, zs, r):
    return np.allclose(pauli(xs, zs, r) @ v, v, atol=1e-7)


def sym_prod(x1, z1, x2, z2):
    return (int(np.dot(x1, z2)) + int(np.dot(z1, x2))) % 2


def gf2_rank(M):
    M = (np.array(M, dtype=int) % 2).copy()
    if M.size == 0:
        return 0
    r = 0
    rows, cols = M.shape
    for c in range(cols):
        piv = None
        for i in range(r, rows):
            if M[i, c]:
                piv = i
                break
        if piv is None:
            continue
        M[[r, piv]] = M[[piv, r]]
        for i in range(rows):
            if i != r and M[i, c]:
                M[i] ^= M[r]
        r += 1
        if r == rows:
            break
    return r


def clifford_valid(table, n):
    """binary, symplectic, destabilizer i paired with stabilizer i"""
    T = np.array(table)
    if T.shape != (2 * n, 2 * n) or not np.all((T == 0) | (T == 1)):
        return False
    for a in range(2 * n):
        for b in range(2 * n):
            want = 1 if abs(a - b) == n else 0
            if sym_prod(T[a, :n], T[a, n:], T[b, :n], T[b, n:]) != want:
                return False
    return True


def graph_state(adj):
    A = np.array(adj)
    n = len(A)
    v = np.ones(2**n, dtype=complex) / np.sqrt(2**n)
    for i in range(n):
        for j in range(i + 1, n):
            if A[i, j]:
                v = apply_ctrl(v, n, i, j, Z)
    return v


def entropy_cut(v, n, k):
    """entanglement entropy in bits between qubits 0..k and the rest (pure state)"""
    if k >= n - 1:
        return 0.0
    rho = reduced_dm(v, n, list(range(k + 1)))
    w = np.linalg.eigvalsh(rho)
    w = w[w > 1e-12]
    return float(-np.sum(w * np.log2(w)))


# ------------------------------------------------------------------ graphs
def all_graphs(n):
    """all labelled simple graphs on n vertices as adjacency matrices (2^(n(n-1)/2))"""
    pairs = list(itertools.combinations(range(n), 2))
    for bits in itertools.product([0, 1], repeat=len(pairs)):
        A = np.zeros((n, n), dtype=int)
        for b, (i, j) in zip(bits, pairs):
            if b:
                A[i, j] = A[j, i] = 1
        yield A


def local_complement(A, v):
    A = np.array(A, dtype=int).copy()
    nb = [u for u in range(len(A)) if A[v, u]]
    for a, b in itertools.combinations(nb, 2):
        A[a, b] ^= 1
        A[b, a] ^= 1
    return A


def lc_orbit(A):
    start = tuple(np.array(A, dtype=int).flatten())
    n = len(A)
    seen = {start}
    todo = [np.array(A, dtype=int)]
    while todo:
        B = todo.pop()
        for v in range(n):
            C = local_complement(B, v)
            k = tuple(C.flatten())
            if k not in seen:
                seen.add(k)
                todo.append(C)
    return seen


def is_connected(A):
    n = len(A)
    if n == 0:
        return True
    seen = {0}
    todo = [0]
    while todo:
        u = todo.pop()
        for w in range(n):
            if A[u][w] and w not in seen:
                seen.add(w)
                todo.append(w)
    return len(seen) == n


# ------------------------------------------------------------------ stabilizer-state enumeration (independent BFS)
def _conj1(x, z, r, q, g):
    x = list(x); z = list(z)
    if g == "H":
        r ^= x[q] & z[q]; x[q], z[q] = z[q], x[q]
    elif g == "P":
        r ^= x[q] & z[q]; z[q] ^= x[q]
    return tuple(x), tuple(z), r


def _conj_cx(x, z, r, c, t):
    x = list(x); z = list(z)
    r ^= x[c] & z[t] & (x[t] ^ z[c] ^ 1)
    x[t] ^= x[c]; z[c] ^= z[t]
    return tuple(x), tuple(z), r


def all_clifford_tableaux(n):
    """All Clifford tableaux on n qubits (rows = images of X_1..X_n, Z_1..Z_n with signs) by BFS over H,P,CNOT from
    the identity; n=1: 24, n=2: 11520.  The update rules here were checked against the matrices in selftest()."""
    start = tuple(
        [tuple([tuple(int(j == i) for j in range(n)), tuple([0] * n), 0]) for i in range(n)]
        + [tuple([tuple([0] * n), tuple(int(j == i) for j in range(n)), 0]) for i in range(n)]
    )
    gens = [("H", q) for q in range(n)] + [("P", q) for q in range(n)] + [("CX", c, t) for c in range(n) for t in range(n) if c != t]
    seen = {start}
    todo = [start]
    while todo:
        T = todo.pop()
        for g in gens:
            if g[0] == "CX":
                T2 = tuple(_conj_cx(x, z, r, g[1], g[2]) for (x, z, r) in T)
            else:
                T2 = tuple(_conj1(x, z, r, g[1], g[0]) for (x, z, r) in T)
            if T2 not in seen:
                seen.add(T2)
                todo.append(T2)
    return sorted(seen)


def tableau_arrays(T):
    n = len(T) // 2
    table = np.array([list(x) + list(z) for (x, z, r) in T], dtype=int)
    phase = np.array([r for (x, z, r) in T], dtype=int)
    return table, phase


def selftest():
    """the symplectic update rules used above agree with conjugation by the matrices (all 1- and 2-qubit Paulis)"""
    for g, U in (("H", H), ("P", P)):
        for x, z in itertools.product([0, 1], repeat=2):
            x2, z2, r2 = _conj1((x,), (z,), 0, 0, g)
            assert np.allclose(U @ pauli([x], [z]) @ U.conj().T, pauli(x2, z2, r2)), (g, x, z)
    CX = np.zeros((4, 4), dtype=complex); CX[0, 0] = CX[1, 1] = CX[2, 3] = CX[3, 2] = 1
    for bits in itertools.product([0, 1], repeat=4):
        x = bits[:2]; z = bits[2:]
        x2, z2, r2 = _conj_cx(x, z, 0, 0, 1)
        assert np.allclose(CX @ pauli(x, z) @ CX.conj().T, pauli(x2, z2, r2)), bits
    return True
