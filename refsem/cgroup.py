"""Independent helpers on stabilizer groups in the binary (x|z|r) picture (see refsem.core for the conventions:
row (x|z|r) = (-1)^r * prod_j sigma(x_j,z_j), sigma(1,1)=Y).  Imports nothing from graphiq.  (Used by bounded/C02-C04.)

  * pmul              signed product of two commuting Pauli rows (checked against the matrices in selftest())
  * regauge           another generating set of the same group: new_i = prod_j gens_j^{M[i][j]}, M invertible over GF(2)
  * lagrangians(n)    all maximal isotropic subspaces of GF(2)^{2n} (n=1: 3, n=2: 15, n=3: 135) as reduced bases;
                      with the 2^n sign choices these are all 6 / 60 / 1080 stabilizer states
  * gl2(n)            all invertible n x n matrices over GF(2) (1 / 6 / 168)  -> all ordered generating sets
  * cut_rank          entropy of a graph state across the cut {0..k} | {k+1..n-1} = GF(2) rank of the adjacency block
"""
from __future__ import annotations

import itertools

import numpy as np

from refsem import core as R


def pmul(a, b):
    """(x,z,r) * (x,z,r) for COMMUTING Hermitian Pauli rows -> (x,z,r).  sigma(x,z) = i^{x.z} X^x Z^z per qubit."""
    x1, z1, r1 = a
    x2, z2, r2 = b
    x1 = np.array(x1, dtype=int); z1 = np.array(z1, dtype=int)
    x2 = np.array(x2, dtype=int); z2 = np.array(z2, dtype=int)
    x3 = (x1 + x2) % 2
    z3 = (z1 + z2) % 2
    # i^{x1.z1} X^x1 Z^z1 * i^{x2.z2} X^x2 Z^z2 = i^{x1.z1+x2.z2} (-1)^{z1.x2} X^x3 Z^z3 ;  sigma3 = i^{x3.z3} X^x3 Z^z3
    e = (int(x1 @ z1) + int(x2 @ z2) - int(x3 @ z3) + 2 * int(z1 @ x2)) % 4
    if e not in (0, 2):
        raise ValueError("pmul: rows anticommute")
    return x3.tolist(), z3.tolist(), (int(r1) + int(r2) + e // 2) % 2


def regauge(xm, zm, r, M):
    """generating set new_i = prod_j (gens_j)^{M[i][j]} (product taken in increasing j)."""
    n = len(xm)
    out_x, out_z, out_r = [], [], []
    for i in range(n):
        cur = ([0] * n, [0] * n, 0)
        for j in range(n):
            if M[i][j]:
                cur = pmul(cur, (xm[j], zm[j], r[j]))
        out_x.append(list(cur[0])); out_z.append(list(cur[1])); out_r.append(cur[2])
    return out_x, out_z, out_r


def gl2(n):
    """all invertible n x n 0/1 matrices over GF(2)"""
    out = []
    for bits in itertools.product([0, 1], repeat=n * n):
        M = np.array(bits, dtype=int).reshape(n, n)
        if R.gf2_rank(M) == n:
            out.append(M.tolist())
    return out


def random_gl2(n, rng):
    while True:
        M = rng.integers(0, 2, size=(n, n))
        if R.gf2_rank(M) == n:
            return M.tolist()


def _rref_rows(rows):
    """reduced row echelon form over GF(2) of a list of 0/1 vectors -> tuple of tuples (canonical basis of the span)"""
    M = (np.array(rows, dtype=int) % 2).copy()
    r = 0
    nr, nc = M.shape
    for c in range(nc):
        piv = None
        for i in range(r, nr):
            if M[i, c]:
                piv = i
                break
        if piv is None:
            continue
        M[[r, piv]] = M[[piv, r]]
        for i in range(nr):
            if i != r and M[i, c]:
                M[i] ^= M[r]
        r += 1
        if r == nr:
            break
    return tuple(tuple(int(v) for v in row) for row in M[:r])


def lagrangians(n):
    """all maximal isotropic subspaces of GF(2)^{2n}: list of canonical bases, each basis = n vectors (x|z) of length 2n"""
    vecs = [v for v in itertools.product([0, 1], repeat=2 * n) if any(v)]

    def comm(a, b):
        return R.sym_prod(a[:n], a[n:], b[:n], b[n:]) == 0

    found = set()

    def rec(basis):
        if len(basis) == n:
            found.add(_rref_rows(basis))
            return
        for v in vecs:
            if basis and v <= basis[-1]:
                continue
            if all(comm(v, b) for b in basis) and R.gf2_rank(list(basis) + [v]) == len(basis) + 1:
                rec(basis + [v])

    rec([])
    return sorted(found)


def cut_rank(adj, k):
    """GF(2) rank of adj[0..k, k+1..n-1]"""
    A = np.array(adj, dtype=int)
    n = len(A)
    if k >= n - 1:
        return 0
    return R.gf2_rank(A[: k + 1, k + 1 :])


def graph_rows(adj):
    """the standard generating set of the graph state: K_i = X_i prod_{j~i} Z_j, all signs +"""
    A = np.array(adj, dtype=int)
    n = len(A)
    return np.eye(n, dtype=int).tolist(), A.tolist(), [0] * n


def selftest():
    # pmul against the matrices for all commuting pairs on 2 qubits with all signs
    for a in itertools.product([0, 1], repeat=4):
        for b in itertools.product([0, 1], repeat=4):
            if R.sym_prod(a[:2], a[2:], b[:2], b[2:]):
                continue
            for ra in (0, 1):
                for rb in (0, 1):
                    x, z, r = pmul((a[:2], a[2:], ra), (b[:2], b[2:], rb))
                    assert np.allclose(R.pauli(a[:2], a[2:], ra) @ R.pauli(b[:2], b[2:], rb), R.pauli(x, z, r)), (a, b)
    assert [len(lagrangians(n)) for n in (1, 2, 3)] == [3, 15, 135]
    assert [len(gl2(n)) for n in (1, 2, 3)] == [1, 6, 168]
    return True
