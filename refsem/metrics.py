"""Independent definitions of the circuit cost metrics of property C18 (imports nothing from graphiq).

A circuit is (n_e, n_p, n_c, ops) with `ops` a list of operation descriptors (format of refsem/dagmodel.py) in an order
in which they may be applied (any linear extension of the wire orders gives the same values).

Definitions (DESIGN.md section 5 C18 and the class docstrings of graphiq/metrics.py):
  * dependency: two operations depend on each other when they share a register.  `cw[i]` lists the classical registers
    operation i is *wired* to (default: all classical registers it names - the case of a circuit built with add()).
  * level(op)  = 1 + max level of the operations it depends on that come before it (1 if none)
  * depth      = max level (0 for a circuit without operations)          - operations counted as they stand
                 (a wrapper is one operation, an identity is an operation)
  * register depth of register r = level of the last operation on r (0 if none)
  * emitter count = n_e
  * emitter-emitter CNOT count = number of CNOT gates whose control and target are both emitters
  * "reduced" circuit = wrappers replaced by their gates (in application order), identity gates deleted
  * unitary count = number of H, P, Pdag, X, Y, Z, CNOT, CZ gates of the reduced circuit
  * measurement count (narrow) = number of measure-and-reset operations;  (wide) = + Z measurements + classically
    controlled gates
  * max emitter depth = max over emitters of the number of operations of the reduced circuit on that emitter
  * reset points of emitter e = [Input] + measure-and-reset operations on e's wire + [Output]
  * reset depth     = max over emitters, over consecutive reset points, of the difference of their positions on the wire
                      (Input has position 0, the k-th operation position k, Output position (number of operations)+1)
  * effective depth = the same with the position replaced by the node depth: Input -1, an operation level-1,
                      Output = (level of the last operation on the wire, 0 if none)
    both computed on the reduced circuit.
"""
from __future__ import annotations

from .dagmodel import qregs, cregs

UNITARY_1 = ("H", "P", "PD", "X", "Y", "Z")


def reduce_ops(ops, cw=None):
    """unwrap wrappers (last listed gate acts first) and delete identities; returns (ops, cw)"""
    out, ocw = [], []
    for i, d in enumerate(ops):
        w = None if cw is None else cw[i]
        if d[0] == "w":
            for g in reversed(d[1]):
                if g != "I":
                    out.append(["g", g, list(d[2])])
                    ocw.append(w)
        elif d[0] == "g" and d[1] == "I":
            continue
        else:
            out.append(d)
            ocw.append(w)
    return out, (None if cw is None else ocw)


def regs_of(d, wired=None):
    r = [(t, i) for (t, i) in qregs(d)]
    cs = cregs(d) if wired is None else [c for c in cregs(d) if c in wired]
    return r + [("c", c) for c in cs]


def levels(ops, cw=None):
    last = {}
    lv = []
    for i, d in enumerate(ops):
        rs = regs_of(d, None if cw is None else cw[i])
        l = 1 + max([last.get(r, 0) for r in rs], default=0)
        for r in rs:
            last[r] = l
        lv.append(l)
    return lv, last


def depth(ops, cw=None):
    lv, _ = levels(ops, cw)
    return max(lv, default=0)


def register_depth(ops, reg, cw=None):
    """reg = (type, index)"""
    _, last = levels(ops, cw)
    return last.get(tuple(reg), 0)


def emitter_count(n_e):
    return n_e


def ee_cnot_count(ops):
    return sum(1 for d in ops if d[0] == "cx" and d[1][0] == "e" and d[2][0] == "e")


def unitary_count(ops):
    red, _ = reduce_ops(ops)
    return sum(1 for d in red if (d[0] == "g" and d[1] in UNITARY_1) or d[0] in ("cx", "cz"))


def measure_count(ops, wide=False):
    kinds = ("mcr", "mz", "ccx", "ccz") if wide else ("mcr",)
    return sum(1 for d in ops if d[0] in kinds)


def _emitter_wire(red, e):
    return [i for i, d in enumerate(red) if ("e", e) in [tuple(q) for q in qregs(d)]]


def max_emitter_depth(n_e, ops):
    """None when there is no emitter (the maximum over nothing is undefined)"""
    if n_e == 0:
        return None
    red, _ = reduce_ops(ops)
    return max(len(_emitter_wire(red, e)) for e in range(n_e))


def reset_depth(n_e, ops):
    if n_e == 0:
        return None
    red, _ = reduce_ops(ops)
    best = None
    for e in range(n_e):
        wire = _emitter_wire(red, e)
        pts = [0] + [k + 1 for k, i in enumerate(wire) if red[i][0] == "mcr"] + [len(wire) + 1]
        gap = max(b - a for a, b in zip(pts, pts[1:]))
        best = gap if best is None else max(best, gap)
    return best


def effective_depth(n_e, ops, cw=None):
    if n_e == 0:
        return None
    red, rcw = reduce_ops(ops, cw)
    lv, _ = levels(red, rcw)
    best = None
    for e in range(n_e):
        wire = _emitter_wire(red, e)
        out_d = lv[wire[-1]] if wire else 0
        pts = [-1] + [lv[i] - 1 for i in wire if red[i][0] == "mcr"] + [out_d]
        gap = max(b - a for a, b in zip(pts, pts[1:]))
        best = gap if best is None else max(best, gap)
    return best


def mcr_targets_emitter(ops):
    """a measure-and-reset whose *target* is an emitter sits on that emitter's wire without resetting it; the two readings
    of 'reset point' (any measure-and-reset on the wire / a reset of this emitter) then differ"""
    return any(d[0] == "mcr" and d[2][0] == "e" for d in ops)
