"""GF(2) cut ranks of graphs by bit-matrix elimination (rows are Python ints) - oracle for the height function of graph
states, written independently of refsem.core.gf2_rank / refsem.cgroup.cut_rank (which work on numpy arrays) and of graphiq.

Also: the structural families of labelled graphs used to choose fixed inputs (the rank over the REALS of a cut block is
computed here only to SELECT graphs on which a wrong field would show; it is never used as an expected value).
"""
from __future__ import annotations

import itertools

import numpy as np


def gf2_rank_bits(rows):
    """rank over GF(2) of the matrix whose rows are the bit patterns `rows` (ints)"""
    rows = [int(r) for r in rows]
    rank = 0
    while rows:
        p = rows.pop()
        if p:
            rank += 1
            low = p & -p
            rows = [r ^ p if r & low else r for r in rows]
    return rank


def cut_rank_profile(adj):
    """[GF(2) rank of adj[0..k, k+1..n-1] for k = 0..n-1]  (= height function of the graph state, vertex i = qubit i)"""
    A = [[int(v) % 2 for v in row] for row in adj]
    n = len(A)
    prof = []
    for k in range(n):
        rows = []
        for i in range(k + 1):
            bits = 0
            for j in range(k + 1, n):
                if A[i][j]:
                    bits |= 1 << (j - k - 1)
            rows.append(bits)
        prof.append(gf2_rank_bits(rows))
    return prof


def real_rank_profile(adj):
    """rank over the reals of the same blocks - ONLY for selecting inputs (see module docstring)"""
    A = np.array(adj, dtype=float)
    n = len(A)
    return [int(np.linalg.matrix_rank(A[: k + 1, k + 1 :])) if k < n - 1 else 0 for k in range(n)]


def field_sensitive(adj):
    """the real-rank profile of the cut blocks differs from the GF(2) profile"""
    return real_rank_profile(adj) != cut_rank_profile(adj)


def adj_from_index(n, idx):
    """labelled graph number idx (bit b of idx = b-th pair of itertools.combinations(range(n), 2))"""
    A = [[0] * n for _ in range(n)]
    for b, (i, j) in enumerate(itertools.combinations(range(n), 2)):
        if idx >> b & 1:
            A[i][j] = A[j][i] = 1
    return A


def relabel(adj, perm):
    """vertex i of adj becomes vertex perm[i]"""
    n = len(adj)
    B = [[0] * n for _ in range(n)]
    for i in range(n):
        for j in range(n):
            if adj[i][j]:
                B[perm[i]][perm[j]] = 1
    return B


def _det3(B):
    return (B[0][0] * (B[1][1] * B[2][2] - B[1][2] * B[2][1]) - B[0][1] * (B[1][0] * B[2][2] - B[1][2] * B[2][0])
            + B[0][2] * (B[1][0] * B[2][1] - B[1][1] * B[2][0]))


def field_sensitive_graphs6():
    """ALL labelled graphs on 6 vertices whose cut-rank profile over the reals differs from the one over GF(2) (384: the
    3x3 block joining {0,1,2} and {3,4,5} is one of the 6 matrices of determinant +-2, any edges inside the two halves;
    blocks with a side of length <= 2 have equal ranks over both fields).  selftest() compares with field_sensitive()."""
    out = []
    for i in range(2 ** 15):
        A = adj_from_index(6, i)
        if abs(_det3([row[3:] for row in A[:3]])) == 2:
            out.append(A)
    return out


def all_labellings(adj):
    """all distinct labelled copies of the graph (adjacency lists), in lexicographic order of the permutation"""
    n = len(adj)
    seen, out = set(), []
    for perm in itertools.permutations(range(n)):
        B = relabel(adj, perm)
        key = tuple(map(tuple, B))
        if key not in seen:
            seen.add(key)
            out.append(B)
    return out


def cycle(n):
    A = [[0] * n for _ in range(n)]
    for i in range(n):
        A[i][(i + 1) % n] = A[(i + 1) % n][i] = 1
    return A


def complete_bipartite(a, b):
    n = a + b
    return [[1 if (i < a) != (j < a) else 0 for j in range(n)] for i in range(n)]


def complement(adj):
    n = len(adj)
    return [[0 if i == j else 1 - int(adj[i][j]) for j in range(n)] for i in range(n)]


def prism():
    """triangular prism K3 x K2 on 6 vertices"""
    A = [[0] * 6 for _ in range(6)]
    for a, b in [(0, 1), (1, 2), (0, 2), (3, 4), (4, 5), (3, 5), (0, 3), (1, 4), (2, 5)]:
        A[a][b] = A[b][a] = 1
    return A


def selftest():
    from refsem import cgroup as G
    from refsem import core as R

    rng = np.random.default_rng(5)
    for _ in range(300):
        n = int(rng.integers(1, 9))
        A = np.triu((rng.random((n, n)) < 0.5).astype(int), 1)
        A = A + A.T
        prof = cut_rank_profile(A.tolist())
        assert prof == [G.cut_rank(A, k) for k in range(n)]
        if n <= 6:
            v = R.graph_state(A)
            assert prof == [int(round(R.entropy_cut(v, n, k))) for k in range(n)]
    fam = field_sensitive_graphs6()
    assert len(fam) == 384
    assert fam == [A for A in (adj_from_index(6, i) for i in range(2 ** 15)) if field_sensitive(A)]
    ring = relabel(cycle(6), [0, 3, 1, 4, 2, 5])  # the 6-ring with its colour classes {0,1,2} | {3,4,5}
    assert ring in fam and cut_rank_profile(ring)[2] == 2 and real_rank_profile(ring)[2] == 3
    assert len(all_labellings(cycle(6))) == 60 and len(all_labellings(complete_bipartite(3, 3))) == 10
    return True


if __name__ == "__main__":
    print(selftest())
