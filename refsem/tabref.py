"""Independent stabilizer-formalism reference used by the bounded stand-ins of C05 / C07 / C11.
Imports nothing from graphiq.  Three layers:

  1. signed Pauli algebra (product table derived from the 2x2 matrices at import time),
  2. enumeration of stabilizer states / generating sets / destabilizer completions (small n),
  3. state-vector oracles for the tableau operations (insert / remove / swap / measure ...), and
     `RefTableau`, a plain Aaronson-Gottesman simulator (quant-ph/0406196) used only where state vectors are too
     large (n > 6); `selftest()` checks it against the state-vector layer.

Conventions are those of refsem.core: row (x|z|r) = (-1)^r prod_j sigma(x_j,z_j), sigma(1,1)=Y, qubit 0 is the most
significant tensor factor.
"""
from __future__ import annotations

import itertools

import numpy as np

from . import core

# ---------------------------------------------------------------------------------------------------------------
# 1. Pauli algebra.   code a = 2*x+z ;  sigma(a) sigma(b) = i^G[a,b] sigma(a xor b)
# ---------------------------------------------------------------------------------------------------------------


def _build_g():
    g = np.zeros((4, 4), dtype=int)
    for a in range(4):
        for b in range(4):
            A = core._S[(a >> 1, a & 1)]
            B = core._S[(b >> 1, b & 1)]
            C = core._S[((a >> 1) ^ (b >> 1), (a & 1) ^ (b & 1))]
            M = A @ B
            for k in range(4):
                if np.allclose(M, (1j) ** k * C):
                    g[a, b] = k
                    break
            else:  # pragma: no cover
                raise AssertionError("Pauli product table")
    return g


G = _build_g()


def pmul(x1, z1, k1, x2, z2, k2):
    """(i^k1 sigma(x1,z1)) * (i^k2 sigma(x2,z2)) = i^k sigma(x,z); x*, z* integer arrays, k mod 4"""
    x1 = np.asarray(x1, dtype=int)
    z1 = np.asarray(z1, dtype=int)
    x2 = np.asarray(x2, dtype=int)
    z2 = np.asarray(z2, dtype=int)
    k = (int(k1) + int(k2) + int(np.sum(G[2 * x1 + z1, 2 * x2 + z2]))) % 4
    return x1 ^ x2, z1 ^ z2, k


def valid_clifford(table, n):
    """vectorised version of core.clifford_valid: binary, T Omega T^t = Omega (destabilizer i paired with stabilizer i)"""
    T = np.asarray(table)
    if T.shape != (2 * n, 2 * n):
        return False
    if not np.all((T == 0) | (T == 1)):
        return False
    T = T.astype(np.float64)  # BLAS matmul; entries are bits so all sums are exact small integers
    X, Z = T[:, :n], T[:, n:]
    M = ((X @ Z.T + Z @ X.T) % 2).astype(np.int64)
    W = np.zeros((2 * n, 2 * n), dtype=np.int64)
    idx = np.arange(n)
    W[idx, idx + n] = 1
    W[idx + n, idx] = 1
    return bool(np.array_equal(M, W))


def valid_phase(phase, m):
    p = np.asarray(phase)
    return p.shape == (m,) and bool(np.all((p == 0) | (p == 1)))


def valid_stabilizer_rows(table, n):
    """n x 2n binary, mutually commuting, independent"""
    T = np.asarray(table)
    if T.shape != (n, 2 * n) or not np.all((T == 0) | (T == 1)):
        return False
    T = T.astype(np.int64)
    X, Z = T[:, :n], T[:, n:]
    if np.any((X @ Z.T + Z @ X.T) % 2):
        return False
    return core.gf2_rank(T) == n


def pauli_apply(v, n, xs, zs, r=0):
    """(-1)^r prod sigma(x_j,z_j) applied to the state vector v (no 2^n x 2^n matrix)"""
    xs = [int(a) for a in xs]
    zs = [int(a) for a in zs]
    xmask = 0
    zmask = 0
    ny = 0
    for j in range(n):
        if xs[j]:
            xmask |= 1 << (n - 1 - j)
        if zs[j]:
            zmask |= 1 << (n - 1 - j)
        if xs[j] and zs[j]:
            ny += 1
    b = np.arange(2**n)
    par = np.zeros(2**n, dtype=int)
    bz = b & zmask
    while np.any(bz):
        par ^= bz & 1
        bz >>= 1
    w = np.zeros(2**n, dtype=complex)
    w[b ^ xmask] = ((-1) ** par) * v[b]
    return ((-1) ** int(r)) * ((1j) ** ny) * w


def stabilized_by(v, n, xs, zs, r, tol=1e-7):
    return bool(np.allclose(pauli_apply(v, n, xs, zs, r), v, atol=tol))


def rows_describe(v, n, table_rows, phase, tol=1e-7):
    """None if every signed row stabilises v; else the index of the first row that does not"""
    for i, row in enumerate(table_rows):
        if not stabilized_by(v, n, row[:n], row[n:], phase[i], tol):
            return i
    return None


# ---------------------------------------------------------------------------------------------------------------
# 2. enumeration (small n; Paulis as (xtuple, ztuple, r))
# ---------------------------------------------------------------------------------------------------------------


_GL = G.tolist()


def _mul_t(a, b):
    """product of two commuting signed Paulis given as (xtuple, ztuple, r) (pure Python: the operands are tiny)"""
    k = 2 * (int(a[2]) + int(b[2]))
    x = []
    z = []
    for xa, za, xb, zb in zip(a[0], a[1], b[0], b[1]):
        k += _GL[2 * xa + za][2 * xb + zb]
        x.append(xa ^ xb)
        z.append(za ^ zb)
    assert k % 2 == 0, "product of commuting Hermitian Paulis must be Hermitian"
    return tuple(x), tuple(z), (k // 2) % 2


def group_elements(gens):
    """all 2^k elements of the group generated by the commuting signed Paulis `gens` (sorted tuple)"""
    n = len(gens[0][0])
    els = [((0,) * n, (0,) * n, 0)]
    for g in gens:
        g = (tuple(g[0]), tuple(g[1]), int(g[2]))
        els = els + [_mul_t(g, e) for e in els]
    return tuple(sorted(els))


def _conj_gen(g, gate):
    x, z, r = g
    if gate[0] == "CX":
        return core._conj_cx(x, z, r, gate[1], gate[2])
    return core._conj1(x, z, r, gate[1], gate[0])


def all_stabilizer_states(n):
    """every n-qubit stabilizer state (n<=3: 6, 60, 1080) as the sorted tuple of its 2^n signed group elements;
    BFS over H, P, CNOT from |0..0>; the key (full element list) is a canonical form that needs no row reduction."""
    start = [((0,) * n, tuple(int(j == i) for j in range(n)), 0) for i in range(n)]
    gates = [("H", q) for q in range(n)] + [("P", q) for q in range(n)] + [("CX", c, t) for c in range(n) for t in range(n) if c != t]
    k0 = group_elements(start)
    seen = {k0: start}
    todo = [start]
    while todo:
        gens = todo.pop()
        for gt in gates:
            g2 = [_conj_gen(g, gt) for g in gens]
            k = group_elements(g2)
            if k not in seen:
                seen[k] = g2
                todo.append(g2)
    return sorted(seen.keys())


def _bits(e):
    m = 0
    for b in tuple(e[0]) + tuple(e[1]):
        m = (m << 1) | int(b)
    return m


def _independent(masks):
    """GF(2) independence of integer bit-vectors (xor basis)"""
    basis = []
    for m in masks:
        for b in basis:
            m = min(m, m ^ b)
        if m == 0:
            return False
        basis.append(m)
    return True


def generating_sets(elements, n):
    """all ordered generating sets (n-tuples of independent elements) of the group given by its element list:
    n=1: 1, n=2: 6, n=3: 168"""
    non_id = [e for e in elements if any(e[0]) or any(e[1])]
    masks = {e: _bits(e) for e in non_id}
    out = []
    for tup in itertools.permutations(non_id, n):
        if _independent([masks[e] for e in tup]):
            out.append(list(tup))
    return out


def _gf2_solve(A, b):
    """one solution x of A x = b over GF(2) (A: m x k), or None"""
    A = (np.array(A, dtype=int) % 2).copy()
    b = (np.array(b, dtype=int) % 2).copy()
    m, k = A.shape
    piv = []
    r = 0
    for c in range(k):
        p = None
        for i in range(r, m):
            if A[i, c]:
                p = i
                break
        if p is None:
            continue
        A[[r, p]] = A[[p, r]]
        b[[r, p]] = b[[p, r]]
        for i in range(m):
            if i != r and A[i, c]:
                A[i] ^= A[r]
                b[i] ^= b[r]
        piv.append(c)
        r += 1
        if r == m:
            break
    if np.any(b[r:]):
        return None
    x = np.zeros(k, dtype=int)
    for i, c in enumerate(piv):
        x[c] = b[i]
    return x


_BASE = {}


def _base_destabilizers(S):
    """one destabilizer completion D of the stabilizer rows S (n x 2n): S Omega D^t = I, D Omega D^t = 0 (memoised)"""
    key = S.tobytes() + bytes([S.shape[0]])
    hit = _BASE.get(key)
    if hit is not None:
        return hit
    n = S.shape[0]
    SW = np.hstack([S[:, n:], S[:, :n]])  # S Omega
    D = np.zeros((n, 2 * n), dtype=int)
    for i in range(n):
        e = np.zeros(n, dtype=int)
        e[i] = 1
        sol = _gf2_solve(SW, e)
        assert sol is not None, "generators are dependent"
        D[i] = sol
    C = (D[:, :n] @ D[:, n:].T + D[:, n:] @ D[:, :n].T) % 2
    for i in range(n):
        for j in range(i):
            if C[i, j]:
                D[i] ^= S[j]
    if len(_BASE) > 50000:
        _BASE.clear()
    _BASE[key] = D
    return D


def complete_destabilizers(gens, variant=0):
    """destabilizer rows (x|z) and signs for the signed stabilizer generators `gens`, so that the 2n x 2n table is a valid
    Clifford tableau.  variant=0: one fixed completion; variant>0: a different completion drawn deterministically
    (destabilizer i multiplied by stabilizers through a symmetric GF(2) matrix, random destabilizer signs).
    Returns (table 2n x 2n list of lists, phase list of 2n)."""
    n = len(gens)
    S = np.array([list(g[0]) + list(g[1]) for g in gens], dtype=int)
    D = _base_destabilizers(S)
    dsign = np.zeros(n, dtype=int)
    if variant:
        rng = np.random.default_rng(1000003 * variant + n)
        M = rng.integers(0, 2, size=(n, n))
        M = np.triu(M)
        M = (M + M.T - np.diag(np.diag(M))) % 2  # symmetric, arbitrary diagonal
        D = (D + M @ S) % 2
        dsign = rng.integers(0, 2, size=n)
    table = np.vstack([D, S])
    assert valid_clifford(table, n)
    phase = [int(a) for a in dsign] + [int(g[2]) for g in gens]
    return table.tolist(), phase


def random_gens(n, rng, depth=None):
    """signed stabilizer generators of a random stabilizer state: random H/P/CNOT circuit on |0..0> followed by a random
    change of generating set (signed row products + permutation).  Returns list of (x,z,r)."""
    gens = [((0,) * n, tuple(int(j == i) for j in range(n)), 0) for i in range(n)]
    depth = depth if depth is not None else 6 * n + 6
    for _ in range(depth):
        k = int(rng.integers(0, 3 if n > 1 else 2))
        if k == 0:
            gt = ("H", int(rng.integers(0, n)))
        elif k == 1:
            gt = ("P", int(rng.integers(0, n)))
        else:
            c, t = (int(a) for a in rng.choice(n, size=2, replace=False))
            gt = ("CX", c, t)
        gens = [_conj_gen(g, gt) for g in gens]
    return regenerate(gens, rng)


def regenerate(gens, rng, moves=None):
    """another generating set of the same group: random signed row products and a random permutation"""
    gens = [(tuple(g[0]), tuple(g[1]), int(g[2])) for g in gens]
    n = len(gens)
    for _ in range(moves if moves is not None else 3 * n):
        if n < 2:
            break
        i, j = (int(a) for a in rng.choice(n, size=2, replace=False))
        gens[j] = _mul_t(gens[i], gens[j])
    perm = rng.permutation(n)
    return [gens[int(i)] for i in perm]


def gens_state(gens):
    return core.stabilizer_state([g[0] for g in gens], [g[1] for g in gens], [g[2] for g in gens])


def gens_json(gens):
    return [[list(map(int, g[0])), list(map(int, g[1])), int(g[2])] for g in gens]


# ---------------------------------------------------------------------------------------------------------------
# 3a. state-vector oracles for the tableau API
# ---------------------------------------------------------------------------------------------------------------


def sv_gate(v, n, name, qs):
    """textbook action of the named tableau operation"""
    if name == "I":
        return v
    if name in ("H", "P", "PD", "X", "Y", "Z"):
        return core.apply1(v, n, qs[0], core.GATES1[name])
    if name == "CX":
        return core.apply_ctrl(v, n, qs[0], qs[1], core.X)
    if name == "CZ":
        return core.apply_ctrl(v, n, qs[0], qs[1], core.Z)
    if name == "CY":
        return core.apply_ctrl(v, n, qs[0], qs[1], core.Y)
    if name == "SWAP":
        return sv_swap(v, n, qs[0], qs[1])
    raise ValueError(name)


def sv_swap(v, n, a, b):
    if a == b:
        return v
    return np.swapaxes(v.reshape([2] * n), a, b).reshape(-1)


def sv_insert0(v, n, pos):
    """|0> inserted as qubit `pos` of the new (n+1)-qubit register"""
    t = np.asarray(v).reshape([2] * n)
    t = np.expand_dims(t, pos)
    z = np.zeros_like(t)
    return np.concatenate([t, z], axis=pos).reshape(-1)


def sv_drop(v, n, q):
    """state of the other qubits when qubit q is in a product state with them; None if q is entangled"""
    t = np.moveaxis(v.reshape([2] * n), q, 0).reshape(2, -1)
    if np.linalg.matrix_rank(t, tol=1e-6) != 1:
        return None
    k = 0 if np.linalg.norm(t[0]) >= np.linalg.norm(t[1]) else 1
    w = t[k]
    return w / np.linalg.norm(w)


def sv_unentangled(v, n, q):
    t = np.moveaxis(v.reshape([2] * n), q, 0).reshape(2, -1)
    return np.linalg.matrix_rank(t, tol=1e-6) == 1


def sv_set_qubit(v, n, q, one_qubit_state):
    """replace the (unentangled) qubit q by the given one-qubit state"""
    rest = sv_drop(v, n, q)
    assert rest is not None
    t = np.tensordot(np.asarray(one_qubit_state, dtype=complex), rest.reshape([2] * (n - 1)), axes=0)
    return np.moveaxis(t, 0, q).reshape(-1)


EIG = {
    ("z", 0): np.array([1, 0], dtype=complex),
    ("z", 1): np.array([0, 1], dtype=complex),
    ("x", 0): np.array([1, 1], dtype=complex) / np.sqrt(2),
    ("x", 1): np.array([1, -1], dtype=complex) / np.sqrt(2),
    ("y", 0): np.array([1, 1j], dtype=complex) / np.sqrt(2),
    ("y", 1): np.array([1, -1j], dtype=complex) / np.sqrt(2),
}


def sv_measure_branches(v, n, q):
    """dict outcome -> post-measurement state, for the outcomes of non-zero probability"""
    p1 = core.prob1(v, n, q)
    out = {}
    if p1 < 1 - 1e-9:
        out[0] = core.project(v, n, q, 0)
    if p1 > 1e-9:
        out[1] = core.project(v, n, q, 1)
    return out


def sv_tensor(vs):
    out = np.array([1], dtype=complex)
    for v in vs:
        out = np.kron(out, v)
    return out


# ---------------------------------------------------------------------------------------------------------------
# 3b. RefTableau: Aaronson-Gottesman simulator written from the paper (used for n too large for state vectors)
# ---------------------------------------------------------------------------------------------------------------
class RefTableau:
    def __init__(self, n):
        self.n = n
        self.X = np.vstack([np.eye(n, dtype=int), np.zeros((n, n), dtype=int)])
        self.Z = np.vstack([np.zeros((n, n), dtype=int), np.eye(n, dtype=int)])
        self.R = np.zeros(2 * n, dtype=int)

    @classmethod
    def from_arrays(cls, table, phase):
        T = np.array(table, dtype=int)
        n = T.shape[0] // 2
        t = cls(n)
        t.X = T[:, :n].copy()
        t.Z = T[:, n:].copy()
        t.R = np.array(phase, dtype=int).copy()
        return t

    def copy(self):
        t = RefTableau(self.n)
        t.X, t.Z, t.R = self.X.copy(), self.Z.copy(), self.R.copy()
        return t

    # -- unitary gates (conjugation rules; checked against the state vectors in selftest)
    def h(self, q):
        self.R ^= self.X[:, q] & self.Z[:, q]
        self.X[:, q], self.Z[:, q] = self.Z[:, q].copy(), self.X[:, q].copy()

    def p(self, q):
        self.R ^= self.X[:, q] & self.Z[:, q]
        self.Z[:, q] ^= self.X[:, q]

    def pd(self, q):
        # P^dagger X P = -Y,  P^dagger Y P = X
        self.R ^= self.X[:, q] & (self.Z[:, q] ^ 1)
        self.Z[:, q] ^= self.X[:, q]

    def x(self, q):
        self.R ^= self.Z[:, q]

    def z(self, q):
        self.R ^= self.X[:, q]

    def y(self, q):
        self.R ^= self.X[:, q] ^ self.Z[:, q]

    def cx(self, c, t):
        self.R ^= self.X[:, c] & self.Z[:, t] & (self.X[:, t] ^ self.Z[:, c] ^ 1)
        self.X[:, t] ^= self.X[:, c]
        self.Z[:, c] ^= self.Z[:, t]

    def cz(self, c, t):
        self.h(t)
        self.cx(c, t)
        self.h(t)

    def cy(self, c, t):
        self.pd(t)
        self.cx(c, t)
        self.p(t)

    def swap(self, a, b):
        if a != b:
            self.X[:, [a, b]] = self.X[:, [b, a]]
            self.Z[:, [a, b]] = self.Z[:, [b, a]]

    def gate(self, name, qs):
        {"H": self.h, "P": self.p, "PD": self.pd, "X": self.x, "Y": self.y, "Z": self.z, "CX": self.cx, "CZ": self.cz,
         "CY": self.cy, "SWAP": self.swap, "I": lambda *a: None}[name](*qs)

    # -- signed row product: row t := row a * row t
    def _rowmul(self, a, t):
        x, z, k = pmul(self.X[a], self.Z[a], 2 * self.R[a], self.X[t], self.Z[t], 2 * self.R[t])
        self.X[t], self.Z[t] = x, z
        self.R[t] = (k // 2) % 2  # for anticommuting rows (destabilizer bookkeeping only) the i factor is dropped

    def measure(self, q, force=None, rng=None):
        """returns (outcome, was_random).  force in {0,1}: outcome taken when random; else rng.integers"""
        n = self.n
        cand = [i for i in range(n, 2 * n) if self.X[i, q]]
        if cand:
            p = cand[0]
            for i in range(2 * n):
                if i != p and i != p - n and self.X[i, q]:
                    self._rowmul(p, i)
            self.X[p - n], self.Z[p - n], self.R[p - n] = self.X[p].copy(), self.Z[p].copy(), self.R[p]
            self.X[p] = 0
            self.Z[p] = 0
            self.Z[p, q] = 1
            o = int(force) if force in (0, 1) else int(rng.integers(0, 2))
            self.R[p] = o
            return o, True
        x = np.zeros(n, dtype=int)
        z = np.zeros(n, dtype=int)
        k = 0
        for i in range(n):
            if self.X[i, q]:
                x, z, k = pmul(self.X[i + n], self.Z[i + n], 2 * self.R[i + n], x, z, k)
        assert not np.any(x) and z[q] == 1 and np.sum(z) == 1 and k % 2 == 0
        return (k // 2) % 2, False

    def set_after_measure(self, q, basis, intended):
        """after a Z measurement of q (q is now unentangled, +-Z_q in the group): put q into the `intended` eigenstate
        of `basis` in 'z','x','y'"""
        o, rnd = self.measure(q, 0)
        assert not rnd
        if o != intended:
            self.x(q)
        if basis in ("x", "y"):
            self.h(q)
        if basis == "y":
            self.p(q)

    def insert0(self, pos):
        n = self.n
        t = RefTableau(n + 1)
        keep = [j for j in range(n + 1) if j != pos]
        rows = keep + [n + 1 + j for j in keep]
        t.X[:] = 0
        t.Z[:] = 0
        t.X[np.ix_(rows, keep)] = self.X
        t.Z[np.ix_(rows, keep)] = self.Z
        t.R[rows] = self.R
        t.X[pos, pos] = 1
        t.Z[n + 1 + pos, pos] = 1
        self.n, self.X, self.Z, self.R = t.n, t.X, t.Z, t.R

    def remove(self, q, force=None, rng=None):
        """measure qubit q in Z (forced outcome when random) and drop it; the others keep the post-measurement state"""
        n = self.n
        o, was_random = self.measure(q, force, rng)
        if was_random:
            i = [j for j in range(n, 2 * n) if not np.any(self.X[j]) and self.Z[j, q] == 1 and np.sum(self.Z[j]) == 1][0] - n
        else:
            K = [k for k in range(n) if self.X[k, q]]
            i = K[0]
            for k in K[1:]:
                self._rowmul(k + n, i + n)  # s_i := prod_K s_k = +-Z_q
                self._rowmul(i, k)  # d_k := d_i d_k   (keeps the pairing)
        assert not np.any(self.X[i + n]) and np.sum(self.Z[i + n]) == 1 and self.Z[i + n, q] == 1
        for r in range(2 * n):
            if r not in (i, i + n):
                assert self.X[r, q] == 0
                if self.Z[r, q]:
                    self._rowmul(i + n, r)
        rows = [r for r in range(2 * n) if r not in (i, i + n)]
        cols = [c for c in range(n) if c != q]
        self.X = self.X[np.ix_(rows, cols)].copy()
        self.Z = self.Z[np.ix_(rows, cols)].copy()
        self.R = self.R[rows].copy()
        self.n = n - 1
        return o

    def tensor(self, other):
        n, m = self.n, other.n
        t = RefTableau(n + m)
        t.X[:] = 0
        t.Z[:] = 0
        ra = list(range(n)) + list(range(n + m, 2 * n + m))
        rb = list(range(n, n + m)) + list(range(2 * n + m, 2 * n + 2 * m))
        t.X[np.ix_(ra, range(n))] = self.X
        t.Z[np.ix_(ra, range(n))] = self.Z
        t.X[np.ix_(rb, range(n, n + m))] = other.X
        t.Z[np.ix_(rb, range(n, n + m))] = other.Z
        t.R[ra] = self.R
        t.R[rb] = other.R
        self.n, self.X, self.Z, self.R = t.n, t.X, t.Z, t.R

    def table(self):
        return np.hstack([self.X, self.Z])

    def valid(self):
        return valid_clifford(self.table(), self.n)

    def product_of_rows(self, idx):
        """ordered product row[idx[0]] * row[idx[1]] * ... as (x, z, k) with operator i^k sigma(x,z)  (vectorised:
        prefix products by cumulative XOR of the Pauli codes, exponents from the product table G)"""
        n = self.n
        idx = np.asarray(idx, dtype=int)
        if idx.size == 0:
            return np.zeros(n, dtype=int), np.zeros(n, dtype=int), 0
        codes = 2 * self.X[idx] + self.Z[idx]
        pre = np.bitwise_xor.accumulate(codes, axis=0)
        prev = np.vstack([np.zeros((1, n), dtype=int), pre[:-1]])
        k = (2 * int(np.sum(self.R[idx])) + int(np.sum(G[prev, codes]))) % 4
        last = pre[-1]
        return last >> 1, last & 1, k

    def contains(self, x, z, r):
        """is the signed Pauli (x,z,r) an element of the stabilizer group?  (decomposition through the destabilizers)"""
        n = self.n
        x = np.asarray(x, dtype=int)
        z = np.asarray(z, dtype=int)
        anti = (self.X[:n] @ z + self.Z[:n] @ x) % 2  # anticommutes with destabilizer i  <=> s_i is a factor
        ax, az, k = self.product_of_rows(np.nonzero(anti)[0] + n)
        return bool(np.array_equal(ax, x) and np.array_equal(az, z) and k == (2 * int(r)) % 4)

    def mix_presentation(self, rng, moves=None):
        """another valid tableau of the SAME state: random pairing-preserving row operations
        (s_j := s_i s_j with d_i := d_j d_i;  d_i := d_i s_i;  pair swaps;  destabilizer sign flips)"""
        n = self.n
        for _ in range(moves if moves is not None else 3 * n + 2):
            kind = int(rng.integers(0, 4))
            if kind == 0 and n >= 2:
                i, j = (int(a) for a in rng.choice(n, size=2, replace=False))
                self._rowmul(i + n, j + n)
                self._rowmul(j, i)
            elif kind == 1:
                i = int(rng.integers(0, n))
                self._rowmul(i + n, i)
            elif kind == 2 and n >= 2:
                i, j = (int(a) for a in rng.choice(n, size=2, replace=False))
                for M in (self.X, self.Z):
                    M[[i, j]] = M[[j, i]]
                    M[[i + n, j + n]] = M[[j + n, i + n]]
                self.R[[i, j]] = self.R[[j, i]]
                self.R[[i + n, j + n]] = self.R[[j + n, i + n]]
            else:
                i = int(rng.integers(0, n))
                self.R[i] ^= 1
        return self

    @classmethod
    def random(cls, n, rng, depth=None):
        """random Clifford tableau: random gates on the identity tableau followed by mix_presentation"""
        t = cls(n)
        one = ["H", "P", "PD", "X", "Y", "Z"]
        two = ["CX", "CZ", "CY"]
        for _ in range(depth if depth is not None else 5 * n + 5):
            if n >= 2 and rng.random() < 0.45:
                c, tt = (int(a) for a in rng.choice(n, size=2, replace=False))
                t.gate(two[int(rng.integers(0, 3))], [c, tt])
            else:
                t.gate(one[int(rng.integers(0, 6))], [int(rng.integers(0, n))])
        return t.mix_presentation(rng)

    def state_vector(self):
        n = self.n
        return core.stabilizer_state(self.X[n:], self.Z[n:], self.R[n:])

    def same_state_as_rows(self, table_rows, phase):
        """None if every signed row (x|z) is in the stabilizer group, else index of the first that is not.
        (With n independent rows - validity of the other tableau - this is equality of the states.)"""
        n = self.n
        for i, row in enumerate(table_rows):
            row = np.asarray(row, dtype=int)
            if not self.contains(row[:n], row[n:], phase[i]):
                return i
        return None


def selftest(seed=0, trials=60):
    """RefTableau against the state-vector layer on random histories (n<=4), pauli_apply against core.pauli,
    enumeration sizes for n<=2."""
    rng = np.random.default_rng(seed)
    for _ in range(40):
        n = int(rng.integers(1, 5))
        xs, zs, r = rng.integers(0, 2, n), rng.integers(0, 2, n), int(rng.integers(0, 2))
        v = rng.normal(size=2**n) + 1j * rng.normal(size=2**n)
        assert np.allclose(pauli_apply(v, n, xs, zs, r), core.pauli(xs, zs, r) @ v)
    assert len(all_stabilizer_states(1)) == 6 and len(all_stabilizer_states(2)) == 60
    for _ in range(trials):
        n = int(rng.integers(1, 4))
        t = RefTableau(n)
        v = core.ket0(n)
        for _step in range(40):
            kind = rng.choice(["g1", "g2", "m", "ins", "rem", "swap", "reset"])
            if kind == "g1":
                g = str(rng.choice(["H", "P", "PD", "X", "Y", "Z"]))
                q = int(rng.integers(0, n))
                t.gate(g, [q])
                v = sv_gate(v, n, g, [q])
            elif kind == "g2" and n >= 2:
                g = str(rng.choice(["CX", "CZ", "CY"]))
                c, tt = (int(a) for a in rng.choice(n, 2, replace=False))
                t.gate(g, [c, tt])
                v = sv_gate(v, n, g, [c, tt])
            elif kind == "swap" and n >= 2:
                a, b = int(rng.integers(0, n)), int(rng.integers(0, n))
                t.swap(a, b)
                v = sv_swap(v, n, a, b)
            elif kind == "m":
                q = int(rng.integers(0, n))
                f = int(rng.integers(0, 2))
                br = sv_measure_branches(v, n, q)
                o, rnd = t.measure(q, f)
                assert rnd == (len(br) == 2) and o in br and (not rnd or o == f)
                v = br[o]
            elif kind == "reset":
                q = int(rng.integers(0, n))
                f = int(rng.integers(0, 2))
                basis = str(rng.choice(["x", "y", "z"]))
                want = int(rng.integers(0, 2))
                br = sv_measure_branches(v, n, q)
                o, rnd = t.measure(q, f)
                t.set_after_measure(q, basis, want)
                v = sv_set_qubit(br[o], n, q, EIG[(basis, want)])
            elif kind == "ins" and n < 4:
                pos = int(rng.integers(0, n + 1))
                t.insert0(pos)
                v = sv_insert0(v, n, pos)
                n += 1
            elif kind == "rem" and n > 1:
                q = int(rng.integers(0, n))
                f = int(rng.integers(0, 2))
                br = sv_measure_branches(v, n, q)
                o = t.remove(q, f)
                v = sv_drop(br[o], n, q)
                n -= 1
            if rng.random() < 0.3:
                t.mix_presentation(rng)
            assert t.valid()
            assert rows_describe(v, n, t.table()[n:], t.R[n:]) is None, (kind, n)
            t2 = RefTableau.from_arrays(t.table(), t.R)
            assert t2.same_state_as_rows(t.table()[n:], t.R[n:]) is None
            bad = t.R.copy()
            bad[n] ^= 1
            assert t2.same_state_as_rows(t.table()[n:], bad[n:]) == 0
    return True
