"""Independent reference semantics of the noise channels and of noisy unitary circuits on density matrices
(imports nothing from graphiq; matrices come from refsem.core).

Channels (the textbook / documented forms the property statement refers to)
  depolarizing(p) on k qubits:  rho -> (1-p) rho + p/(4^k-1) * sum_{P != I} P rho P      (P over the 4^k-1 Pauli strings)
  Pauli error P on one qubit:   rho -> P rho P
  photon loss(lam):             rho -> (1-lam) rho        (sub-normalised: trace = survival probability)

Noise spec (JSON-able):  ["none"] | ["dep", p, after] | ["pauli", "X"|"Y"|"Z"|"I", after] | ["loss", lam, after]
        after = 1: noise acts after the gate, 0: before the gate.

Circuit op (JSON-able), registers are (type, index) with type "p" (photon) or "e" (emitter); qubit order: photons first.
  ["g", name, rt, r, noise]                 one-qubit gate, name in refsem.core.GATES1
  ["w", [names], rt, r, [noise,...]]        one-qubit wrapper: matrix product names[0]*names[1]*... (last listed acts first);
                                            noise[i] belongs to names[i]
  ["cx"|"cz", ct, c, tt, t, [noise_c, noise_t]]
"""
from __future__ import annotations

import itertools

import numpy as np

from . import core

PAULI1 = {"I": core.I2, "X": core.X, "Y": core.Y, "Z": core.Z}


def embed(n, q, U):
    M = np.array([[1]], dtype=complex)
    for k in range(n):
        M = np.kron(M, U if k == q else core.I2)
    return M


def unitary_of(n, fn):
    """matrix of the linear map fn on state vectors (column by column)"""
    d = 2**n
    U = np.zeros((d, d), dtype=complex)
    for k in range(d):
        e = np.zeros(d, dtype=complex)
        e[k] = 1
        U[:, k] = fn(e)
    return U


def depolarize(rho, n, qubits, p):
    k = len(qubits)
    out = (1 - p) * rho
    w = p / (4**k - 1)
    for names in itertools.product("IXYZ", repeat=k):
        if all(c == "I" for c in names):
            continue
        P = np.eye(2**n, dtype=complex)
        for c, q in zip(names, qubits):
            P = P @ embed(n, q, PAULI1[c])
        out = out + w * (P @ rho @ P.conj().T)
    return out


def pauli_error(rho, n, q, name):
    P = embed(n, q, PAULI1[name])
    return P @ rho @ P.conj().T


def photon_loss(rho, lam):
    return (1 - lam) * rho


def apply_noise(rho, n, q, spec):
    k = spec[0]
    if k == "none":
        return rho
    if k == "dep":
        return depolarize(rho, n, [q], spec[1])
    if k == "pauli":
        return pauli_error(rho, n, q, spec[1])
    if k == "loss":
        return photon_loss(rho, spec[1])
    raise ValueError(spec)


def survival(spec):
    return (1 - spec[1]) if spec[0] == "loss" else 1.0


def is_after(spec):
    return True if spec[0] == "none" else bool(spec[2])


def qindex(n_p, rt, r):
    return r if rt == "p" else n_p + r


def _gate1(rho, n, q, name):
    U = embed(n, q, core.GATES1[name])
    return U @ rho @ U.conj().T


def _gate2(rho, n, kind, c, t):
    U = unitary_of(n, lambda v: core.apply_ctrl(v, n, c, t, core.X if kind == "cx" else core.Z))
    return U @ rho @ U.conj().T


def run_noisy(n_p, n_e, ops, noise_on=True):
    """density matrix after the (unitary) circuit with every op's noise placed before / after its gate.
    Returns (rho, expected_trace) where expected_trace = product of the survival factors of all photon-loss slots."""
    n = n_p + n_e
    rho = core.dm(core.ket0(n))
    surv = 1.0
    for op in ops:
        k = op[0]
        if k == "g":
            _, name, rt, r, ns = op
            steps = [(name, ns)]
            q = qindex(n_p, rt, r)
        elif k == "w":
            _, names, rt, r, nss = op
            q = qindex(n_p, rt, r)
            steps = list(zip(names, nss))[::-1]  # the last listed gate acts first
        elif k in ("cx", "cz"):
            _, ct, c, tt, t, (nc, nt) = op
            qc, qt = qindex(n_p, ct, c), qindex(n_p, tt, t)
            if noise_on:
                if not is_after(nc):
                    rho = apply_noise(rho, n, qc, nc)
                if not is_after(nt):
                    rho = apply_noise(rho, n, qt, nt)
            rho = _gate2(rho, n, k, qc, qt)
            if noise_on:
                if is_after(nc):
                    rho = apply_noise(rho, n, qc, nc)
                if is_after(nt):
                    rho = apply_noise(rho, n, qt, nt)
                surv *= survival(nc) * survival(nt)
            continue
        else:
            raise ValueError(op)
        for name, ns in steps:
            if noise_on and not is_after(ns):
                rho = apply_noise(rho, n, q, ns)
            rho = _gate1(rho, n, q, name)
            if noise_on and is_after(ns):
                rho = apply_noise(rho, n, q, ns)
            if noise_on:
                surv *= survival(ns)
    return rho, surv


def min_eig(rho):
    return float(np.min(np.linalg.eigvalsh((rho + rho.conj().T) / 2)))


def selftest():
    rng = np.random.default_rng(0)
    n = 2
    A = rng.normal(size=(4, 4)) + 1j * rng.normal(size=(4, 4))
    rho = A @ A.conj().T
    rho /= np.trace(rho).real
    # depolarizing is trace preserving, p=0 identity, one-qubit p=3/4 is the completely depolarizing map on that qubit
    assert np.allclose(depolarize(rho, n, [0], 0.0), rho)
    assert abs(np.trace(depolarize(rho, n, [0, 1], 0.3)) - 1) < 1e-12
    full = depolarize(rho, n, [0], 0.75)
    red = core.partial_trace_dm(rho, n, [1])
    assert np.allclose(full, np.kron(np.eye(2) / 2, red))
    # two-qubit p=15/16 is the completely depolarizing map
    assert np.allclose(depolarize(rho, n, [0, 1], 15 / 16), np.eye(4) / 4)
    # run_noisy without noise equals the state-vector semantics of refsem.core
    ops = [["g", "H", "e", 0, ["none"]], ["cx", "e", 0, "p", 0, [["none"], ["none"]]], ["w", ["H", "P"], "p", 0, [["none"], ["none"]]]]
    rho2, s = run_noisy(1, 1, ops)
    v, _, _ = core.run_ops(2, [("g", "H", 1), ("cx", 1, 0), ("w", ["H", "P"], 0)])
    assert np.allclose(rho2, core.dm(v)) and s == 1.0
    return True
