"""refsem.qasm2 - a small, independent reader for openQASM 2.0 text ("standard semantics").

Written from the openQASM 2.0 specification (Cross, Bishop, Smolin, Gambetta 2017), NOT from graphiq's exporter or
importer; imports nothing from graphiq.  It is the executable specification for the clause "the openQASM text, read
with standard openQASM 2.0 semantics, denotes those same operations in an order consistent with the circuit" (C14).

What "standard semantics" means here
  * program = `OPENQASM 2.0;` followed by statements, executed top to bottom
  * `qreg q[n]; creg c[n];` declare registers; qubits are numbered in declaration order (used only internally,
    callers address qubits by (register name, index))
  * built-in unitaries:  U(theta,phi,lambda) q  =  Rz(phi) Ry(theta) Rz(lambda)   and   CX c,t
  * `gate name(params) qargs { body }` defines a unitary subroutine: the statements of the body are applied
    TOP TO BOTTOM (first listed statement acts first).  A gate must be defined before it is used, must not be
    defined twice, and its body may only refer to its own parameters / qubit arguments and earlier gates
  * `include "qelib1.inc";` makes the standard library subset below available (the emitted text never includes it)
  * a gate applied to whole registers is broadcast over the indices
  * `measure q -> c;` projective Z measurement, outcome written to the classical bit
  * `reset q;` puts the qubit into |0> (outcome discarded)
  * `if (c==n) qop;` performs qop iff the integer value of the WHOLE classical register c (bit 0 = least
    significant) equals n at that moment
  * `barrier ...;` has no effect on the state
Anything else (unknown statement, undefined gate, undeclared register, index out of range, wrong arity, repeated
qubit in one gate application, `import ...;`) raises QasmError: a standard reader would reject the text.
"""
from __future__ import annotations

import cmath
import math
import re
from dataclasses import dataclass, field

import numpy as np

from . import core as R


class QasmError(Exception):
    pass


# ------------------------------------------------------------------------------------------------ tokens
_TOKEN = re.compile(
    r"""
    (?P<ws>\s+|//[^\n]*)
  | (?P<real>(?:\d+\.\d*|\.\d+)(?:[eE][+-]?\d+)?|\d+[eE][+-]?\d+)
  | (?P<int>\d+)
  | (?P<id>[A-Za-z_][A-Za-z0-9_]*)
  | (?P<str>"[^"\n]*")
  | (?P<sym>->|==|[;,\[\]\(\)\{\}\+\-\*/\^])
    """,
    re.X,
)

KEYWORDS = {"OPENQASM", "qreg", "creg", "gate", "opaque", "U", "CX", "measure", "reset", "barrier", "if", "pi", "include"}
UNARY = {"sin": math.sin, "cos": math.cos, "tan": math.tan, "exp": math.exp, "ln": math.log, "sqrt": math.sqrt}


def tokenize(text):
    pos = 0
    out = []
    while pos < len(text):
        m = _TOKEN.match(text, pos)
        if m is None:
            raise QasmError(f"illegal character {text[pos]!r} at offset {pos}")
        pos = m.end()
        k = m.lastgroup
        if k == "ws":
            continue
        out.append((k, m.group(k)))
    out.append(("eof", ""))
    return out


# ------------------------------------------------------------------------------------------------ program objects
@dataclass
class GateDef:
    name: str
    params: list
    qargs: list
    body: list  # list of ("U", [exp*3], qarg) | ("CX", qarg, qarg) | ("call", name, [exp], [qarg]) | ("barrier", [qarg])


@dataclass
class Stmt:
    """one top-level quantum statement after register broadcast, in program order"""
    kind: str  # "gate" | "measure" | "reset" | "barrier"
    name: str = ""  # gate name ("U", "CX" or a defined gate)
    params: tuple = ()
    qubits: tuple = ()  # global qubit numbers, in argument order
    cbit: tuple | None = None  # (creg name, bit index) for measure
    cond: tuple | None = None  # (creg name, integer) for `if`
    prims: list = field(default_factory=list)  # expansion into ("U", theta, phi, lam, q) / ("CX", c, t)


@dataclass
class Program:
    version: str
    qregs: list  # [(name, size)] in declaration order
    cregs: list  # [(name, size)]
    gates: dict  # name -> GateDef
    stmts: list  # [Stmt]

    @property
    def n_qubits(self):
        return sum(s for _, s in self.qregs)

    def qubit_index(self, reg, idx=0):
        off = 0
        for n, s in self.qregs:
            if n == reg:
                if not 0 <= idx < s:
                    raise QasmError(f"index {idx} out of range for qreg {reg}[{s}]")
                return off + idx
            off += s
        raise QasmError(f"undeclared qreg {reg}")

    def qubit_name(self, q):
        off = 0
        for n, s in self.qregs:
            if q < off + s:
                return (n, q - off)
            off += s
        raise QasmError(f"qubit {q} out of range")


QELIB1 = """
gate u3(theta,phi,lambda) q { U(theta,phi,lambda) q; }
gate u2(phi,lambda) q { U(pi/2,phi,lambda) q; }
gate u1(lambda) q { U(0,0,lambda) q; }
gate cx c,t { CX c,t; }
gate id a { U(0,0,0) a; }
gate x a { u3(pi,0,pi) a; }
gate y a { u3(pi,pi/2,pi/2) a; }
gate z a { u1(pi) a; }
gate h a { u2(0,pi) a; }
gate s a { u1(pi/2) a; }
gate sdg a { u1(-pi/2) a; }
gate cz a,b { h b; cx a,b; h b; }
"""


# ------------------------------------------------------------------------------------------------ parser
class _Parser:
    def __init__(self, text):
        self.toks = tokenize(text)
        self.i = 0
        self.qregs = []
        self.cregs = []
        self.gates = {}
        self.stmts = []

    # -- token helpers
    def peek(self):
        return self.toks[self.i]

    def next(self):
        t = self.toks[self.i]
        self.i += 1
        return t

    def accept(self, val):
        if self.toks[self.i][1] == val and self.toks[self.i][0] in ("sym", "id"):
            self.i += 1
            return True
        return False

    def expect(self, val):
        t = self.next()
        if t[1] != val or t[0] not in ("sym", "id"):
            raise QasmError(f"expected {val!r}, found {t[1]!r}")

    def ident(self):
        t = self.next()
        if t[0] != "id" or t[1] in KEYWORDS:
            raise QasmError(f"expected identifier, found {t[1]!r}")
        if not re.match(r"[a-z][A-Za-z0-9_]*$", t[1]):
            raise QasmError(f"identifier {t[1]!r} must start with a lower-case letter")
        return t[1]

    def nninteger(self):
        t = self.next()
        if t[0] != "int":
            raise QasmError(f"expected integer, found {t[1]!r}")
        return int(t[1])

    # -- expressions (precedence climbing):  + -  <  * /  <  unary -  <  ^
    def exp(self):
        v = self.term()
        while self.peek()[1] in ("+", "-") and self.peek()[0] == "sym":
            op = self.next()[1]
            w = self.term()
            v = ("bin", op, v, w)
        return v

    def term(self):
        v = self.unary()
        while self.peek()[1] in ("*", "/") and self.peek()[0] == "sym":
            op = self.next()[1]
            w = self.unary()
            v = ("bin", op, v, w)
        return v

    def unary(self):
        if self.peek() == ("sym", "-"):
            self.next()
            return ("neg", self.unary())
        if self.peek() == ("sym", "+"):
            self.next()
            return self.unary()
        return self.power()

    def power(self):
        b = self.atom()
        if self.peek() == ("sym", "^"):
            self.next()
            e = self.unary()
            return ("bin", "^", b, e)
        return b

    def atom(self):
        k, v = self.next()
        if k in ("real", "int"):
            return ("num", float(v))
        if k == "id" and v == "pi":
            return ("num", math.pi)
        if k == "id" and v in UNARY and self.peek() == ("sym", "("):
            self.next()
            a = self.exp()
            self.expect(")")
            return ("fn", v, a)
        if k == "id" and v not in KEYWORDS:
            return ("var", v)
        if (k, v) == ("sym", "("):
            a = self.exp()
            self.expect(")")
            return a
        raise QasmError(f"bad expression token {v!r}")

    def explist(self):
        out = []
        if self.peek() == ("sym", ")"):
            return out
        out.append(self.exp())
        while self.accept(","):
            out.append(self.exp())
        return out

    # -- arguments
    def argument(self):
        name = self.ident()
        if self.accept("["):
            idx = self.nninteger()
            self.expect("]")
            return (name, idx)
        return (name, None)

    def anylist(self):
        out = [self.argument()]
        while self.accept(","):
            out.append(self.argument())
        return out

    # -- program
    def program(self):
        t = self.next()
        if t != ("id", "OPENQASM"):
            raise QasmError("program must start with OPENQASM")
        v = self.next()
        if v[0] not in ("real", "int"):
            raise QasmError("missing version")
        self.expect(";")
        if float(v[1]) != 2.0:
            raise QasmError(f"unsupported version {v[1]}")
        while self.peek()[0] != "eof":
            self.statement()
        return Program(v[1], self.qregs, self.cregs, self.gates, self.stmts)

    def statement(self):
        k, v = self.peek()
        if k != "id":
            raise QasmError(f"unexpected token {v!r}")
        if v in ("qreg", "creg"):
            self.next()
            name = self.ident()
            self.expect("[")
            n = self.nninteger()
            self.expect("]")
            self.expect(";")
            if n < 1:
                raise QasmError(f"register {name} has size 0")
            if any(name == r for r, _ in self.qregs + self.cregs) or name in self.gates:
                raise QasmError(f"redeclaration of {name}")
            (self.qregs if v == "qreg" else self.cregs).append((name, n))
        elif v == "include":
            self.next()
            f = self.next()
            self.expect(";")
            if f != ("str", '"qelib1.inc"'):
                raise QasmError(f"cannot include {f[1]}")
            sub = _Parser("OPENQASM 2.0;" + QELIB1)
            sub.gates = self.gates
            sub.program()
        elif v == "gate":
            self.gatedecl()
        elif v == "opaque":
            raise QasmError("opaque gates have no defined action")
        elif v == "barrier":
            self.next()
            args = self.anylist()
            self.expect(";")
            qs = []
            for a in args:
                qs.extend(self.expand_qarg(a))
            self.stmts.append(Stmt("barrier", qubits=tuple(qs)))
        elif v == "if":
            self.next()
            self.expect("(")
            c = self.ident()
            self.expect("==")
            n = self.nninteger()
            self.expect(")")
            if not any(c == r for r, _ in self.cregs):
                raise QasmError(f"undeclared creg {c} in if")
            self.qop(cond=(c, n))
        else:
            self.qop(cond=None)

    def gatedecl(self):
        self.expect("gate")
        name = self.ident()
        if name in self.gates or any(name == r for r, _ in self.qregs + self.cregs):
            raise QasmError(f"gate {name} is already defined")
        params = []
        if self.accept("("):
            if not self.accept(")"):
                params.append(self.ident())
                while self.accept(","):
                    params.append(self.ident())
                self.expect(")")
        qargs = [self.ident()]
        while self.accept(","):
            qargs.append(self.ident())
        if len(set(qargs)) != len(qargs) or len(set(params)) != len(params):
            raise QasmError(f"gate {name}: repeated formal argument")
        self.expect("{")
        body = []
        while not self.accept("}"):
            k, v = self.peek()
            if (k, v) == ("id", "U"):
                self.next()
                self.expect("(")
                es = self.explist()
                self.expect(")")
                q = self.ident()
                self.expect(";")
                if len(es) != 3:
                    raise QasmError("U takes 3 parameters")
                body.append(("U", es, q))
                used_q = [q]
            elif (k, v) == ("id", "CX"):
                self.next()
                a = self.ident()
                self.expect(",")
                b = self.ident()
                self.expect(";")
                body.append(("CX", a, b))
                used_q = [a, b]
            elif (k, v) == ("id", "barrier"):
                self.next()
                ids = [self.ident()]
                while self.accept(","):
                    ids.append(self.ident())
                self.expect(";")
                body.append(("barrier", ids))
                used_q = ids
            elif k == "id" and v not in KEYWORDS:
                g = self.ident()
                es = []
                if self.accept("("):
                    es = self.explist()
                    self.expect(")")
                ids = [self.ident()]
                while self.accept(","):
                    ids.append(self.ident())
                self.expect(";")
                if g not in self.gates:
                    raise QasmError(f"gate {name}: body uses undefined gate {g}")
                gd = self.gates[g]
                if len(gd.params) != len(es) or len(gd.qargs) != len(ids):
                    raise QasmError(f"gate {name}: wrong number of arguments for {g}")
                body.append(("call", g, es, ids))
                used_q = ids
            else:
                raise QasmError(f"gate {name}: illegal body statement starting with {v!r}")
            for q in used_q:
                if q not in qargs:
                    raise QasmError(f"gate {name}: body refers to unknown qubit argument {q}")
            if len(set(used_q)) != len(used_q) and body[-1][0] != "barrier":
                raise QasmError(f"gate {name}: repeated qubit in one application")
            for e in (body[-1][1] if body[-1][0] == "U" else body[-1][2] if body[-1][0] == "call" else []):
                self.check_vars(e, params, name)
        self.gates[name] = GateDef(name, params, qargs, body)

    def check_vars(self, e, params, gname):
        if e[0] == "var":
            if e[1] not in params:
                raise QasmError(f"gate {gname}: unknown parameter {e[1]}")
        elif e[0] == "bin":
            self.check_vars(e[2], params, gname)
            self.check_vars(e[3], params, gname)
        elif e[0] == "neg":
            self.check_vars(e[1], params, gname)
        elif e[0] == "fn":
            self.check_vars(e[2], params, gname)

    def expand_qarg(self, a):
        name, idx = a
        size = dict(self.qregs).get(name)
        if size is None:
            raise QasmError(f"undeclared qreg {name}")
        off = 0
        for n, s in self.qregs:
            if n == name:
                break
            off += s
        if idx is None:
            return [off + i for i in range(size)]
        if not 0 <= idx < size:
            raise QasmError(f"index {idx} out of range for qreg {name}[{size}]")
        return [off + idx]

    def expand_carg(self, a):
        name, idx = a
        size = dict(self.cregs).get(name)
        if size is None:
            raise QasmError(f"undeclared creg {name}")
        if idx is None:
            return [(name, i) for i in range(size)]
        if not 0 <= idx < size:
            raise QasmError(f"index {idx} out of range for creg {name}[{size}]")
        return [(name, idx)]

    def broadcast(self, args):
        """list of per-application qubit tuples for a gate applied to `args` (register broadcast)"""
        exp = [(self.expand_qarg(a), a[1] is None) for a in args]
        whole = [len(q) for q, w in exp if w]
        if not whole:
            return [tuple(q[0] for q, _ in exp)]
        if len(set(whole)) != 1:
            raise QasmError("broadcast over registers of different sizes")
        return [tuple((q[i] if w else q[0]) for q, w in exp) for i in range(whole[0])]

    def qop(self, cond):
        k, v = self.peek()
        if (k, v) == ("id", "measure"):
            self.next()
            qa = self.argument()
            self.expect("->")
            ca = self.argument()
            self.expect(";")
            qs = self.expand_qarg(qa)
            cs = self.expand_carg(ca)
            if len(qs) != len(cs) or ((qa[1] is None) != (ca[1] is None)):
                raise QasmError("measure: register/bit mismatch")
            for q, c in zip(qs, cs):
                self.stmts.append(Stmt("measure", qubits=(q,), cbit=c, cond=cond))
            return
        if (k, v) == ("id", "reset"):
            self.next()
            qa = self.argument()
            self.expect(";")
            for q in self.expand_qarg(qa):
                self.stmts.append(Stmt("reset", qubits=(q,), cond=cond))
            return
        if (k, v) == ("id", "U"):
            self.next()
            self.expect("(")
            es = self.explist()
            self.expect(")")
            args = [self.argument()]
            self.expect(";")
            if len(es) != 3:
                raise QasmError("U takes 3 parameters")
            vals = tuple(evaluate(e, {}) for e in es)
            for qs in self.broadcast(args):
                self.stmts.append(Stmt("gate", "U", vals, qs, cond=cond, prims=[("U",) + vals + (qs[0],)]))
            return
        if (k, v) == ("id", "CX"):
            self.next()
            args = self.anylist()
            self.expect(";")
            if len(args) != 2:
                raise QasmError("CX takes 2 qubits")
            for qs in self.broadcast(args):
                if qs[0] == qs[1]:
                    raise QasmError("CX on one qubit")
                self.stmts.append(Stmt("gate", "CX", (), qs, cond=cond, prims=[("CX", qs[0], qs[1])]))
            return
        if k == "id" and v not in KEYWORDS:
            g = self.ident()
            es = []
            if self.accept("("):
                es = self.explist()
                self.expect(")")
            args = self.anylist()
            self.expect(";")
            if g not in self.gates:
                raise QasmError(f"undefined gate {g}")
            gd = self.gates[g]
            if len(gd.params) != len(es) or len(gd.qargs) != len(args):
                raise QasmError(f"wrong number of arguments for gate {g}")
            vals = tuple(evaluate(e, {}) for e in es)
            for qs in self.broadcast(args):
                if len(set(qs)) != len(qs):
                    raise QasmError(f"gate {g} applied to a repeated qubit")
                prims = []
                self.expand(gd, vals, qs, prims, 0)
                self.stmts.append(Stmt("gate", g, vals, qs, cond=cond, prims=prims))
            return
        raise QasmError(f"unknown statement starting with {v!r}")

    def expand(self, gd, vals, qubits, out, depth):
        """body statements are applied top to bottom"""
        if depth > 50:
            raise QasmError("gate nesting too deep")
        env = dict(zip(gd.params, vals))
        qmap = dict(zip(gd.qargs, qubits))
        for st in gd.body:
            if st[0] == "U":
                t, p, l = (evaluate(e, env) for e in st[1])
                out.append(("U", t, p, l, qmap[st[2]]))
            elif st[0] == "CX":
                out.append(("CX", qmap[st[1]], qmap[st[2]]))
            elif st[0] == "call":
                sub = self.gates[st[1]]
                self.expand(sub, tuple(evaluate(e, env) for e in st[2]), tuple(qmap[q] for q in st[3]), out, depth + 1)
            elif st[0] == "barrier":
                pass


def evaluate(e, env):
    k = e[0]
    if k == "num":
        return e[1]
    if k == "var":
        if e[1] not in env:
            raise QasmError(f"unknown parameter {e[1]}")
        return env[e[1]]
    if k == "neg":
        return -evaluate(e[1], env)
    if k == "fn":
        return UNARY[e[1]](evaluate(e[2], env))
    a = evaluate(e[2], env)
    b = evaluate(e[3], env)
    if e[1] == "+":
        return a + b
    if e[1] == "-":
        return a - b
    if e[1] == "*":
        return a * b
    if e[1] == "/":
        return a / b
    if e[1] == "^":
        return a ** b
    raise QasmError(f"bad operator {e[1]}")


def parse(text) -> Program:
    return _Parser(text).program()


# ------------------------------------------------------------------------------------------------ semantics
def u_matrix(theta, phi, lam):
    """U(theta,phi,lambda) = Rz(phi) Ry(theta) Rz(lambda)  (openQASM 2.0 specification, eq. (2))"""
    c = math.cos(theta / 2)
    s = math.sin(theta / 2)
    return np.array(
        [
            [cmath.exp(-1j * (phi + lam) / 2) * c, -cmath.exp(-1j * (phi - lam) / 2) * s],
            [cmath.exp(1j * (phi - lam) / 2) * s, cmath.exp(1j * (phi + lam) / 2) * c],
        ],
        dtype=complex,
    )


def apply_prims(v, n, prims, qmap=None):
    for p in prims:
        if p[0] == "U":
            q = p[4] if qmap is None else qmap[p[4]]
            v = R.apply1(v, n, q, u_matrix(p[1], p[2], p[3]))
        else:
            c, t = (p[1], p[2]) if qmap is None else (qmap[p[1]], qmap[p[2]])
            v = R.apply_ctrl(v, n, c, t, R.X)
    return v


def stmt_unitary(st: Stmt):
    """matrix of a top-level gate statement on its own qubits; the qubits are taken in ASCENDING global order
    (most significant first) so that it can be compared with a textbook matrix built the same way"""
    qs = sorted(st.qubits)
    k = len(qs)
    qmap = {q: i for i, q in enumerate(qs)}
    M = np.zeros((2**k, 2**k), dtype=complex)
    for b in range(2**k):
        v = np.zeros(2**k, dtype=complex)
        v[b] = 1
        M[:, b] = apply_prims(v, k, st.prims, qmap)
    return qs, M


def creg_value(cvals, name, size):
    return sum(cvals.get((name, i), 0) << i for i in range(size))


def run(prog: Program, outcomes, qmap=None, n=None):
    """Execute the program on |0...0> with the given outcomes for the `measure` statements that are actually executed
    (consumed in program order).  `qmap` optionally renumbers global qubits into a smaller space of n qubits
    (qubits that no statement touches may be left out).
    Returns None if a prescribed outcome has probability 0, otherwise
        (ensemble, cbits, n_measured)
    where ensemble = [(weight, state vector)] (more than one member only if a `reset` hit a qubit that was not in a
    Z eigenstate), cbits = {(creg, bit): value}."""
    if n is None:
        n = prog.n_qubits
    if qmap is None:
        qmap = {q: q for q in range(prog.n_qubits)}
    ens = [(1.0, R.ket0(n))]
    cvals = {}
    sizes = dict(prog.cregs)
    it = iter(outcomes)
    used = 0
    for st in prog.stmts:
        if st.kind == "barrier":
            continue
        if st.cond is not None and creg_value(cvals, st.cond[0], sizes[st.cond[0]]) != st.cond[1]:
            continue
        if st.kind == "gate":
            ens = [(w, apply_prims(v, n, st.prims, qmap)) for w, v in ens]
        elif st.kind == "measure":
            q = qmap[st.qubits[0]]
            try:
                o = next(it)
            except StopIteration:
                raise QasmError("not enough outcomes supplied") from None
            used += 1
            new = []
            for w, v in ens:
                p1 = R.prob1(v, n, q)
                p = p1 if o == 1 else 1 - p1
                if p > 1e-9:
                    new.append((w * p, R.project(v, n, q, o)))
            if not new:
                return None
            ens = new
            cvals[st.cbit] = o
        elif st.kind == "reset":
            q = qmap[st.qubits[0]]
            new = []
            for w, v in ens:
                p1 = R.prob1(v, n, q)
                if 1 - p1 > 1e-9:
                    new.append((w * (1 - p1), R.project(v, n, q, 0)))
                if p1 > 1e-9:
                    new.append((w * p1, R.apply1(R.project(v, n, q, 1), n, q, R.X)))
            ens = new
    tot = sum(w for w, _ in ens)
    ens = [(w / tot, v) for w, v in ens]
    return ens, cvals, used


def n_measure_statements(prog):
    return sum(1 for s in prog.stmts if s.kind == "measure")


def density(ens):
    return sum(w * R.dm(v) for w, v in ens)


def same_up_to_phase(A, B, tol=1e-7):
    """matrices equal up to one global phase"""
    A = np.asarray(A)
    B = np.asarray(B)
    if A.shape != B.shape:
        return False
    k = np.argmax(np.abs(B))
    b = B.flat[k]
    a = A.flat[k]
    if abs(a) < tol:
        return False
    return np.allclose(A * (b / a), B, atol=tol) and abs(abs(b / a) - 1) < 1e-6


def selftest():
    assert same_up_to_phase(u_matrix(math.pi, 0, math.pi), R.X)
    assert same_up_to_phase(u_matrix(math.pi, math.pi / 2, math.pi / 2), R.Y)
    assert same_up_to_phase(u_matrix(0, 0, math.pi), R.Z)
    assert same_up_to_phase(u_matrix(math.pi / 2, 0, math.pi), R.H)
    assert same_up_to_phase(u_matrix(0, 0, math.pi / 2), R.P)
    p = parse('OPENQASM 2.0; include "qelib1.inc"; qreg q[2]; creg c[2]; gate hs a { h a; s a; } h q[0]; cx q[0],q[1]; '
              "measure q -> c; if (c==3) x q[0]; hs q[1];")
    # body top to bottom: h first, then s  => matrix S.H
    qs, M = stmt_unitary(p.stmts[-1])
    assert same_up_to_phase(M, R.P @ R.H) and not same_up_to_phase(M, R.H @ R.P)
    qs, M = stmt_unitary(p.stmts[1])
    CX = np.zeros((4, 4)); CX[0, 0] = CX[1, 1] = CX[2, 3] = CX[3, 2] = 1
    assert same_up_to_phase(M, CX)
    p.stmts.pop()
    r = run(p, [1, 1])
    assert r is not None and abs(abs(r[0][0][1][1]) - 1) < 1e-9  # |11> --x q0--> |01>
    r = run(p, [0, 0])
    assert r is not None and abs(abs(r[0][0][1][0]) - 1) < 1e-9  # |00>, condition false
    assert run(p, [1, 0]) is None
    q = parse("OPENQASM 2.0; qreg a[1]; qreg b[1]; U(pi/2,0,pi) a[0]; CX a[0],b[0]; reset a[0];")
    ens, _, _ = run(q, [])
    assert len(ens) == 2 and np.allclose(density(ens), np.diag([0.5, 0.5, 0, 0]))
    for bad in ("OPENQASM 2.0; qreg q[1]; h q[0];", "OPENQASM 2.0; gate x a { U(pi,0,pi) a; } gate x a { U(pi,0,pi) a; }",
                "OPENQASM 2.0; qreg q[1]; U(0,0,0) q[1];", "OPENQASM 2.0; import foo; qreg q[1];", "OPENQASM 3.0; qreg q[1];"):
        try:
            parse(bad)
        except QasmError:
            continue
        raise AssertionError(bad)
    return True
