"""Independent helpers on stabilizer states / generating sets (imports nothing from graphiq).

Conventions as in refsem.core: a row (x|z|r) denotes (-1)^r * prod_j sigma(x_j,z_j), sigma(1,1)=Y.
All sign computations here go through the explicit Pauli *matrices* (n <= 5), never through a symplectic phase formula.
"""
from __future__ import annotations

import itertools

import numpy as np

from . import core


# ------------------------------------------------------------------ products of signed Pauli rows
def row_mul(a, b):
    """product of two COMMUTING signed Pauli rows a=(x,z,r), b=(x,z,r) as a signed row; sign from the matrices"""
    xa, za, ra = a
    xb, zb, rb = b
    x = [int(p) ^ int(q) for p, q in zip(xa, xb)]
    z = [int(p) ^ int(q) for p, q in zip(za, zb)]
    M = core.pauli(xa, za, ra) @ core.pauli(xb, zb, rb)
    P0 = core.pauli(x, z, 0)
    t = np.trace(M @ P0) / M.shape[0]
    if abs(t - 1) < 1e-9:
        r = 0
    elif abs(t + 1) < 1e-9:
        r = 1
    else:
        raise ValueError(f"rows do not commute (trace ratio {t})")
    return (x, z, r)


def change_generators(rows, M):
    """rows: list of n signed rows (x,z,r) generating a stabilizer group; M: invertible n x n GF(2) matrix.
    New generator i = product of rows j with M[i][j]=1 (in increasing j).  Returns list of signed rows."""
    n = len(rows)
    out = []
    for i in range(n):
        acc = ([0] * len(rows[0][0]), [0] * len(rows[0][0]), 0)
        for j in range(n):
            if M[i][j]:
                acc = row_mul(acc, rows[j])
        out.append(acc)
    return out


def rows_to_arrays(rows):
    xm = np.array([r[0] for r in rows], dtype=int)
    zm = np.array([r[1] for r in rows], dtype=int)
    ph = np.array([r[2] for r in rows], dtype=int)
    return xm, zm, ph


def graph_rows(adj):
    """canonical generators K_i = X_i prod_{j in N(i)} Z_j of the graph state, all signs +"""
    A = np.array(adj, dtype=int)
    n = len(A)
    return [([int(i == j) for j in range(n)], [int(A[i, j]) for j in range(n)], 0) for i in range(n)]


def graph_clifford_table(adj):
    """(table, phase) of a full Clifford tableau of |G>: destabilizer_i = Z_i, stabilizer_i = K_i (all signs +)"""
    A = np.array(adj, dtype=int)
    n = len(A)
    top = np.hstack([np.zeros((n, n), dtype=int), np.eye(n, dtype=int)])
    bot = np.hstack([np.eye(n, dtype=int), A])
    return np.vstack([top, bot]), np.zeros(2 * n, dtype=int)


# ------------------------------------------------------------------ GL(n,2)
def all_invertible(n):
    """all invertible n x n matrices over GF(2) (n<=3: 1, 6, 168;  n=4: 20160)"""
    out = []
    for bits in itertools.product([0, 1], repeat=n * n):
        M = np.array(bits, dtype=int).reshape(n, n)
        if core.gf2_rank(M) == n:
            out.append(M.tolist())
    return out


def random_invertible(n, rng):
    while True:
        M = rng.integers(0, 2, size=(n, n))
        if core.gf2_rank(M) == n:
            return M.tolist()


# ------------------------------------------------------------------ enumeration of stabilizer states with a tableau each
def _key(v):
    v = np.asarray(v)
    k = int(np.argmax(np.abs(v) > 1e-9))
    w = v * (np.conj(v[k]) / abs(v[k]))
    return tuple(np.round(w.real, 6)) + tuple(np.round(w.imag, 6))


def _vec_apply(v, n, g):
    if g[0] == "CX":
        return core.apply_ctrl(v, n, g[1], g[2], core.X)
    return core.apply1(v, n, g[1], core.H if g[0] == "H" else core.P)


def _rows_apply(rows, g):
    if g[0] == "CX":
        return [core._conj_cx(tuple(x), tuple(z), r, g[1], g[2]) for (x, z, r) in rows]
    return [core._conj1(tuple(x), tuple(z), r, g[1], g[0]) for (x, z, r) in rows]


def all_stabilizer_states(n, full=False):
    """list of (state vector, signed generator rows) - one entry per stabilizer state (n=1: 6, n=2: 60, n=3: 1080).
    BFS over H, P, CNOT from |0..0>; rows are carried along with core's conjugation rules (selftested against matrices)
    and re-checked here against the vector.  full=True: entries are (vector, stabilizer rows, all 2n Clifford rows
    [images of X_1..X_n then of Z_1..Z_n]) so that a complete, valid Clifford tableau is available for the state."""
    gens = [("H", q) for q in range(n)] + [("P", q) for q in range(n)] + [("CX", c, t) for c in range(n) for t in range(n) if c != t]
    v0 = core.ket0(n)
    r0 = [tuple([tuple(int(i == j) for j in range(n)), tuple([0] * n), 0]) for i in range(n)] + [
        tuple([tuple([0] * n), tuple(int(i == j) for j in range(n)), 0]) for i in range(n)
    ]
    seen = {_key(v0): (v0, r0)}
    todo = [(v0, r0)]
    while todo:
        v, rows = todo.pop()
        for g in gens:
            w = _vec_apply(v, n, g)
            k = _key(w)
            if k not in seen:
                r2 = _rows_apply(rows, g)
                seen[k] = (w, r2)
                todo.append((w, r2))
    out = []
    for k in sorted(seen):
        v, rows = seen[k]
        rows = [(list(x), list(z), int(r)) for (x, z, r) in rows]
        for (x, z, r) in rows[n:]:
            assert core.stabilizes(v, x, z, r)
        out.append((v, rows[n:], rows) if full else (v, rows[n:]))
    return out


def full_rows_to_table(rows):
    table = np.array([list(x) + list(z) for (x, z, r) in rows], dtype=int)
    phase = np.array([r for (x, z, r) in rows], dtype=int)
    return table, phase


def random_stabilizer_rows(n, rng, depth=None):
    """signed generator rows + state vector of a random stabilizer state (random H/P/CNOT word from |0..0>)"""
    depth = depth if depth is not None else 6 * n
    gens = [("H", q) for q in range(n)] + [("P", q) for q in range(n)] + [("CX", c, t) for c in range(n) for t in range(n) if c != t]
    v = core.ket0(n)
    rows = [tuple([tuple([0] * n), tuple(int(i == j) for j in range(n)), 0]) for i in range(n)]
    for _ in range(depth):
        g = gens[int(rng.integers(len(gens)))]
        v = _vec_apply(v, n, g)
        rows = _rows_apply(rows, g)
    rows = [(list(x), list(z), int(r)) for (x, z, r) in rows]
    return v, rows


def random_clifford_table(n, rng, depth=None):
    """(table 2n x 2n, phase 2n) of a random Clifford tableau: images of X_i (destabilizers) and Z_i (stabilizers)"""
    depth = depth if depth is not None else 6 * n
    gens = [("H", q) for q in range(n)] + [("P", q) for q in range(n)] + [("CX", c, t) for c in range(n) for t in range(n) if c != t]
    rows = [tuple([tuple(int(i == j) for j in range(n)), tuple([0] * n), 0]) for i in range(n)] + [
        tuple([tuple([0] * n), tuple(int(i == j) for j in range(n)), 0]) for i in range(n)
    ]
    for _ in range(depth):
        g = gens[int(rng.integers(len(gens)))]
        rows = _rows_apply(rows, g)
    table = np.array([list(x) + list(z) for (x, z, r) in rows], dtype=int)
    phase = np.array([r for (x, z, r) in rows], dtype=int)
    return table, phase


def mixture_dm(mix):
    """sum_i p_i |t_i><t_i| for mix = [(p_i, (xm, zm, r))]"""
    rho = None
    for p, (xm, zm, r) in mix:
        P = core.stabilizer_projector(xm, zm, r)
        rho = p * P if rho is None else rho + p * P
    return rho


def selftest():
    rng = np.random.default_rng(1)
    assert len(all_stabilizer_states(1)) == 6 and len(all_stabilizer_states(2)) == 60
    assert len(all_invertible(2)) == 6 and len(all_invertible(3)) == 168
    # changed generating sets stabilise the same state
    for _ in range(20):
        v, rows = random_stabilizer_rows(3, rng)
        M = random_invertible(3, rng)
        for (x, z, r) in change_generators(rows, M):
            assert core.stabilizes(v, x, z, r)
    # triangle: K1 K2 K3 = -XXX
    tri = graph_rows([[0, 1, 1], [1, 0, 1], [1, 1, 0]])
    g = change_generators(tri, [[1, 1, 1], [0, 1, 0], [0, 0, 1]])
    assert g[0] == ([1, 1, 1], [0, 0, 0], 1), g[0]
    return True


def gf2_inv(M):
    """inverse of an invertible GF(2) matrix (Gauss-Jordan on integers mod 2)"""
    M = (np.array(M, dtype=int) % 2)
    n = len(M)
    A = np.hstack([M, np.eye(n, dtype=int)])
    r = 0
    for c in range(n):
        piv = next(i for i in range(r, n) if A[i, c])
        A[[r, piv]] = A[[piv, r]]
        for i in range(n):
            if i != r and A[i, c]:
                A[i] ^= A[r]
        r += 1
    return A[:, n:]


def change_generators_full(full_rows, M):
    """full_rows: 2n signed rows (n destabilizers then n stabilizers) of a valid Clifford tableau.  Stabilizer generators
    are replaced by the products given by M, destabilizers by the products given by M^{-T}, which keeps destabilizer i
    paired with stabilizer i.  Returns 2n signed rows."""
    n = len(full_rows) // 2
    Minv_T = gf2_inv(M).T
    new_stab = change_generators(full_rows[n:], M)
    new_destab = change_generators(full_rows[:n], Minv_T.tolist())
    return new_destab + new_stab


def graph_full_rows(adj):
    A = np.array(adj, dtype=int)
    n = len(A)
    destab = [([0] * n, [int(i == j) for j in range(n)], 0) for i in range(n)]
    return destab + graph_rows(A)
