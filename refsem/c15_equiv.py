"""Semantic equivalence of two circuits given as operation lists (oracle of property C15; imports nothing from graphiq).

A circuit is (n_e, n_p, ops) with ops in the descriptor format of refsem/dagmodel.py, in an applicable order.  It is run on
|0...0> with refsem.core.run_ops (qubit order: photons first, then emitters) once for every vector of measurement outcomes.
A *branch* is identified independently of the linearisation by the outcomes of "the k-th measurement of qubit q":
    key = sorted(((q, k), outcome))
Two circuits are
  * exactly equivalent            iff they have the same numbers of emitters and photons, the same set of reachable branch
                                  keys, and on every branch the same state vector up to a global phase;
  * equivalent up to renaming     iff some permutation of the emitters and some permutation of the photons applied to the
                                  second circuit makes it exactly equivalent to the first.
"""
from __future__ import annotations

import itertools

import numpy as np

from . import core
from .dagmodel import qregs


def flat(d, n_p, perm=None):
    """descriptor -> refsem.core op tuple (flattened qubit indices); perm = {"e": [...], "p": [...]} renames registers"""

    def qi(r):
        t, i = r
        if perm is not None:
            i = perm[t][i]
        return i if t == "p" else n_p + i

    k = d[0]
    if k == "g":
        return ("g", d[1], qi(d[2]))
    if k == "w":
        return ("w", list(d[1]), qi(d[2]))
    if k in ("cx", "cz"):
        return (k, qi(d[1]), qi(d[2]))
    if k in ("ccx", "ccz", "mcr"):
        return (k, qi(d[1]), qi(d[2]), d[3])
    if k == "mz":
        return ("mz", qi(d[1]), d[2])
    raise ValueError(d)


def branches(n_e, n_p, ops, perm=None):
    """{branch key: normalised state vector} over all outcome vectors of non-zero probability"""
    n = n_e + n_p
    fops = [flat(d, n_p, perm) for d in ops]
    meas = core.measuring(fops)
    out = {}
    for outcome in itertools.product([0, 1], repeat=len(meas)):
        r = core.run_ops(n, fops, outcomes=list(outcome))
        if r is None:
            continue
        v, outs, _ = r
        cnt = {}
        key = []
        for op, o in zip(meas, outs):
            q = op[1]
            key.append(((q, cnt.get(q, 0)), o))
            cnt[q] = cnt.get(q, 0) + 1
        out[tuple(sorted(key))] = v
    return out


def same_branches(b1, b2):
    if set(b1) != set(b2):
        return False
    return all(core.same_state(b1[k], b2[k]) for k in b1)


def equivalent_exact(c1, c2):
    (e1, p1, o1), (e2, p2, o2) = c1, c2
    if (e1, p1) != (e2, p2):
        return False
    return same_branches(branches(e1, p1, o1), branches(e2, p2, o2))


def equivalent_renaming(c1, c2):
    (e1, p1, o1), (e2, p2, o2) = c1, c2
    if (e1, p1) != (e2, p2):
        return False
    b1 = branches(e1, p1, o1)
    for pe in itertools.permutations(range(e1)):
        for pp in itertools.permutations(range(p1)):
            if same_branches(b1, branches(e2, p2, o2, {"e": list(pe), "p": list(pp)})):
                return True
    return False


def rename(ops, perm):
    """the operation list with registers renamed (used to *construct* equivalent-up-to-renaming test circuits)"""
    out = []
    for d in ops:
        d = [x if not (isinstance(x, (list, tuple)) and len(x) == 2 and x[0] in ("e", "p")) else [x[0], perm[x[0]][x[1]]] for x in d]
        out.append(d)
    return out
