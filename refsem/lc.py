"""Reference helpers for the LC-equivalence / relabelling / alternate-target monitors (C09, C16, C10).
Imports nothing from graphiq.  Builds on refsem.core.

  * local gates are named with graphiq's *string* names ("I","H","P","P_dag","X","Y","Z"); a gate list
    [(name, qubit), ...] is applied in list order (first listed acts first) - that is how the property
    reads "the gates it returns transform the first state into the second".
  * a signed Pauli row is (x tuple, z tuple, r) = (-1)^r prod_j sigma(x_j, z_j), sigma(1,1)=Y   (refsem.core convention)
"""
from __future__ import annotations

import itertools

import numpy as np

from . import core as R

STR2GATE = {"I": "I", "H": "H", "P": "P", "P_dag": "PD", "X": "X", "Y": "Y", "Z": "Z"}


# ------------------------------------------------------------------ state vectors
def apply_gate_list(v, n, gates):
    """apply [(name, qubit), ...] in list order to the state vector"""
    for name, q in gates:
        v = R.apply1(v, n, int(q), R.GATES1[STR2GATE[name]])
    return v


def op_string_matrix(s):
    """'P H' -> P @ H  (matrix product: the right-most gate acts first); 'H P_dag' -> H @ Pdag"""
    M = R.I2
    for tok in s.split():
        M = M @ R.GATES1[STR2GATE[tok]]
    return M


def pauli_image_1q(U):
    """(z,x) -> (z',x') action of conjugation by the one-qubit Clifford U on Paulis, signs ignored.
    Returns the binary 2x2 matrix M acting on the column vector (z, x)^T, or None if U is not Clifford."""
    out = {}
    for (z, x) in ((1, 0), (0, 1)):
        Pm = R._S[(x, z)]
        Q = U @ Pm @ U.conj().T
        hit = None
        for (x2, z2), S in R._S.items():
            if np.allclose(Q, S) or np.allclose(Q, -S):
                hit = (z2, x2)
        if hit is None:
            return None
        out[(z, x)] = hit
    # columns: image of (1,0) and image of (0,1)
    return np.array([[out[(1, 0)][0], out[(0, 1)][0]], [out[(1, 0)][1], out[(0, 1)][1]]], dtype=int)


# ------------------------------------------------------------------ signed-Pauli conjugation by named local gates
def conj_named(x, z, r, q, name):
    """conjugate the signed Pauli (x,z,r) by the named one-qubit gate on qubit q"""
    g = STR2GATE[name]
    if g == "I":
        return tuple(x), tuple(z), r
    if g in ("H", "P"):
        return R._conj1(x, z, r, q, g)
    if g == "PD":  # P^3
        for _ in range(3):
            x, z, r = R._conj1(x, z, r, q, "P")
        return x, z, r
    if g == "Z":  # P^2
        for _ in range(2):
            x, z, r = R._conj1(x, z, r, q, "P")
        return x, z, r
    if g == "X":  # H Z H
        x, z, r = R._conj1(x, z, r, q, "H")
        x, z, r = conj_named(x, z, r, q, "Z")
        return R._conj1(x, z, r, q, "H")
    if g == "Y":  # Y ~ X Z up to phase (conjugation is the same)
        x, z, r = conj_named(x, z, r, q, "Z")
        return conj_named(x, z, r, q, "X")
    raise ValueError(name)


def graph_rows(A):
    """(destabilizer rows, stabilizer rows) of the graph state: stabilizer K_i = X_i prod_{j~i} Z_j (sign +),
    destabilizer Z_i"""
    A = np.array(A, dtype=int)
    n = len(A)
    stab = [(tuple(int(i == j) for j in range(n)), tuple(int(A[i, j]) for j in range(n)), 0) for i in range(n)]
    dest = [(tuple([0] * n), tuple(int(i == j) for j in range(n)), 0) for i in range(n)]
    return dest, stab


def dressed_rows(A, gates):
    """rows of  U |G_A>  with U the gate list applied in list order"""
    dest, stab = graph_rows(A)
    for name, q in gates:
        dest = [conj_named(x, z, r, q, name) for (x, z, r) in dest]
        stab = [conj_named(x, z, r, q, name) for (x, z, r) in stab]
    return dest, stab


def rows_state(stab):
    xm = [list(x) for (x, z, r) in stab]
    zm = [list(z) for (x, z, r) in stab]
    rr = [r for (x, z, r) in stab]
    return R.stabilizer_state(xm, zm, rr)


def selftest():
    """conj_named agrees with matrix conjugation for every named gate and one-qubit Pauli"""
    for name, g in STR2GATE.items():
        U = R.GATES1[g]
        for x, z in itertools.product([0, 1], repeat=2):
            x2, z2, r2 = conj_named((x,), (z,), 0, 0, name)
            assert np.allclose(U @ R.pauli([x], [z]) @ U.conj().T, R.pauli(x2, z2, r2)), (name, x, z)
    return True


# ------------------------------------------------------------------ graphs / orbits / isomorphism
def key(A):
    return tuple(int(v) for v in np.array(A).astype(int).flatten())


def unkey(k):
    n = int(round(len(k) ** 0.5))
    return np.array(k, dtype=int).reshape(n, n)


_ORBITS = {}


def orbit_of(A):
    """LC orbit (set of keys) of A, cached per process"""
    k = key(A)
    o = _ORBITS.get(k)
    if o is None:
        o = frozenset(R.lc_orbit(np.array(A, dtype=int)))
        for kk in o:
            _ORBITS[kk] = o
    return o


def same_orbit(A, B):
    return key(B) in orbit_of(A)


def apply_lc_sequence(A, seq):
    A = np.array(A, dtype=int)
    for v in seq:
        A = R.local_complement(A, int(v))
    return A


def is_simple_adj(M, n):
    M = np.array(M)
    return M.shape == (n, n) and np.all((M == 0) | (M == 1)) and np.array_equal(M, M.T) and not np.any(np.diag(M))


def relabelled(A, perm):
    """graph with edge (perm[u], perm[v]) exactly when A has (u, v)"""
    A = np.array(A, dtype=int)
    n = len(A)
    B = np.zeros((n, n), dtype=int)
    for u in range(n):
        for v in range(n):
            B[perm[u], perm[v]] = A[u, v]
    return B


def isomorphic(A, B):
    """brute force over all permutations (n <= 7)"""
    A = np.array(A, dtype=int)
    B = np.array(B, dtype=int)
    n = len(A)
    if B.shape != A.shape or A.sum() != B.sum():
        return False
    if sorted(A.sum(axis=0)) != sorted(B.sum(axis=0)):
        return False
    for p in itertools.permutations(range(n)):
        if np.array_equal(A[np.ix_(p, p)], B):
            return True
    return False


def connected_graphs(n):
    return [A for A in R.all_graphs(n) if R.is_connected(A)]


def graph_from_index(n, idx):
    """the idx-th labelled graph on n vertices (bits of idx = edges in combinations order)"""
    pairs = list(itertools.combinations(range(n), 2))
    A = np.zeros((n, n), dtype=int)
    for b, (i, j) in enumerate(pairs):
        if (idx >> b) & 1:
            A[i, j] = A[j, i] = 1
    return A


def find_isomorphism(A, B):
    """a vertex map m (list, m[u] = image of u) with B[m[u], m[v]] == A[u, v] for all u, v, or None.
    Plain backtracking with degree pruning (independent of networkx); fine for n <= 10."""
    A = np.array(A, dtype=int)
    B = np.array(B, dtype=int)
    n = len(A)
    if A.shape != B.shape:
        return None
    dA = A.sum(axis=0)
    dB = B.sum(axis=0)
    if sorted(dA) != sorted(dB):
        return None
    order = sorted(range(n), key=lambda u: -dA[u])
    m = [-1] * n
    used = [False] * n

    def rec(k):
        if k == n:
            return True
        u = order[k]
        for w in range(n):
            if used[w] or dB[w] != dA[u]:
                continue
            if all(A[u, order[j]] == B[w, m[order[j]]] for j in range(k)):
                m[u] = w
                used[w] = True
                if rec(k + 1):
                    return True
                used[w] = False
                m[u] = -1
        return False

    return list(m) if rec(0) else None


def is_isomorphism(A, B, m):
    """m (indexable by 0..n-1) is a bijection of the vertices with B[m[u], m[v]] == A[u, v] for all u, v"""
    A = np.array(A, dtype=int)
    B = np.array(B, dtype=int)
    n = len(A)
    try:
        img = [int(m[u]) for u in range(n)]
    except (KeyError, IndexError, TypeError, ValueError):
        return False
    if sorted(img) != list(range(n)):
        return False
    return all(A[u, v] == B[img[u], img[v]] for u in range(n) for v in range(n))


def repeater_graph(m, perm=None):
    """repeater graph state with m core vertices 0..m-1 (complete graph) and leaf m+i attached to core i; optionally relabelled"""
    n = 2 * m
    A = np.zeros((n, n), dtype=int)
    for i in range(m):
        for j in range(i + 1, m):
            A[i, j] = A[j, i] = 1
        A[i, m + i] = A[m + i, i] = 1
    return A if perm is None else relabelled(A, perm)


def path_graph(n, perm=None):
    A = np.zeros((n, n), dtype=int)
    for i in range(n - 1):
        A[i, i + 1] = A[i + 1, i] = 1
    return A if perm is None else relabelled(A, perm)
