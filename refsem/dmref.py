"""Independent reference values for density-matrix quantities (imports nothing from graphiq).

  * Uhlmann fidelity F(rho,sigma) = (Tr sqrt( sqrt(rho) sigma sqrt(rho) ))^2 computed three ways
      - uhlmann_sqrtm : scipy.linalg.sqrtm (Schur) on both square roots
      - uhlmann_eigs  : (sum_i sqrt(lambda_i(rho sigma)))^2, eigenvalues of the (non-Hermitian) product
      - uhlmann_factors: || A^dagger B ||_1^2 for rho = A A^dagger, sigma = B B^dagger (SVD; well conditioned for
                         rank-deficient states because no square root of a numerically-zero eigenvalue is taken)
  * trace distance = half the sum of singular values of rho - sigma (SVD, not eigh)
  * deterministic families of test states (described by small JSON-able specs)
"""
from __future__ import annotations

import itertools

import numpy as np
import scipy.linalg as sl

from . import core


def uhlmann_sqrtm(rho, sigma):
    sr = sl.sqrtm(rho)
    M = sr @ sigma @ sr
    M = (M + M.conj().T) / 2
    w = np.linalg.eigvalsh(M)
    return float(np.sum(np.sqrt(np.clip(w, 0, None))) ** 2)


def uhlmann_eigs(rho, sigma):
    w = np.linalg.eigvals(rho @ sigma)
    return float(np.sum(np.sqrt(np.clip(w.real, 0, None))) ** 2)


def factor(rho, tol=1e-12):
    """A with rho = A A^dagger (columns = sqrt(eigenvalue) * eigenvector, numerically-zero eigenvalues dropped)"""
    w, V = np.linalg.eigh((rho + rho.conj().T) / 2)
    keep = w > tol
    return V[:, keep] * np.sqrt(w[keep])


def uhlmann_factors(A, B):
    s = np.linalg.svd(A.conj().T @ B, compute_uv=False)
    return float(np.sum(s) ** 2)


def trace_distance(rho, sigma):
    s = np.linalg.svd(rho - sigma, compute_uv=False)
    return float(0.5 * np.sum(s))


def purity(rho):
    return float(np.real(np.trace(rho @ rho)))


# ------------------------------------------------------------------ state families
#  spec (JSON-able)                                  meaning
#  ["stab", n, k]                                    k-th stabilizer state of refsem.f_stab.all_stabilizer_states(n)
#  ["diag", n, [i1,..,ir]]                           uniform mixture of the computational states i1..ir
#  ["dep", spec, p]                                  (1-p) state(spec) + p I/d
#  ["rand", n, rank, cplx(0/1), seed]                A A^dagger / Tr, A = d x rank Ginibre (real or complex), rng(seed)
#  ["randpure", n, cplx, seed]                       rank-1 version
#  ["mix", [[w1, spec1], [w2, spec2], ...]]          convex combination (weights normalised)
#  ["rot", spec, seed]                               U state U^dagger, U Haar-ish (QR of complex Ginibre), rng(seed)

_STAB_CACHE = {}


def stab_states(n):
    if n not in _STAB_CACHE:
        from . import f_stab

        _STAB_CACHE[n] = f_stab.all_stabilizer_states(n)
    return _STAB_CACHE[n]


def build(spec):
    """returns (rho, A, n) with rho = A A^dagger exactly by construction (A is the 'factor' used by uhlmann_factors)"""
    kind = spec[0]
    if kind == "stab":
        n, k = spec[1], spec[2]
        v = stab_states(n)[k][0]
        A = v.reshape(-1, 1)
        return A @ A.conj().T, A, n
    if kind == "diag":
        n, idx = spec[1], spec[2]
        d = 2**n
        A = np.zeros((d, len(idx)), dtype=complex)
        for c, i in enumerate(idx):
            A[i, c] = 1 / np.sqrt(len(idx))
        return A @ A.conj().T, A, n
    if kind == "dep":
        rho, A, n = build(spec[1])
        p = spec[2]
        d = 2**n
        rho2 = (1 - p) * rho + p * np.eye(d) / d
        A2 = np.hstack([np.sqrt(1 - p) * A, np.sqrt(p / d) * np.eye(d)])
        return rho2, A2, n
    if kind == "rand":
        n, rank, cplx, seed = spec[1], spec[2], spec[3], spec[4]
        rng = np.random.default_rng(seed)
        d = 2**n
        A = rng.normal(size=(d, rank)).astype(complex)
        if cplx:
            A = A + 1j * rng.normal(size=(d, rank))
        A = A / np.sqrt(np.real(np.trace(A @ A.conj().T)))
        return A @ A.conj().T, A, n
    if kind == "randpure":
        return build(["rand", spec[1], 1, spec[2], spec[3]])
    if kind == "mix":
        parts = [(w, build(s)) for w, s in spec[1]]
        tot = sum(w for w, _ in parts)
        n = parts[0][1][2]
        rho = sum((w / tot) * b[0] for w, b in parts)
        A = np.hstack([np.sqrt(w / tot) * b[1] for w, b in parts])
        return rho, A, n
    if kind == "rot":
        rho, A, n = build(spec[1])
        rng = np.random.default_rng(spec[2])
        d = 2**n
        G = rng.normal(size=(d, d)) + 1j * rng.normal(size=(d, d))
        Q, R = np.linalg.qr(G)
        Q = Q * (np.diag(R) / np.abs(np.diag(R)))
        A2 = Q @ A
        return A2 @ A2.conj().T, A2, n
    raise ValueError(spec)


def is_pure_spec(spec):
    rho, A, n = build(spec)
    return abs(purity(rho) - 1) < 1e-12


def selftest():
    rng = np.random.default_rng(0)
    # the three Uhlmann oracles agree on well-conditioned full-rank states; closed form for commuting states
    for s in range(30):
        a = build(["rand", 2, 4, 1, s])
        b = build(["rand", 2, 4, 1, 1000 + s])
        f1, f2, f3 = uhlmann_sqrtm(a[0], b[0]), uhlmann_eigs(a[0], b[0]), uhlmann_factors(a[1], b[1])
        assert abs(f1 - f2) < 1e-9 and abs(f1 - f3) < 1e-9, (f1, f2, f3)
    p = np.array([0.7, 0.3]); q = np.array([0.4, 0.6])
    f = uhlmann_factors(np.diag(np.sqrt(p)).astype(complex), np.diag(np.sqrt(q)).astype(complex))
    assert abs(f - np.sum(np.sqrt(p * q)) ** 2) < 1e-12
    assert abs(trace_distance(np.diag(p), np.diag(q)) - 0.3) < 1e-12
    # pure states: overlap
    a = build(["randpure", 2, 1, 5]); b = build(["rand", 2, 3, 1, 6])
    v = a[1][:, 0]
    assert abs(uhlmann_factors(a[1], b[1]) - np.real(np.vdot(v, b[0] @ v))) < 1e-12
    return True
