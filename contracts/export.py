"""C14 - deductive contracts on the export / import path (token level for openQASM, structural for JSON).

REAL bodies interpreted (pyvc), symbolic register numbers:
  * openqasm_lib.OpenQASMInfo.use_gate + every `*_info().usage` closure reached through `Op.openqasm_info()`:
    the emitted statement, read as a TOKEN sequence (whitespace-insensitive; a register reference `<type letter><number>` is
    one token whose number is the symbolic register), is the standard openQASM 2.0 statement for that operation on the right
    registers - f-strings through the opt-in token-string model `pyvc/tokstr.py` ([A] f"{n}" is the decimal numeral of n).
  * openqasm_lib.single_qubit_wrapper_info(op_list): the generated definition, evaluated with the openQASM 2.0 reference
    semantics of lemmas/qasm_exact.py (body statements act top to bottom; U / CX built-ins; exact arithmetic), must denote the
    wrapper's unitary g1.g2...gk (graphiq: last listed gate acts first; C20) up to a global phase; component definitions
    precede the composite one; usage applies the defined name to the wrapper's register.
  * CircuitDAG.to_json (per operation): the dict carries type / q_registers / q_registers_type / c_registers unchanged and
    a type name that name_to_class_map maps back to the operation's class (wrappers: the op_list names, in order).
  * CircuitDAG.from_json o to_json (per operation): the operation handed to circuit.add has the same class, registers,
    register types, classical registers and ROLE attributes (register/reg_type, control/target(+_type), c_register).
    CircuitDAG construction / add / sequence are recorder contracts here (their own contracts: C12).
  * CircuitBase.to_openqasm: emission loop by induction over an abstract sequence() - see `emission_tasks`.
[N] for deduction: CircuitDAG.from_openqasm (regex / slicing / int() over text): bounded stand-in only.
"""
from __future__ import annotations

import itertools
import re

import z3

from pyvc import source, tokstr
from pyvc.contract import Contract
from pyvc.interp import RaiseEx, Undecided, PathEnd
from pyvc.trace import recorder, Token, same
from pyvc.values import Obj, ClsRef, FuncRef, Closure, is_sym, to_z3
from . import compile_stab as CS
from .ops_clifford import PostTask, OPS, NM, OQ, noise_instantiate_hook, wrapper_contracts, ONE_QUBIT

DAG = "graphiq.circuit.circuit_dag"
BASE = "graphiq.circuit.circuit_base"
USE = f"{OQ}:OpenQASMInfo.use_gate"
WRAP = f"{OQ}:single_qubit_wrapper_info"
TO_JSON = f"{DAG}:CircuitDAG.to_json"
FROM_JSON = f"{DAG}:CircuitDAG.from_json"
TO_QASM = f"{BASE}:CircuitBase.to_openqasm"
INLINE = {f"{OPS}:*", f"{OQ}:*"}

ONE = ["Hadamard", "Phase", "PhaseDagger", "SigmaX", "SigmaY", "SigmaZ", "Identity"]
TWO = ["CNOT", "CZ"]
CLASSICAL = ["ClassicalCNOT", "ClassicalCZ", "MeasurementCNOTandReset"]
MEAS = ["MeasurementZ"]
STD_NAME = {"Hadamard": "h", "Phase": "s", "PhaseDagger": "sdg", "SigmaX": "x", "SigmaY": "y", "SigmaZ": "z", "CNOT": "CX", "CZ": "cz"}


def atoms(with_io=False):
    """(class name, register-type mix) for every operation kind of the property's quantifier"""
    out = []
    for k in ONE + MEAS + (["Input", "Output"] if with_io else []):
        out += [(k, (t,)) for t in "ep"]
    for k in TWO + CLASSICAL:
        out += [(k, (a, b)) for a in "ep" for b in "ep"]
    return out


def syms_for(kind, types):
    s = dict(r=z3.Int("reg"), c=z3.Int("ctrl"), t=z3.Int("targ"), creg=z3.Int("creg"))
    if len(types) == 1:
        s["rt"] = types[0]
    else:
        s["ct"], s["tt"] = types
    return s


def make_op(I, kind, types):
    s = syms_for(kind, types)
    for v in (s["r"], s["c"], s["t"], s["creg"]):
        I.path.assume(v >= 0)
    op = CS.make_op(I, kind, s)
    return op, s


# =============================================================================================
# token level
# =============================================================================================

TOKEN_RE = re.compile(r"[A-Za-z_][A-Za-z0-9_]*|\d+|->|==|[^\sA-Za-z0-9_]")


def tokenize(text):
    """str | TokStr -> list of tokens; a symbolic number glued to a preceding identifier forms one token (ident, term)"""
    parts = text.parts if isinstance(text, tokstr.TokStr) else (text,)
    toks = []
    glue = False  # previous str part ended inside a word
    for p in parts:
        if isinstance(p, str):
            ts = TOKEN_RE.findall(p)
            if glue and ts and p[:1].isalnum():
                raise Undecided("symbolic number followed by word characters")
            toks.extend(ts)
            glue = bool(p) and (p[-1].isalnum() or p[-1] == "_")
        else:
            if glue and toks and re.fullmatch(r"[A-Za-z_][A-Za-z0-9_]*", toks[-1]):
                toks[-1] = (toks[-1], p)
            else:
                toks.append(("", p))
            glue = False
    return toks


def tokens_equal(a, b):
    if len(a) != len(b):
        return False
    conj = []
    for x, y in zip(a, b):
        if isinstance(x, tuple) != isinstance(y, tuple):
            return False
        if isinstance(x, tuple):
            if x[0] != y[0]:
                return False
            conj.append(to_z3(x[1]) == to_z3(y[1]))
        elif x != y:
            return False
    return z3.And(*conj) if conj else True


def ref(t, n):
    return [(t, n), "[", "0", "]"]


def std_statement(kind, types, s):
    """the standard openQASM 2.0 text (as tokens) of one operation - the specification"""
    if kind in ("Identity", "Input", "Output"):
        return []
    if kind in STD_NAME and len(types) == 1:
        return [STD_NAME[kind]] + ref(types[0], s["r"]) + [";"]
    if kind in TWO:
        return [STD_NAME[kind]] + ref(types[0], s["c"]) + [","] + ref(types[1], s["t"]) + [";"]
    if kind == "MeasurementZ":
        return ["measure"] + ref(types[0], s["r"]) + ["->"] + ref("c", s["creg"]) + [";"]
    if kind in CLASSICAL:
        g = "z" if kind == "ClassicalCZ" else "x"
        out = ["measure"] + ref(types[0], s["c"]) + ["->"] + ref("c", s["creg"]) + [";"]
        out += ["if", "(", ("c", s["creg"]), "==", "1", ")", g] + ref(types[1], s["t"]) + [";"]
        if kind == "MeasurementCNOTandReset":
            out += ["barrier", (types[0], s["c"]), ",", (types[1], s["t"]), ";", "reset"] + ref(types[0], s["c"]) + [";"]
        return out
    raise KeyError(kind)


HOOKS = {"instantiate": noise_instantiate_hook, "fstring": tokstr.fstring_hook}


def usage_tasks(swap_canary=False):
    T = []
    for kind, types in (atoms(with_io=True) if not swap_canary else [("CNOT", ("e", "p"))]):
        def mk(I, kind=kind, types=types):
            op, s = make_op(I, kind, types)
            I.path.ghost["s"] = s
            info = I.call(I.getattr(op, "openqasm_info"), [], {})
            I.path.ghost["info"] = info
            return [info, I.getattr(op, "q_registers"), I.getattr(op, "q_registers_type"), I.getattr(op, "c_registers")]

        def post(I, ret, info, q, t, c, kind=kind, types=types):
            s = dict(I.path.ghost["s"])
            if swap_canary:
                s["c"], s["t"] = s["t"], s["c"]
            want = std_statement(kind, types, s)
            ok = isinstance(ret, (str, tokstr.TokStr))
            I.ob("emits-text", ok)
            if ok:
                I.ob("is-the-standard-statement-on-the-right-registers", tokens_equal(tokenize(ret), want))
            multi = kind in CLASSICAL
            I.ob("multi_comp-flag", info.fields.get("multi_comp") is multi)

        lab = f"{'canary.swapped-operands.' if swap_canary else ''}use_gate[{kind},{''.join(types)}]"
        T.append(PostTask(USE, mk, post, {}, inline=INLINE, label=lab, hooks=HOOKS,
                          clause=f"openQASM statement emitted for {kind} = standard gate name on the right registers (token level)",
                          replay=usage_replay(kind, types, swap_canary)))
    return T


def native_op(kind, types, regs):
    import graphiq.circuit.ops as ops

    K = getattr(ops, kind)
    if kind in ("Input", "Output") or kind in ONE:
        return K(register=regs["r"], reg_type=types[0])
    if kind in TWO:
        return K(control=regs["c"], control_type=types[0], target=regs["t"], target_type=types[1])
    if kind in CLASSICAL:
        return K(control=regs["c"], control_type=types[0], target=regs["t"], target_type=types[1], c_register=regs["creg"])
    return K(register=regs["r"], reg_type=types[0], c_register=regs["creg"])


def concrete_tokens(kind, types, regs):
    want = std_statement(kind, types, {k: z3.IntVal(v) for k, v in regs.items()})
    return [(x[0] + str(x[1])) if isinstance(x, tuple) else x for x in want]


def native_tokens(text):
    return TOKEN_RE.findall(text)


def usage_replay(kind, types, swap=False):
    def replay(r):
        regs = dict(r=12, c=3, t=10, creg=11)
        op = native_op(kind, types, regs)
        text = op.openqasm_info().use_gate(op.q_registers, op.q_registers_type, op.c_registers)
        w = dict(regs)
        if swap:
            w["c"], w["t"] = w["t"], w["c"]
        want = concrete_tokens(kind, types, w)
        return {"function": USE, "args": {"op": kind, "types": list(types), "registers": regs}, "actual": text,
                "expected_tokens": want}, native_tokens(text) != want

    return replay


# =============================================================================================
# single_qubit_wrapper_info
# =============================================================================================

def wrapper_text_semantics(names, info_fields, reverse=False):
    """-> (ok, detail): does the exported definition denote g1.g2...gk up to phase? (exact, reference semantics)
    reverse=True (canary): ... denote gk...g2.g1"""
    from lemmas import qasm_exact as QE, q8
    from lemmas.clifford_group import TEXTBOOK

    book = dict(TEXTBOOK)
    book["PhaseDagger"] = q8.dagger(TEXTBOOK["Phase"])
    want = book["Identity"]
    for n in (reversed(names) if reverse else names):
        want = q8.mm(want, book[n])
    gate_name = info_fields["gate_name"]
    if gate_name == "":
        got = book["Identity"]
        calls = []
    else:
        D = QE.Defs()
        for t in info_fields["definitions"]:
            D.add_text(t)
        got = D.matrix(gate_name)
        calls = D.body_calls(gate_name)
    return QE.equivalent(got, want), calls


def wrapper_case(names, reverse=False):
    def mk(I):
        return [[I.get_class(OPS, n) for n in names]]

    def post(I, ret, op_list):
        ok = isinstance(ret, Obj) and ret.cls.name == "OpenQASMInfo"
        I.ob("returns-OpenQASMInfo", ok)
        if not ok:
            return
        f = ret.fields
        defs = f.get("definitions")
        okd = isinstance(defs, list) and all(isinstance(d, str) for d in defs) and isinstance(f.get("gate_name"), str)
        I.ob("definitions-are-text", okd)
        if not okd:
            return
        try:
            sem, calls = wrapper_text_semantics(names, f, reverse)
        except Exception as e:  # noqa: BLE001 - reference semantics cannot read the text: undecided, never a verdict
            raise Undecided(f"reference openQASM semantics: {type(e).__name__}: {e}")
        I.ob("exported-definition-denotes-the-wrapper-unitary(g1.g2...gk, last listed gate first)", bool(sem))
        # every gate the composite body calls is defined earlier in the definitions list
        if f["gate_name"]:
            from lemmas import qasm_exact as QE

            D = QE.Defs()
            for t in defs:
                D.add_text(t)
            pos = {n: k for k, n in enumerate(D.order)}
            I.ob("called-gates-are-defined-before-the-composite",
                 f["gate_name"] in pos and all(c in pos and pos[c] <= pos[f["gate_name"]] for c in calls if c not in ("U", "CX")))
        # usage: applies the defined name to the register (symbolic)
        r = I.path.fresh("reg")
        I.path.assume(r >= 0)
        for rt in "ep":
            text = I.call(f["usage"], [(r,), (rt,), ()], {})
            want = [] if f["gate_name"] == "" else [f["gate_name"]] + ref(rt, r) + [";"]
            I.ob(f"usage-applies-the-defined-gate-to-the-register[{rt}]",
                 isinstance(text, (str, tokstr.TokStr)) and tokens_equal(tokenize(text), want))
        I.ob("single-block", f.get("multi_comp") is False)

    def replay(r):
        import graphiq.circuit.ops as ops
        import graphiq.utils.openqasm_lib as oq

        info = oq.single_qubit_wrapper_info([getattr(ops, n) for n in names])
        sem, calls = wrapper_text_semantics(names, {"gate_name": info.gate_name, "definitions": info.definitions}, reverse)
        return {"function": WRAP, "args": {"op_list": names}, "actual": {"gate_name": info.gate_name, "definition": info.definitions[-1],
                                                                         "body applies (top to bottom)": calls},
                "expected": "body applies " + " then ".join(STD_NAME[n] for n in reversed(names) if n in STD_NAME)
                            + " (the last listed gate acts first)"}, not sem

    return (".".join(names), mk, post, replay)


def wrapper_task(names, prefix="", reverse=False):
    label, mk, post, replay = wrapper_case(names, reverse)
    return PostTask(WRAP, mk, post, {}, inline=INLINE, label=f"{prefix}single_qubit_wrapper_info[{label}]", hooks=HOOKS, replay=replay,
                    clause="the exported gate definition, read with openQASM 2.0 semantics (statements top to bottom), denotes the "
                           "wrapper's unitary g1.g2...gk up to phase; components defined first; usage on the wrapper's register")


def wrapper_tasks():
    from .ops_clifford import LIBRARY

    T = [wrapper_task(l) for l in LIBRARY]
    lib = {tuple(l) for l in LIBRARY}
    rest = [list(t) for n in (1, 2, 3) for t in itertools.product(ONE_QUBIT, repeat=n) if tuple(t) not in lib]
    t = PostTask(WRAP, None, None, {}, inline=INLINE, label="single_qubit_wrapper_info[all other lists of length 1..3 over 7 classes]",
                 hooks=HOOKS, clause=f"as above, {len(rest)} gate lists (first failing list in the detail)")
    t.cases = [wrapper_case(w) for w in rest]
    T.append(t)
    return T


# =============================================================================================
# JSON
# =============================================================================================

def circuit_contracts():
    C = dict(wrapper_contracts())
    for p in ("n_photons", "n_emitters", "n_classical"):
        q = f"{BASE}:CircuitBase.{p}"
        C[q] = Contract(q, spec=(lambda p: (lambda I, self: self.fields["ghost_" + p]))(p), clause=f"abstract circuit: {p}")
    q = f"{DAG}:CircuitDAG.sequence"
    C[q] = Contract(q, spec=lambda I, self, unwrapped=False: list(self.fields["ghost_sequence"]), clause="abstract circuit: sequence()")
    q = f"{DAG}:CircuitDAG.add"
    C[q] = recorder(q, "add")
    return C


def circuit_instantiate_hook(I, cls, args, kwargs):
    if cls.module == NM:
        return Obj(cls)
    if cls.name == "CircuitDAG":
        o = Obj(cls)
        o.fields["ghost_ctor"] = dict(kwargs)
        I.path.trace.append({"name": "CircuitDAG", "args": list(args), "kwargs": dict(kwargs), "self": None, "ret": o})
        return o
    return NotImplemented


def call_none_hook(I, f, args, kwargs):
    if f is None:
        raise RaiseEx("TypeError", "'NoneType' object is not callable")
    return NotImplemented


JSON_HOOKS = {"instantiate": circuit_instantiate_hook, "call": call_none_hook}


def abstract_circuit(I, ops_seq):
    c = Obj(I.get_class(DAG, "CircuitDAG"))
    n_p, n_e, n_c = z3.Int("n_p"), z3.Int("n_e"), z3.Int("n_c")
    c.fields.update(ghost_n_photons=n_p, ghost_n_emitters=n_e, ghost_n_classical=n_c)
    inp = I.instantiate(I.get_class(OPS, "Input"), [], {"register": 0, "reg_type": "e"})
    out = I.instantiate(I.get_class(OPS, "Output"), [], {"register": 0, "reg_type": "e"})
    c.fields["ghost_sequence"] = [inp] + list(ops_seq) + [out]
    return c


def json_atoms():
    from .ops_clifford import LIBRARY

    A = [(k, t, None) for k, t in atoms()]
    wl = [[n] for n in ONE_QUBIT] + [["Hadamard", "PhaseDagger"], ["SigmaX", "Hadamard"], ["Identity", "Identity", "Hadamard"]]
    for w in LIBRARY + wl:
        for t in "ep":
            A.append(("OneQubitGateWrapper", (t,), list(w)))
    return A


def make_json_op(I, kind, types, wl):
    if kind != "OneQubitGateWrapper":
        return make_op(I, kind, types)
    s = syms_for(kind, types)
    I.path.assume(s["r"] >= 0)
    op = I.instantiate(I.get_class(OPS, "OneQubitGateWrapper"), [[I.get_class(OPS, n) for n in wl]],
                       {"register": s["r"], "reg_type": types[0]})
    return op, s


def atom_label(kind, types, wl):
    return f"{kind}{'(' + '.'.join(wl) + ')' if wl else ''},{''.join(types)}"


def strip_identity(names):
    return [n for n in names if n != "Identity"]


def role_fields(kind):
    if kind in ONE or kind == "OneQubitGateWrapper":
        return ["register", "reg_type"]
    if kind in TWO:
        return ["control", "control_type", "target", "target_type"]
    if kind in CLASSICAL:
        return ["control", "control_type", "target", "target_type", "c_register"]
    return ["register", "reg_type", "c_register"]


def call_real(I, qual, args):
    m, node, cls = source.find(qual)
    return I.call_function(FuncRef(m.name, node, qual, I.get_class(m.name, cls.name) if cls is not None else None), list(args), {},
                           force_body=True)


def to_json_tasks():
    """one task per operation kind; its cases are the register-type mixes (to_json passes the types through unchanged)"""
    C = circuit_contracts()
    groups = {}
    for kind, types, wl in json_atoms():
        groups.setdefault((kind, tuple(wl) if wl else None), []).append(types)
    T = []
    for (kind, wl), mixes in groups.items():
        wl = list(wl) if wl else None
        cases = []
        for types in mixes:
            def mk(I, kind=kind, types=types, wl=wl):
                op, s = make_json_op(I, kind, types, wl)
                I.path.ghost.update(op=op, s=s)
                return [abstract_circuit(I, [op])]

            def post(I, ret, circ, kind=kind, types=types, wl=wl):
                op = I.path.ghost["op"]
                ok = isinstance(ret, dict) and isinstance(ret.get("ops"), list)
                I.ob("dict-with-ops", ok)
                if not ok:
                    return
                I.ob("register-counts", all(is_sym(ret.get(k)) and ret.get(k).eq(circ.fields["ghost_" + k])
                                            for k in ("n_photons", "n_emitters", "n_classical")))
                I.ob("one-entry-per-operation(io-skipped)", len(ret["ops"]) == 1)
                if len(ret["ops"]) != 1:
                    return
                d = ret["ops"][0]
                I.ob("q_registers-passed-through", same(d.get("q_registers"), op.fields["_q_registers"]))
                I.ob("c_registers-passed-through", same(d.get("c_registers"), op.fields["_c_registers"]))
                I.ob("q_registers_type-passed-through", d.get("q_registers_type") == op.fields["_q_registers_type"])
                if kind == "OneQubitGateWrapper":
                    I.ob("type", d.get("type") == "one qubit gate wrapper")
                    names = d.get("op_list")
                    back = [call_real(I, f"{OPS}:name_to_class_map", [n]) for n in names] if isinstance(names, list) else None
                    I.ob("op_list-names-map-back-to-the-wrapped-classes(identity-erased)",
                         back is not None and all(isinstance(b, ClsRef) for b in back)
                         and strip_identity([b.name for b in back]) == strip_identity(wl) and len(back) >= 1)
                else:
                    back = call_real(I, f"{OPS}:name_to_class_map", [d.get("type")])
                    I.ob("type-name-maps-back-to-the-class", back is op.cls)

            cases.append(("".join(types), mk, post, json_replay(kind, types, wl)))
        t = PostTask(TO_JSON, None, None, C, inline=INLINE, label=f"to_json[{kind}{'(' + '.'.join(wl) + ')' if wl else ''}]", hooks=JSON_HOOKS,
                     clause="per-operation dict: registers unchanged; the type name is one that name_to_class_map maps back "
                            f"[register-type mixes: {', '.join(''.join(m) for m in mixes)}]")
        t.cases = cases
        T.append(t)
    return T


def roundtrip_tasks(canary=False):
    C = circuit_contracts()
    T = []
    todo = json_atoms() if not canary else [("CNOT", ("e", "e"), None)]
    for kind, types, wl in todo:
        def mk(I, kind=kind, types=types, wl=wl):
            op, s = make_json_op(I, kind, types, wl)
            circ = abstract_circuit(I, [op])
            I.path.trace = []
            data = call_real(I, TO_JSON, [circ])
            I.path.ghost.update(op=op, s=s, circ=circ)
            return [I.get_class(DAG, "CircuitDAG"), data]

        def post(I, ret, cls, data, kind=kind, types=types, wl=wl):
            op, circ = I.path.ghost["op"], I.path.ghost["circ"]
            tr = I.path.trace
            ctor = [e for e in tr if e["name"] == "CircuitDAG"]
            adds = [e for e in tr if e["name"] == "add"]
            I.ob("builds-one-circuit-with-the-same-register-counts",
                 len(ctor) == 1 and ret is ctor[0]["ret"] and not ctor[0]["args"]
                 and all(is_sym(ctor[0]["kwargs"].get(a)) and ctor[0]["kwargs"][a].eq(circ.fields["ghost_" + b])
                         for a, b in (("n_photon", "n_photons"), ("n_emitter", "n_emitters"), ("n_classical", "n_classical"))))
            I.ob("adds-one-operation", len(adds) == 1 and (not ctor or adds[0]["self"] is ctor[0]["ret"]))
            if len(adds) != 1:
                return
            g = adds[0]["args"][0]
            okc = isinstance(g, Obj) and g.cls is op.cls
            I.ob("class", okc)
            if not okc:
                return
            s = I.path.ghost["s"]
            q_exp = op.fields["_q_registers"]
            if canary:
                q_exp = tuple(reversed(q_exp))
            I.ob("q_registers", same(g.fields.get("_q_registers"), q_exp))
            I.ob("q_registers_type+c_registers", g.fields.get("_q_registers_type") == op.fields["_q_registers_type"]
                 and same(g.fields.get("_c_registers"), op.fields["_c_registers"]) is not False)
            I.ob("c_registers", same(g.fields.get("_c_registers"), op.fields["_c_registers"]))
            for f in role_fields(kind):
                I.ob(f"role-attribute.{f}", same(g.fields.get(f), op.fields.get(f)))
            if kind == "OneQubitGateWrapper":
                I.ob("wrapped-gate-list(identity-erased)",
                     strip_identity([c.name for c in g.fields.get("operations", [])]) == strip_identity(wl))
            I.ob("fresh-object", g is not op)

        lab = f"{'canary.swapped-registers.' if canary else ''}from_json(to_json)[{atom_label(kind, types, wl)}]"
        T.append(PostTask(FROM_JSON, mk, post, C, inline=INLINE, label=lab, hooks=JSON_HOOKS,
                          clause="JSON round trip per operation: class, registers, register types, classical registers and role "
                                 "attributes preserved; same register counts",
                          replay=json_replay(kind, types, wl, canary)))
    return T


def json_replay(kind, types, wl, canary=False):
    def replay(r):
        import graphiq.circuit.ops as ops
        from graphiq.circuit.circuit_dag import CircuitDAG

        regs = dict(r=11, c=3, t=10, creg=9)
        if kind == "OneQubitGateWrapper":
            op = ops.OneQubitGateWrapper([getattr(ops, n) for n in wl], register=regs["r"], reg_type=types[0])
        else:
            op = native_op(kind, types, regs)
        c = CircuitDAG(n_emitter=12, n_photon=12, n_classical=12)
        c.add(op)
        wit = {"function": FROM_JSON, "args": {"operation": atom_label(kind, types, wl), "registers": regs}}
        try:
            d = c.to_json()
            wit["json_op"] = d["ops"]
            c2 = CircuitDAG.from_json(d)
            got = [o for o in c2.sequence() if not isinstance(o, ops.InputOutputOperationBase)]
        except Exception as e:  # noqa: BLE001
            wit["actual"] = f"raises {type(e).__name__}: {e}"
            return wit, True
        bad = []
        if len(got) != 1 or type(got[0]) is not type(op):
            bad.append(f"operations {[type(o).__name__ for o in got]}")
        else:
            g = got[0]
            q_exp = tuple(reversed(op.q_registers)) if canary else tuple(op.q_registers)
            if tuple(g.q_registers) != q_exp or tuple(g.q_registers_type) != tuple(op.q_registers_type) or tuple(g.c_registers) != tuple(op.c_registers):
                bad.append(f"registers {g.q_registers} {g.q_registers_type} {g.c_registers}")
            for f in role_fields(kind):
                if getattr(g, f) != getattr(op, f):
                    bad.append(f"{f}: {getattr(g, f)!r} != {getattr(op, f)!r}")
            if kind == "OneQubitGateWrapper" and strip_identity([k.__name__ for k in g.operations]) != strip_identity(wl):
                bad.append(f"operations {[k.__name__ for k in g.operations]}")
        wit["actual"] = bad or "round trip preserves the operation"
        return wit, bool(bad)

    return replay


# =============================================================================================
# [F] complete finite domains evaluated natively
# =============================================================================================

def finite_obligations():
    import time
    from vf.core import Obl

    out = []

    def add(name, fn, func, clause, backend="exact"):
        t0 = time.time()
        try:
            bad = fn()
            st, det = ("discharged", "") if not bad else ("refuted", str(bad)[:1500])
        except Exception as e:  # noqa: BLE001
            st, det, bad = "undecided", f"{type(e).__name__}: {e}", None
        out.append(Obl(name=name, function=func, status=st, kind="F", backend=backend, ms=(time.time() - t0) * 1000, detail=det,
                       clause=clause, witness={"failing_inputs": bad} if st == "refuted" else None, replayed=st == "refuted"))

    import graphiq.circuit.ops as ops

    classes = ONE + TWO + CLASSICAL + MEAS
    for k in classes:
        K = getattr(ops, k)

        def inv(K=K, k=k):
            n = ops.class_to_name_mapping(K)
            back = ops.name_to_class_map(n)
            return [] if back is K else [{"class": k, "class_to_name_mapping": n,
                                         "name_to_class_map(name)": getattr(back, "__name__", back)}]

        add(f"C14.F.json-tables.inverse[{k}]", inv, f"{OPS}:class_to_name_mapping",
            f"name_to_class_map(class_to_name_mapping({k})) is {k}")

    def names_back():
        bad = []
        for n in ["CX", "cx", "x", "y", "z", "h", "s", "p", "cz", "classical x", "classical z", "classical reset x"]:
            K = ops.name_to_class_map(n)
            if K is None:
                bad.append({"name": n, "class": None})
                continue
            n2 = ops.class_to_name_mapping(K)
            if ops.name_to_class_map(n2) is not K:
                bad.append({"name": n, "class": K.__name__, "class_to_name_mapping": n2})
        return bad

    add("C14.F.json-tables.names-map-to-classes-that-map-back", names_back, f"{OPS}:name_to_class_map",
        "every name the importer knows denotes a class whose exported name denotes the same class (aliases allowed)")

    # standard definitions: the text `gate <name> ... { U(...) ...; }` denotes the textbook matrix (exact reference semantics)
    def definitions():
        from lemmas import qasm_exact as QE, q8
        from lemmas.clifford_group import TEXTBOOK

        book = {k: TEXTBOOK[k] for k in ("Hadamard", "Phase", "SigmaX", "SigmaY", "SigmaZ")}
        book["PhaseDagger"] = q8.dagger(TEXTBOOK["Phase"])
        book["CZ"] = q8.mat([[1, 0, 0, 0], [0, 1, 0, 0], [0, 0, 1, 0], [0, 0, 0, -1]])
        bad = []
        for k, M in book.items():
            info = getattr(ops, k).openqasm_info()
            D = QE.Defs()
            for t in info.define_gate:
                D.add_text(t)
            if info.gate_name != STD_NAME[k]:
                bad.append({"class": k, "gate_name": info.gate_name})
            elif not QE.equivalent(D.matrix(info.gate_name), M):
                bad.append({"class": k, "definition": info.define_gate, "problem": "does not denote the textbook matrix up to phase"})
        for k, g in (("ClassicalCNOT", "x"), ("ClassicalCZ", "z"), ("MeasurementCNOTandReset", "x")):
            info = getattr(ops, k).openqasm_info()
            D = QE.Defs()
            for t in info.define_gate:
                D.add_text(t)
            if g not in D.gates or not QE.equivalent(D.matrix(g), TEXTBOOK["SigmaX" if g == "x" else "SigmaZ"]):
                bad.append({"class": k, "problem": f"gate {g} used by the statement is not (correctly) defined", "definition": info.define_gate})
        if ops.CNOT.openqasm_info().gate_name != "CX" or any(d.strip() for d in ops.CNOT.openqasm_info().define_gate):
            bad.append({"class": "CNOT", "problem": "CX is a built-in and needs no definition"})
        return bad

    add("C14.F.openqasm.definitions-denote-the-standard-gates", definitions, f"{OQ}:hadamard_info",
        "gate definitions emitted for h, s, sdg, x, y, z, cz (and the x / z used by classically controlled statements) denote the "
        "textbook matrices up to phase under the openQASM 2.0 U(theta,phi,lambda) / CX semantics (exact)")

    # the statements over a grid of concrete register numbers (incl. multi-digit): differential test of the token model
    def grid():
        bad = []
        vals = [0, 1, 9, 10, 11, 123]
        for kind, types in atoms(with_io=True):
            for r, c, t, creg in itertools.product(vals, repeat=4) if kind in CLASSICAL else \
                    (itertools.product(vals, [0], [0], vals) if kind in MEAS else
                     (itertools.product([0], vals, vals, [0]) if kind in TWO else itertools.product(vals, [0], [0], [0]))):
                regs = dict(r=r, c=c, t=t, creg=creg)
                op = native_op(kind, types, regs)
                text = op.openqasm_info().use_gate(op.q_registers, op.q_registers_type, op.c_registers)
                if native_tokens(text) != concrete_tokens(kind, types, regs):
                    bad.append({"op": kind, "types": list(types), "registers": regs, "text": text})
                    break
        return bad

    add("C14.F.openqasm.statements-on-a-grid-of-register-numbers", grid, f"{OQ}:OpenQASMInfo.use_gate",
        "[F over the grid {0,1,9,10,11,123}^k] the natively produced statement text tokenises to the standard statement "
        "(differential check of the f-string token model used by the [P] tasks)", backend="native")
    return out


def to_json_canary():
    """wrong contract: to_json lists the quantum registers of a CNOT as (target, control)"""
    def mk(I):
        op, s = make_op(I, "CNOT", ("e", "p"))
        I.path.ghost.update(op=op)
        return [abstract_circuit(I, [op])]

    def post(I, ret, circ):
        op = I.path.ghost["op"]
        d = ret["ops"][0]
        I.ob("q_registers-are-(target,control)", same(d.get("q_registers"), tuple(reversed(op.fields["_q_registers"]))))

    def replay(r):
        import graphiq.circuit.ops as ops
        from graphiq.circuit.circuit_dag import CircuitDAG

        c = CircuitDAG(n_emitter=4, n_photon=12, n_classical=0)
        c.add(ops.CNOT(control=3, control_type="e", target=10, target_type="p"))
        got = c.to_json()["ops"][0]["q_registers"]
        return {"function": TO_JSON, "args": {"operation": "CNOT e3 -> p10"}, "actual": list(got), "canary_expects": [10, 3]}, tuple(got) != (10, 3)

    return [PostTask(TO_JSON, mk, post, circuit_contracts(), inline=INLINE, label="canary.reversed-registers.to_json[CNOT,ep]", hooks=JSON_HOOKS,
                     clause="canary", replay=replay)]


def canary_tasks():
    return usage_tasks(swap_canary=True) + roundtrip_tasks(canary=True) + emission_tasks(canary=True) + to_json_canary() + [wrapper_task(["Hadamard", "Phase"], prefix="canary.first-listed-gate-acts-first.", reverse=True)]


# =============================================================================================
# CircuitBase.to_openqasm: the emission loop, by induction over an abstract sequence()
# =============================================================================================

class AbsOps:
    """abstract result of self.sequence(): symbolic length; element k is an arbitrary operation of the quantifier's kinds"""

    def __init__(self, length):
        self.length = length


EMIT_KINDS = atoms(with_io=True) + [("OneQubitGateWrapper", ("e",)), ("OneQubitGateWrapper", ("p",))]
WRAPPED = ["Hadamard", "Phase"]
N_P, N_E, N_C = 2, 1, 1
BARRIER = ["barrier", "p0", ",", "p1", ",", "e0", ";"]
PLACEHOLDER = "<<for op in sequence(): lines(op)>>"


def emission_contracts():
    C = {}
    regs = {"emitter_registers": [1] * N_E, "photonic_registers": [1] * N_P, "c_registers": [1] * N_C,
            "n_photons": N_P, "n_emitters": N_E, "n_classical": N_C}
    for p, v in regs.items():
        q = f"{BASE}:CircuitBase.{p}"
        C[q] = Contract(q, spec=(lambda v: (lambda I, self: list(v) if isinstance(v, list) else v))(v), clause=f"abstract circuit: {p}")
    q = f"{DAG}:CircuitDAG.sequence"
    C[q] = Contract(q, spec=lambda I, self, unwrapped=False: self.fields["ghost_sequence"], clause="abstract circuit: sequence()")
    return C


def expected_lines(kind, types, s, opened):
    """emission rule: (lines appended as token lists, new value of opened_barrier)"""
    if kind == "OneQubitGateWrapper":
        app = ["".join(STD_NAME[n] for n in WRAPPED)] + ref(types[0], s["r"]) + [";"]
    else:
        app = std_statement(kind, types, s)
    multi = kind in CLASSICAL
    if not app:
        return [], opened
    fence = multi if CANARY_NO_CLOSING_BARRIER else (opened or multi)
    lines = ([BARRIER] if fence else []) + [app]
    return lines, multi


CANARY_NO_CLOSING_BARRIER = False  # canary: "a barrier is emitted only in front of a multi-line operation" (wrong)


def _reachable(roots):
    seen, todo = {}, list(roots)
    while todo:
        v = todo.pop()
        if id(v) in seen or not isinstance(v, (Obj, list, dict, tuple)):
            continue
        seen[id(v)] = v
        if isinstance(v, Obj):
            todo.extend(v.fields.values())
        elif isinstance(v, dict):
            todo.extend(v.values())
        else:
            todo.extend(v)
    return seen


def emission_loop_hook(I, node, it):
    import ast as _ast
    from pyvc.loops import assigned_names

    if not isinstance(it, AbsOps):
        return False
    path, fr = I.path, I.stack[-1]
    lab = f"{fr.func_name}:loop(for op in self.sequence())"
    written = assigned_names(node.body)
    carried = {"opened_barrier"}
    locals_ = {"oq_info", "gate_application"}
    ok = written <= carried | locals_
    path.engine.record(f"{lab}.frame.vars", "discharged" if ok else "refuted", 0,
                       "" if ok else f"loop body assigns {sorted(written)}", None)
    if not ok:
        raise PathEnd()
    path.oblige(f"{lab}.init.no-barrier-open", z3.BoolVal(fr.env.get("opened_barrier") is False))
    head = fr.env["openqasm_str"]
    path.ghost["header_items"] = list(head)
    saved_pc, saved_env = len(path.pc), dict(fr.env)
    # ---- arbitrary iteration
    kind_sel = path.fresh("kind")
    path.assume(z3.And(kind_sel >= 0, kind_sel < len(EMIT_KINDS)))
    kind, types = EMIT_KINDS[-1]
    for idx, (k_, t_) in enumerate(EMIT_KINDS[:-1]):
        if path.decide(kind_sel == idx):
            kind, types = k_, t_
            break
    if kind == "OneQubitGateWrapper":
        s = syms_for(kind, types)
        op = I.instantiate(I.get_class(OPS, kind), [[I.get_class(OPS, n) for n in WRAPPED]], {"register": s["r"], "reg_type": types[0]})
    else:
        op, s = make_op(I, kind, types)
    b = path.fresh("opened", "bool")
    opened = path.decide(b)
    fr.env["opened_barrier"] = opened
    out = []
    fr.env["openqasm_str"] = out
    I.assign(node.target, op)
    n_writes = len(I.writes)
    I.exec_block(node.body)
    lines, new_opened = expected_lines(kind, types, s, opened)
    path.oblige(f"{lab}.iteration.appends-[barrier]+statement-of-this-operation",
                z3.BoolVal(len(out) == len(lines)) if len(out) != len(lines) else
                z3.And(*[to_z3(tokens_equal(tokenize(o), w)) if not isinstance(tokens_equal(tokenize(o), w), bool)
                         else z3.BoolVal(tokens_equal(tokenize(o), w)) for o, w in zip(out, lines)], z3.BoolVal(True)))
    path.oblige(f"{lab}.iteration.barrier-state", z3.BoolVal(fr.env.get("opened_barrier") is new_opened))
    pre = _reachable(list(saved_env.values()) + [op])  # objects that exist outside the iteration
    others = [w for w in I.writes[n_writes:] if w[0] is not out and id(w[0]) in pre]
    path.engine.record(f"{lab}.frame.heap", "discharged" if not others else "refuted", 0,
                       "" if not others else f"loop body writes {others}", None)
    # ---- leave the arbitrary iteration
    del path.pc[saved_pc:]
    fr.env.clear()
    fr.env.update(saved_env)
    fr.env.pop("op", None)
    fr.env["opened_barrier"] = path.fresh("opened_after", "bool")
    fr.env["openqasm_str"] = list(head) + [PLACEHOLDER]
    return True


def emission_canary_replay(r):
    import graphiq.circuit.ops as ops
    from graphiq.circuit.circuit_dag import CircuitDAG

    c = CircuitDAG(n_emitter=1, n_photon=1, n_classical=1)
    c.add(ops.ClassicalCNOT(control=0, control_type="e", target=0, target_type="p", c_register=0))
    c.add(ops.Hadamard(register=0, reg_type="p"))
    lines = [l for l in c.to_openqasm().splitlines() if l.strip()]
    k = max(i for i, l in enumerate(lines) if l.startswith("h "))
    return {"function": TO_QASM, "args": {"circuit": "ClassicalCNOT e0->p0 (c0); H p0"}, "actual": lines[k - 1:],
            "canary_expects": "no barrier line between the classically controlled block and h"}, lines[k - 1].startswith("barrier")


def emission_tasks(canary=False):
    C = emission_contracts()
    if canary:
        def hook(I, node, it):
            global CANARY_NO_CLOSING_BARRIER
            prev = CANARY_NO_CLOSING_BARRIER  # the hook is re-entered for loops inside the body (constructors)
            CANARY_NO_CLOSING_BARRIER = True
            try:
                return emission_loop_hook(I, node, it)
            finally:
                CANARY_NO_CLOSING_BARRIER = prev
    else:
        hook = emission_loop_hook

    def mk(I):
        c = Obj(I.get_class(DAG, "CircuitDAG"))
        n = z3.Int("n_ops")
        I.path.assume(n >= 0)
        c.fields.update(ghost_sequence=AbsOps(n), openqasm_imports={}, openqasm_defs={"gate h a { U(pi/2, 0, pi) a; }": 1, "gate x a { U(pi, 0, pi) a; }": 1})
        return [c]

    def post(I, ret, circ):
        ok = isinstance(ret, str)
        I.ob("text", ok)
        if not ok:
            return
        toks = native_tokens(ret.replace(PLACEHOLDER, " @BODY@ "))
        want = ["OPENQASM", "2", ".", "0", ";"]
        for d in circ.fields["openqasm_defs"]:
            want += native_tokens(d)
        for k in range(N_P):
            want += ["qreg", f"p{k}", "[", "1", "]", ";"]
        for k in range(N_E):
            want += ["qreg", f"e{k}", "[", "1", "]", ";"]
        for k in range(N_C):
            want += ["creg", f"c{k}", "[", "1", "]", ";"]
        want += ["@", "BODY", "@"]
        I.ob("header-definitions-registers-then-the-operations-in-sequence-order", toks == want)

    return [PostTask(TO_QASM, mk, post, C, inline=INLINE | {f"{BASE}:CircuitBase.to_openqasm"},
                     label=("canary.no-closing-barrier." if canary else "") + "to_openqasm[sequence of symbolic length]",
                     hooks={**HOOKS, "loop": hook},
                     clause="emission loop (induction over sequence()): every operation appends, in sequence order, an optional barrier "
                            "line (iff a multi-line operation is involved) followed by exactly its standard statement; Identity / Input / "
                            "Output append nothing; header = version, definitions in insertion order, register declarations",
                     replay=emission_canary_replay if canary else emission_replay)]


def emission_replay(r):
    """native replay: short circuits - the statement lines of the real text vs. the emission rule applied along sequence()"""
    import graphiq.circuit.ops as ops
    from graphiq.circuit.circuit_dag import CircuitDAG

    regs = dict(r=1, c=0, t=1, creg=0)
    short = [("Hadamard", ("p",)), ("ClassicalCNOT", ("e", "p")), ("MeasurementZ", ("e",)), ("CNOT", ("e", "p")), ("Identity", ("e",)),
             ("MeasurementCNOTandReset", ("e", "p"))]
    circuits = [[a] for a in atoms()] + [[a, b] for a in short for b in short] + [[short[1], short[0], short[0]], [short[5], short[4], short[3], short[0]]]
    barrier = ["barrier", "p0", ",", "p1", ",", "e0", ",", "e1", ";"]
    for seq in circuits:
        c = CircuitDAG(n_emitter=2, n_photon=2, n_classical=1)
        for kind, types in seq:
            c.add(native_op(kind, types, regs))
        text = c.to_openqasm()
        body = native_tokens(text.split("creg c0[1];")[-1])
        want, opened = [], False
        for op in c.sequence():
            kind = type(op).__name__
            if kind in ("Input", "Output"):
                continue
            types = tuple(op.q_registers_type)
            app = concrete_tokens(kind, types, regs)
            multi = kind in CLASSICAL
            if not app:
                continue
            if opened or multi:
                want += barrier
            want += app
            opened = multi
        if body != want:
            return {"function": TO_QASM, "args": {"circuit": [f"{k} {t}" for k, t in seq], "registers": regs}, "actual": text.split("creg c0[1];")[-1],
                    "expected_tokens": want}, True
    return {"function": TO_QASM, "note": f"{len(circuits)} short circuits emit what the rule prescribes"}, False
