"""C03 - contracts for graphiq/backends/stabilizer/functions/height.py.

  leftmost_nontrivial_index(T, g)   returns the least j with x[g,j] + z[g,j] != 0 (relational: 0 <= r < n, entry r non-trivial,
                                    every entry left of r trivial); raises ValueError iff the generator is all identity
                                    (both directions: the raise is permitted only when every entry is proved trivial, and a
                                    normal return exhibits a non-trivial entry).  np.nonzero by the theory of pyvc/nzseq.py;
                                    "the first listed index is the least" is proved from N1-N4 as a lemma obligation.
                                    At call sites the result is the spec function LM_E(g) of the tableau contents E.
  height_func_list(x, z)            E := rref(StabilizerTableau([x, z]));  result[k] = n - (k+1) - #{i < n : LM_E(i) > k}
                                    for k = 0..n-1 (a list of symbolic length n).  The count is the recursive spec function
                                    CNTH(k, m) = #{i < m : LM_E(i) > k}; the counting comprehension is linked to it by lemma
                                    SUM_EXT.  Inner loop invariant: the list of leftmost indices built so far is
                                    (i -> LM_E(i)) of length k2; outer: the height list built so far has the stated entries.
                                    Permitted abrupt exits: ValueError (E has an all-identity generator) and rref's rank
                                    assert.  rref itself enters through its FRAME contract (returns its argument, an n x 2n
                                    bit table with unspecified contents; may fail its assert - verified in stab_rref.py):
                                    that E generates the same group and is in echelon form is [B-only] (DESIGN C03
                                    (a),(b)), and T-entropy is [T].
"""
from __future__ import annotations

import z3

from pyvc import schema as S, loops, nzseq
from pyvc.contract import Contract, Task
from pyvc.interp import RaiseEx
from pyvc.loops import SeqLoop
from pyvc.symlist import SymList, comprehension_hook
from pyvc.values import NDArr, Obj, new_array, as_int_term, to_z3
from .common import HEIGHT, STABF, TAB, TABLEAU_ACCESSORS, idx_in
from .stab_gates import _and, _tab_parts
from .stab_inverse import havoc_tableau, _is_bit

LMQ = f"{HEIGHT}:leftmost_nontrivial_index"
HFL = f"{HEIGHT}:height_func_list"
RREF = f"{STABF}:rref"
C = {}


def _v(T):
    tab, ph, n = _tab_parts(T)
    rt, n_ = tab.reader(), to_z3(n)
    return (lambda g, j: as_int_term(rt(g, j)) + as_int_term(rt(g, n_ + j))), n_


def lm_fn(I, T):
    """LM_E: the spec function 'leftmost non-trivial index of generator i' of the table contents E currently held by T
    (keyed by the identity of the contents closure: same buffer, not written since)"""
    tab = T.fields["_table"]
    d = I.path.ghost.setdefault("lm_fns", {})
    key = (id(tab.store), id(tab.store.f))
    if key not in d:
        d[key] = (z3.Function(f"LM@{len(d)}", z3.IntSort(), z3.IntSort()), tab.store, tab.store.f)
    return d[key][0]


def _lm_req(I, T, g):
    tab, ph, n = _tab_parts(T)
    return _and(idx_in(g, n), to_z3(tab.shape[0]) == to_z3(n), to_z3(tab.shape[1]) == 2 * to_z3(n))


def _lm_extract(I, ret):
    if I is not None:
        # lemma (own task): the first index listed by np.nonzero is the least non-zero position.  Proved for a skolem
        # position from N1-N4 (the goal mentions POS(i), which instantiates N4), then used for every position.
        info = list(I.path.ghost["nz"].values())[-1]
        NZ, POS, L, v, m = info["NZ"], info["POS"], info["L"], info["v"], info["m"]
        i = I.path.fresh("lsk")
        I.path.oblige("leftmost_nontrivial_index:lemma.first-listed-is-least",
                      z3.Implies(as_int_term(v(i)) != 0, z3.And(POS(i) >= 0, NZ(0) <= i)), extra=[i >= 0, i < m, L > 0])
        q = z3.Int("lq")
        I.path.assume(z3.Implies(L > 0, z3.ForAll([q], z3.Implies(z3.And(q >= 0, q < m, as_int_term(v(q)) != 0), NZ(0) <= q))))
    return dict(r=to_z3(ret))


def _lm_spec(I, T, g):
    v, n_ = _v(T)
    g_ = to_z3(g)
    if I.choice is not None:
        r = I.choice["r"]
        I.claim("in-range-and-non-trivial", z3.And(r >= 0, r < n_, v(g_, r) != 0))
        I.claim_forall("everything-left-of-it-is-identity", 0, r, lambda j: v(g_, j) == 0)
        return r
    if I.claim_label:
        # the function's own task / a concrete replay, and the body raised: a raise is never accepted here, it must go
        # through `permitted_raises` (which PROVES that every entry is trivial) - except on concrete inputs, where the
        # contract is evaluated
        from pyvc.values import concrete_int
        nc = concrete_int(n_)
        if nc is not None and all(z3.is_true(z3.simplify(v(g_, z3.IntVal(j)) == 0)) for j in range(nc)):
            raise RaiseEx("ValueError", "generator of all identities")
        return None
    LM = lm_fn(I, T)
    ident = I.path.fresh("all_identity", "bool")
    kq = z3.Int(f"lmq!{I.path.counter.get('lmq', 0)}")
    I.path.counter["lmq"] = I.path.counter.get("lmq", 0) + 1
    if I.path.decide(ident):
        I.path.assume(z3.ForAll([kq], z3.Implies(z3.And(kq >= 0, kq < n_), v(g_, kq) == 0)))
        raise RaiseEx("ValueError", "generator of all identities")
    r = LM(g_)
    I.path.assume(z3.And(r >= 0, r < n_, v(g_, r) != 0))
    I.path.assume(z3.ForAll([kq], z3.Implies(z3.And(kq >= 0, kq < r), v(g_, kq) == 0)))
    return r


def _lm_raise_ok(I, exc, T, g):
    """the ValueError is permitted only on paths where EVERY entry of the generator is proved trivial"""
    if exc != "ValueError":
        return False
    v, n_ = _v(T)
    j = I.path.fresh("rsk")
    return I.path.oblige("leftmost_nontrivial_index:raises-only-if-all-identity", v(to_z3(g), j) == 0, extra=[j >= 0, j < n_])


C[LMQ] = Contract(LMQ, requires=_lm_req, spec=_lm_spec, extract=_lm_extract, permitted_raises=_lm_raise_ok,
                  clause="returns min{j : x_gj + z_gj != 0}; raises ValueError iff the generator is all identity")


# ------------------------------------------------------------------------------------------ rref: frame contract
def _rref_contract():
    """the FRAME contract of stabilizer.rref, verified in contracts/stab_rref.py"""
    from . import stab_rref

    return stab_rref.C[RREF]


def _rref_req(I, T):
    return _rref_contract().requires(I, T)


# ------------------------------------------------------------------------------------------ height_func_list
def CNTH(LM):
    """CNTH_E(k, m) = #{i < m : LM_E(i) > k}   (recursive spec function of height_func_list, one per echelon tableau E)"""
    return z3.Function(f"CNTH[{LM.name()}]", z3.IntSort(), z3.IntSort(), z3.IntSort())


def _hfl_req(I, x, z):
    if not (isinstance(x, NDArr) and isinstance(z, NDArr) and x.ndim == 2 and z.ndim == 2):
        return False
    n = to_z3(x.shape[0])
    i, j = I.path.fresh("rq"), I.path.fresh("rq")
    return _and(n >= 1, to_z3(x.shape[1]) == n, to_z3(z.shape[0]) == n, to_z3(z.shape[1]) == n,
                z3.Implies(z3.And(i >= 0, i < n, j >= 0, j < n), z3.And(_is_bit(as_int_term(x.get(i, j))), _is_bit(as_int_term(z.get(i, j))))))


def _hfl_extract(I, ret):
    if I is None:
        raise ValueError("the echelon tableau is internal to height_func_list; concrete replay needs the body")
    return dict(E=I.path.ghost["rref_results"][-1])


def height_term(n_, k, LMcount):
    return n_ - (k + 1) - LMcount


def _hfl_spec(I, x, z):
    n_ = to_z3(x.shape[0])
    if I.choice is not None:
        E = I.choice["E"]
    elif I.claim_label:
        return None  # own task / replay and the body raised: only `permitted_raises` decides (never accepted by a fork here)
    else:
        cls = I.get_class(TAB, "StabilizerTableau")
        E = Obj(cls)
        E.fields.update(_table=new_array((n_, 2 * n_), lambda i, j: z3.IntVal(0), "t"), _phase=new_array((n_,), lambda i: z3.IntVal(0), "p"),
                        n_qubits=x.shape[0], shape=(x.shape[0], 2 * n_))
        b = I.path.fresh("hfl_raises", "bool")
        if I.path.decide(b):
            raise RaiseEx("ValueError", "all-identity generator in the echelon tableau / rank assert")
        havoc_tableau(I, E)
    LM = lm_fn(I, E)
    H = CNTH(LM)
    I.path.ghost.setdefault("hfl_calls", []).append(dict(E=E, LM=LM, CNTH=H, n=n_))
    return SymList(n_, lambda k: height_term(n_, to_z3(k), H(to_z3(k), n_)), "height_list")


C[HFL] = Contract(HFL, requires=_hfl_req, spec=_hfl_spec, extract=_hfl_extract,
                  permitted_raises=lambda I, exc, *a: exc in ("ValueError", "AssertionError"),
                  clause="height[k] = n - (k+1) - #{i : leftmost_E(i) > k} for the echelon tableau E = rref(input), k = 0..n-1")


def hfl_defs(rec, k, i):
    """defining equations of CNTH(k, .) (i None: base)"""
    H, LM = rec["CNTH"], rec["LM"]
    if i is None:
        return [H(k, 0) == 0]
    return [H(k, i + 1) == H(k, i) + z3.If(LM(i) > k, 1, 0)]


def _E_of(entry):
    return entry["tableau"]


def _inner_state(I, k, entry):
    LM = lm_fn(I, _E_of(entry))
    return {"leftmost_nontrivial_list": SymList(k, lambda i: LM(to_z3(i)), "leftmost")}


def _outer_state(I, k, entry):
    n_ = to_z3(entry["n_qubits"])
    H = CNTH(lm_fn(I, _E_of(entry)))
    return {"height_list": SymList(k, lambda m: height_term(n_, to_z3(m), H(to_z3(m), n_)), "height_list")}


def _outer_after(I, k, entry):
    """link the counting comprehension of this iteration with CNTH(k, n) (lemma SUM_EXT, premise proved)"""
    from lemmas.sums import apply_sum_ext

    rec = I.path.ghost["comp_filters"][-1]
    LM = lm_fn(I, _E_of(entry))
    n_ = to_z3(entry["n_qubits"])
    H = CNTH(LM)
    apply_sum_ext(I, "height_func_list:loop(qubit_position).lemma.sum_ext.premise", rec["CNT"](rec["N"]), H(k, n_),
                  lambda j: z3.If(rec["p"](j), 1, 0), lambda j: z3.If(LM(j) > k, 1, 0), n_)


HFL_LOOPS = [
    SeqLoop("height_func_list", "qubit_position", None, state=_outer_state, after_body=_outer_after,
            locals={"leftmost_nontrivial_list", "row_i", "n_nontrivial_generators", "height", "x"}),
    SeqLoop("height_func_list", "row_i", None, state=_inner_state),
]

# ------------------------------------------------------------------------------------------ height_dict / height_max
HDICT = f"{HEIGHT}:height_dict"
HMAX = f"{HEIGHT}:height_max"
TRS = "graphiq.solvers.time_reversed_solver"
NEMIT = f"{TRS}:TimeReversedSolver.determine_n_emitters"


def _hd_req(I, x, z, graph):
    if graph is not None:
        return False  # the graph= entry (networkx conversion) is outside this contract: [B-only]
    return _hfl_req(I, x, z)


def _sub_choice(I, key):
    """run a callee's spec with the part of this function's choice that belongs to it"""
    return None if I.choice is None else I.choice.get(key)


def _hd_extract(I, ret):
    if I is None:
        raise ValueError("the echelon tableau is internal; concrete replay needs the body")
    return dict(hfl=dict(E=I.path.ghost["hfl_calls"][-1]["E"]))


def _with_choice(I, ch, fn, *a):
    saved = I.choice
    I.choice = ch
    try:
        return fn(I, *a)
    finally:
        I.choice = saved


def _hd_spec(I, x, z, graph):
    from pyvc.symlist import SymDict

    if I.choice is None and I.claim_label:
        return None  # own task and the body raised: `permitted_raises` decides
    hl = _with_choice(I, _sub_choice(I, "hfl"), _hfl_spec, x, z)
    n_ = to_z3(x.shape[0])
    d = SymDict(z3.simplify(n_ + 1), lambda i: to_z3(i) - 1,
                lambda i: z3.If(to_z3(i) == 0, z3.IntVal(0), as_int_term(hl.get(to_z3(i) - 1))), "h_dict")
    I.path.ghost.setdefault("hdict_calls", []).append(d)
    return d


C[HDICT] = Contract(HDICT, requires=_hd_req, spec=_hd_spec, extract=_hd_extract,
                    permitted_raises=lambda I, exc, *a: exc in ("ValueError", "AssertionError"),
                    clause="height_dict = {-1: 0} followed by {k: height[k]} for k = 0..n-1 (x/z entry; the graph= entry is [B-only])")


def _hm_extract(I, ret):
    if I is None:
        raise ValueError("the echelon tableau is internal; concrete replay needs the body")
    return dict(hfl=dict(E=I.path.ghost["hfl_calls"][-1]["E"]), a=I.path.ghost["extremes"][-1]["index"])


def _hm_spec(I, x, z, graph):
    if I.choice is None and I.claim_label:
        return None
    d = _with_choice(I, None if I.choice is None else dict(hfl=I.choice["hfl"]), _hd_spec, x, z, graph)
    L = to_z3(d.length)
    a = I.choice["a"] if I.choice is not None else I.path.fresh("hmax_at")
    I.claim("maximum-is-attained", z3.And(a >= 0, a < L))
    I.claim_forall("maximum-bounds-every-entry", 0, L, lambda i: as_int_term(d.val(i)) <= as_int_term(d.val(a)))
    return d.val(a)


C[HMAX] = Contract(HMAX, requires=_hd_req, spec=_hm_spec, extract=_hm_extract,
                   permitted_raises=lambda I, exc, *a: exc in ("ValueError", "AssertionError"),
                   clause="height_max = max(0, max_k height[k]): an entry of height_dict that bounds every entry")


def _ne_extract(I, ret):
    if I is None:
        raise ValueError("the echelon tableau is internal; concrete replay needs the body")
    return dict(hfl=dict(E=I.path.ghost["hfl_calls"][-1]["E"]), a=I.path.ghost["extremes"][-1]["index"])


def _ne_spec(I, T):
    if I.choice is None and I.claim_label:
        return None
    tab, ph, n = _tab_parts(T)
    n_ = to_z3(n)
    havoc_tableau(I, T)  # rref(tableau) overwrites the caller's tableau in place (frame: contents unspecified)
    x = T.fields["_table"]  # only its shape matters to the callee's spec
    xs = new_array((n_, n_), lambda i, j: z3.IntVal(0), "x")
    hl = _with_choice(I, _sub_choice(I, "hfl"), _hfl_spec, xs, xs)
    a = I.choice["a"] if I.choice is not None else I.path.fresh("nemit_at")
    I.claim("maximum-is-attained", z3.And(a >= 0, a < n_))
    I.claim_forall("maximum-bounds-every-height", 0, n_, lambda k: as_int_term(hl.get(k)) <= as_int_term(hl.get(a)))
    return hl.get(a)


C[NEMIT] = Contract(NEMIT, requires=lambda I, T: _rref_req(I, T), spec=_ne_spec, extract=_ne_extract,
                    permitted_raises=lambda I, exc, *a: exc in ("ValueError", "AssertionError"),
                    clause="determine_n_emitters = max_k height[k] of the echelon tableau (attained and bounding every entry); the "
                           "argument tableau is overwritten by rref")

INLINE = set(TABLEAU_ACCESSORS) | {f"{TAB}:StabilizerTableau.__init__"}


def tasks(Call):
    Cx = dict(Call)
    Cx[RREF] = _rref_contract()
    T = []
    T.append(Task(LMQ, C[LMQ], [S.Stabilizer("S"), S.IntArg("g")], Cx, inline=INLINE, hooks=dict(nzseq.HOOKS)))
    n = z3.Int("n")
    hooks = {"loop": loops.make_hook(HFL_LOOPS), "comprehension": comprehension_hook}
    T.append(Task(HFL, C[HFL], [S.Assume(n >= 1), S.Matrix("X", n, n, bits=True), S.Matrix("Z", n, n, bits=True)], Cx, inline=INLINE,
                  hooks=hooks))
    mats = [S.Assume(n >= 1), S.Matrix("X", n, n, bits=True), S.Matrix("Z", n, n, bits=True), S.Const("graph", None)]
    T.append(Task(HDICT, C[HDICT], mats, Cx, inline=INLINE))
    T.append(Task(HMAX, C[HMAX], mats, Cx, inline=INLINE))
    T.append(Task(NEMIT, C[NEMIT], [S.Stabilizer("S")], Cx, inline=INLINE))
    return T


def canary_tasks(Call):
    Cx = dict(Call)
    Cx[RREF] = _rref_contract()

    def bad_lm(I, T, g):  # "some non-trivial index" is not enough - and here: the LAST one
        if I.choice is None:
            return _lm_spec(I, T, g)
        v, n_ = _v(T)
        r = I.choice["r"]
        I.claim("in-range-and-non-trivial", z3.And(r >= 0, r < n_, v(to_z3(g), r) != 0))
        I.claim_forall("everything-RIGHT-of-it-is-identity", r + 1, n_, lambda j: v(to_z3(g), j) == 0)
        return r

    def bad_hfl(I, x, z):  # counts the generators starting AT OR right of k+1 ... off by one: >= k instead of > k
        if I.choice is None:
            return _hfl_spec(I, x, z)
        n_ = to_z3(x.shape[0])
        H = CNTH(lm_fn(I, I.choice["E"]))
        return SymList(n_, lambda k: n_ - to_z3(k) - H(to_z3(k), n_), "height_list")

    def bad_hd(I, x, z, graph):  # the imaginary position -1 gets height 1
        from pyvc.symlist import SymDict

        if I.choice is None:
            return _hd_spec(I, x, z, graph)
        d = _hd_spec(I, x, z, graph)
        return SymDict(d.length, d.key, lambda i: z3.If(to_z3(i) == 0, z3.IntVal(1), as_int_term(d.val(i))), "h_dict")

    def bad_hm(I, x, z, graph):  # claims the MINIMUM
        if I.choice is None:
            return _hm_spec(I, x, z, graph)
        d = _with_choice(I, dict(hfl=I.choice["hfl"]), _hd_spec, x, z, graph)
        a = I.choice["a"]
        I.claim_forall("result-bounds-every-entry-FROM-BELOW", 0, to_z3(d.length), lambda i: as_int_term(d.val(i)) >= as_int_term(d.val(a)))
        return d.val(a)

    def bad_ne(I, T):  # claims the height at the LAST cut (always 0 for a pure state)
        if I.choice is None:
            return _ne_spec(I, T)
        tab, ph, n = _tab_parts(T)
        n_ = to_z3(n)
        havoc_tableau(I, T)
        xs = new_array((n_, n_), lambda i, j: z3.IntVal(0), "x")
        hl = _with_choice(I, _sub_choice(I, "hfl"), _hfl_spec, xs, xs)
        return hl.get(n_ - 1)

    n = z3.Int("n")
    hooks = {"loop": loops.make_hook(HFL_LOOPS), "comprehension": comprehension_hook}
    mats = [S.Assume(n >= 1), S.Matrix("X", n, n, bits=True), S.Matrix("Z", n, n, bits=True), S.Const("graph", None)]
    return [
        Task(HDICT, C[HDICT], mats, Cx, inline=INLINE, label="canary.height_dict.imaginary-position-1", spec_override=bad_hd),
        Task(HMAX, C[HMAX], mats, Cx, inline=INLINE, label="canary.height_max.minimum", spec_override=bad_hm),
        Task(NEMIT, C[NEMIT], [S.Stabilizer("S")], Cx, inline=INLINE, label="canary.determine_n_emitters.last-cut", spec_override=bad_ne),
        Task(LMQ, C[LMQ], [S.Stabilizer("S"), S.IntArg("g")], Cx, inline=INLINE, hooks=dict(nzseq.HOOKS),
             label="canary.leftmost_nontrivial_index.rightmost", spec_override=bad_lm, timeout_ms=3000),
        Task(HFL, C[HFL], [S.Assume(n >= 1), S.Matrix("X", n, n, bits=True), S.Matrix("Z", n, n, bits=True)], Cx, inline=INLINE,
             hooks=hooks, label="canary.height_func_list.off-by-one", spec_override=bad_hfl),
    ]
