"""C18 - the three emitter-depth metrics of graphiq/metrics.py: CircuitMaxEmitDepth / CircuitMaxEmitResetDepth / CircuitMaxEmitEffDepth
.evaluate (REAL bodies; circuit API through recorder contracts as in contracts/metrics.py).

Definitions (refsem/metrics.py, DESIGN 5/C18), all on the REDUCED circuit R = remove_identity(unwrap_nodes(copy(circuit))):
  max emitter depth = max over emitters e of the number of operations on e's wire            (= len(wire of e) - 2: minus in / out node)
  reset points of e = [Input] + the MeasurementCNOTandReset operations on e's wire + [Output]
  reset depth       = max over emitters, over consecutive reset points, of the difference of their POSITIONS on the wire
  effective depth   = the same with the position replaced by the node depth (_max_depth: Input -1, Output = register depth)
value = penalty(definition); `_inc` incremented; log appended iff the new `_inc` is a multiple of log_steps; the caller's circuit is not
mutated (mutators only on the copy; write log) - C13 frame clause.

Reach: the number of emitters is CONCRETE (1, 2, 3) - the code fills a dict keyed by the emitter index in a loop, which has no
symbolic-length model here.  For the max emitter depth the wires have SYMBOLIC lengths; for the reset / effective depth each emitter's wire
is an explicit pattern of operation classes (every pattern of reset / non-reset operations with at most 3 operations for one emitter,
selected pairs for two emitters) with symbolic node ids and symbolic node depths.  A circuit without emitters makes all three raise
ValueError (max of an empty sequence) - recorded as a fact (`[no emitter]` tasks), the definition is undefined there.
[A-API] reg_gate_history returns the register's wire in order and _max_depth the node depth of the current graph: their own contracts are
contracts/depth.py; copy / unwrap_nodes / remove_identity: contracts/metrics.py + contracts/dag_rewrites.py.
"""
from __future__ import annotations

import itertools

import z3

from pyvc import symgraph as SG
from pyvc.trace import recorder, TraceTask
from pyvc.values import Obj, Opaque, to_z3, as_int_term
from . import metrics as M, dag as D

OPS = "graphiq.circuit.ops"
CDAG = M.CDAG
CIRC = M.CIRC
MET = M.MET
REDUCED = "rmid(unwrap(C))"
RESET = "MeasurementCNOTandReset"


def wire_len(view, reg):
    return z3.Int(f"wire_len[{view}][e{reg}]")


def node_depth(view, reg, j):
    return z3.Int(f"node_depth[{view}][e{reg}][{j}]")


def emit_contracts(k, patterns=None):
    """circuit API for a circuit with k emitters; patterns: per emitter the classes of the operations on its wire (None: only the
    symbolic length of the wire is known)"""
    C = M.circuit_contracts()
    C[f"{CIRC}:CircuitBase.n_emitters"] = recorder(f"{CIRC}:CircuitBase.n_emitters", "n_emitters", result=lambda I, slf: k)

    def history(I, slf, reg, reg_type):
        view = M.view_of(slf)
        if patterns is None:
            L = wire_len(view, reg)
            I.path.assume(L >= 2)
            return (Opaque("operations-of-the-wire"), Opaque("nodes", (view, (f"wire e{reg}",), L)))
        pat = patterns[reg]
        ops_ = [Obj(I.get_class(OPS, n)) for n in ["Input"] + list(pat) + ["Output"]]
        nodes = [D.in_node("e", reg)] + [z3.Int(f"node[{view}][e{reg}][{j}]") for j in range(len(pat))] + [D.out_node("e", reg)]
        return (ops_, nodes)

    def max_depth(I, slf, node):
        view = M.view_of(slf)
        if isinstance(node, str) and node.endswith("_in"):
            return -1
        if isinstance(node, str) and node.endswith("_out"):
            return node_depth(view, int(node[1:-4]), "out")
        nm = str(node)
        return node_depth(view, int(nm.split("][e")[1].split("]")[0]), int(nm.split("[")[-1][:-1]))

    C[f"{CDAG}:CircuitDAG.reg_gate_history"] = recorder(f"{CDAG}:CircuitDAG.reg_gate_history", "reg_gate_history", result=history)
    C[f"{CDAG}:CircuitDAG._max_depth"] = recorder(f"{CDAG}:CircuitDAG._max_depth", "_max_depth", result=max_depth)
    return C


def _zmax(vals):
    r = to_z3(vals[0])
    for v in vals[1:]:
        v = to_z3(v)
        r = z3.If(v > r, v, r)
    return r


def _prologue(I, cur, circuit):
    """copy, unwrap_nodes, remove_identity on the copy; then the (pure) queries, all on the reduced copy"""
    c1 = M.expect_on(cur, circuit, "copy")
    M.expect_on(cur, c1, "unwrap_nodes")
    M.expect_on(cur, c1, "remove_identity")
    pure = [e for e in cur.trace[cur.pos:] if e["name"] in ("n_emitters", "reg_gate_history", "_max_depth")]
    cur.trace[:] = cur.trace[:cur.pos] + [e for e in cur.trace[cur.pos:] if e["name"] not in ("n_emitters", "reg_gate_history", "_max_depth")]
    cur._ob("queries.all-on-the-reduced-copy", all(e["self"] is c1 for e in pure))
    return c1, pure


def spec_max_emit(k):
    def spec(I, cur, metric, state, circuit):
        c1, pure = _prologue(I, cur, circuit)
        hs = [e for e in pure if e["name"] == "reg_gate_history"]
        asked = sorted(str(e["args"][0]) for e in hs)
        cur._ob("queries.one-wire-history-per-emitter", asked == [str(i) for i in range(k)] and all(e["args"][1] == "e" for e in hs))
        definition = _zmax([wire_len(REDUCED, e) - 2 for e in range(k)])
        val = M.penalised(I, cur, definition)
        M.finish_metric(I, cur, metric, val, [state, circuit])
        return val

    return spec


def reset_points(pat):
    """positions on the wire (Input 0, j-th operation j+1, Output len+1) of the reset points"""
    return [0] + [j + 1 for j, n in enumerate(pat) if n == RESET] + [len(pat) + 1]


def spec_reset(patterns, wrong=False):
    k = len(patterns)

    def spec(I, cur, metric, state, circuit):
        c1, pure = _prologue(I, cur, circuit)
        hs = [e for e in pure if e["name"] == "reg_gate_history"]
        cur._ob("queries.wire-histories-of-the-emitters-only", all(e["args"][1] == "e" and str(e["args"][0]) in [str(i) for i in range(k)] for e in hs)
                and {str(e["args"][0]) for e in hs} == {str(i) for i in range(k)})
        gaps = []
        for e in range(k):
            pts = reset_points(patterns[e])
            gaps.append(max(b - a for a, b in zip(pts, pts[1:])))
        definition = (min if wrong else max)(gaps)
        val = M.penalised(I, cur, definition)
        M.finish_metric(I, cur, metric, val, [state, circuit])
        return val

    return spec


def spec_eff(patterns):
    k = len(patterns)

    def spec(I, cur, metric, state, circuit):
        c1, pure = _prologue(I, cur, circuit)
        hs = [e for e in pure if e["name"] == "reg_gate_history"]
        cur._ob("queries.wire-histories-of-the-emitters-only", all(e["args"][1] == "e" and str(e["args"][0]) in [str(i) for i in range(k)] for e in hs)
                and {str(e["args"][0]) for e in hs} == {str(i) for i in range(k)})
        diffs = []
        for e in range(k):
            pat = patterns[e]
            ds = [z3.IntVal(-1)] + [node_depth(REDUCED, e, j) for j, n in enumerate(pat) if n == RESET] + [node_depth(REDUCED, e, "out")]
            diffs += [b - a for a, b in zip(ds, ds[1:])]
        definition = _zmax(diffs)
        val = M.penalised(I, cur, definition)
        M.finish_metric(I, cur, metric, val, [state, circuit])
        return val

    return spec


def _task(name, spec, C, label, explicit, expect_raise=None):
    kw = (lambda I: {"depth_penalty": M.abstract_penalty()}) if explicit else None
    return TraceTask(f"{MET}:{name}.evaluate", M.mk_metric_inputs(name, explicit, ctor_kwargs=kw), M.with_frame(spec) if expect_raise is None else spec,
                     C, inline=M.INLINE, label=label, hooks=M.HOOKS, requires=M.requires_metric, expect_raise=expect_raise,
                     clause="value = penalty(definition on remove_identity(unwrap_nodes(copy))); _inc+1; log appended every log_steps; "
                            "caller's circuit not mutated")


def _show(p):
    return ",".join("R" if n == RESET else n[:2] for n in p) or "-"


def _patterns(max_len):
    out = []
    for n in range(max_len + 1):
        for bits in itertools.product([False, True], repeat=n):
            out.append([RESET if b else ("Hadamard" if j % 2 == 0 else "CNOT") for j, b in enumerate(bits)])
    return out


def tasks():
    T = []
    arg = lambda ex: "log_steps=L,penalty=pen" if ex else "default arguments"
    for k in (1, 2, 3):
        for ex in (False, True):
            T.append(_task("CircuitMaxEmitDepth", spec_max_emit(k), emit_contracts(k), f"CircuitMaxEmitDepth.evaluate[{k} emitters,{arg(ex)}]", ex))
    one = _patterns(3)
    pairs = [([], [RESET]), ([RESET, "Hadamard"], ["Hadamard", RESET, "CNOT"]), (["Hadamard", "CNOT", "Hadamard"], [RESET, RESET]),
             (["CNOT", RESET, RESET], ["Hadamard"])]
    for name, mk in (("CircuitMaxEmitResetDepth", spec_reset), ("CircuitMaxEmitEffDepth", spec_eff)):
        for p in one:
            T.append(_task(name, mk([p]), emit_contracts(1, [p]), f"{name}.evaluate[1 emitter = {_show(p)};{arg(len(p) % 2 == 1)}]", len(p) % 2 == 1))
        for a, b in pairs:
            T.append(_task(name, mk([a, b]), emit_contracts(2, [a, b]), f"{name}.evaluate[2 emitters = {_show(a)} / {_show(b)};{arg(True)}]", True))
    for name in ("CircuitMaxEmitDepth", "CircuitMaxEmitResetDepth", "CircuitMaxEmitEffDepth"):
        T.append(_task(name, lambda I, cur, *a: None, emit_contracts(0, []), f"{name}.evaluate[no emitter]", False, expect_raise=["ValueError"]))
    return T


def canary_tasks():
    """wrong specs: the MINIMUM over the emitters' reset gaps; the emitter depth counts the in / out nodes"""

    def spec_len(I, cur, metric, state, circuit):
        c1, pure = _prologue(I, cur, circuit)
        val = M.penalised(I, cur, _zmax([wire_len(REDUCED, e) for e in range(2)]))
        M.finish_metric(I, cur, metric, val, [state, circuit])
        return val

    a, b = [RESET], ["Hadamard", "CNOT", RESET]
    return [_task("CircuitMaxEmitDepth", spec_len, emit_contracts(2), "canary.CircuitMaxEmitDepth.counts-in-and-out-nodes", False),
            _task("CircuitMaxEmitResetDepth", spec_reset([a, b], wrong=True), emit_contracts(2, [a, b]),
                  "canary.CircuitMaxEmitResetDepth.minimum-over-the-emitters", False)]
