"""C12 - dagwire layer 1: the edit primitives of CircuitDAG on a symbolic graph fragment (pyvc/symgraph.py).

For each edit the REAL method is executed on the fragment its WF precondition licenses, and the resulting fragment is
compared with the specification's fragment (edge multiset, node set, node_dict / edge_dict entries, register counts, id
counter).  Wire-level meaning of these edge updates (splice / unsplice keep every wire a single path, keep the graph acyclic
under the compatibility precondition) is layer 2: lemmas/wires.py.

Fragments (from WF): the out-node k_out of wire k has exactly one incoming edge (pred_k, k_out, k); an operation node has
exactly one incoming and one outgoing edge per wire it sits on; in/out nodes of an existing register exist; ids of operation
nodes are <= circuit._node_id.
"""
from __future__ import annotations

import z3

from pyvc import source, symgraph as SG
from pyvc.contract import Contract
from pyvc.interp import Interp, Engine, Path, explore, RaiseEx, Undecided, PathEnd, Frame
from pyvc.trace import recorder
from pyvc.values import Obj, FuncRef, to_z3, is_sym
from . import compile_stab as CS

CDAG = "graphiq.circuit.circuit_dag"
CBASEC = "graphiq.circuit.circuit_base"
REG = "graphiq.circuit.register"
OPS = CS.OPS

INLINE = {f"{OPS}:*", f"{REG}:Register.__getitem__", f"{CDAG}:CircuitDAG._add_node", f"{CDAG}:CircuitDAG._add_edge",
          f"{CDAG}:CircuitDAG._remove_edge", f"{CDAG}:CircuitDAG._node_dict_append", f"{CDAG}:CircuitDAG._node_dict_remove",
          f"{CDAG}:CircuitDAG._edge_dict_append", f"{CDAG}:CircuitDAG._edge_dict_remove", f"{CDAG}:CircuitDAG._unique_node_id",
          f"{CDAG}:CircuitDAG._add_reg_if_absent", f"{CDAG}:CircuitDAG._add", f"{CDAG}:CircuitDAG._insert_at",
          f"{CDAG}:CircuitDAG._remove_node"}


def contracts():
    C = {}
    q = f"{CBASEC}:CircuitBase._openqasm_update"
    C[q] = recorder(q, "_openqasm_update")
    return C


def in_node(t, r):
    return SG.mk_templ(("", "", "_in"), (t, r))


def out_node(t, r):
    return SG.mk_templ(("", "", "_out"), (t, r))


def key(t, r):
    return SG.mk_templ(("", "", ""), (t, r))


class Scenario:
    """builds the circuit object + fragment; remembers the symbols"""

    def __init__(self, I):
        self.I = I
        cls = I.get_class(CDAG, "CircuitDAG")
        c = Obj(cls)
        self.g = SG.SymGraph()
        self.n = {t: z3.Int(f"n_{t}") for t in "epc"}
        for v in self.n.values():
            I.path.assume(v >= 0)
        regobj = Obj(I.get_class(REG, "Register"))
        self.reglists = {t: SG.SymList(self.n[t], f"registers[{t}]") for t in "epc"}
        regobj.fields["_registers"] = dict(self.reglists)
        regobj.fields["is_multi_qubit"] = False
        self.depthlists = {t: SG.SymList(self.n[t], f"depth[{t}]") for t in "epc"}
        self.M = z3.Int("node_id")
        I.path.assume(self.M >= 0)
        c.fields.update(dag=self.g, _registers=regobj, _register_depth=dict(self.depthlists), _node_id=self.M,
                        node_dict={"Input": [], "Output": []}, edge_dict={}, openqasm_imports={}, openqasm_defs={},
                        openqasm_symbols={})
        self.c = c
        self.fresh_ids = 0

    def op_node(self, name):
        """an existing operation node: integer id in [1, node_id]"""
        v = z3.Int(name)
        self.I.path.assume(z3.And(v >= 1, v <= self.M))
        return v

    def add_existing_register_ends(self, t, r, pred=None, with_in=True):
        """wire (t,r) exists: r < n_t; its out node has exactly one incoming edge, from `pred` (default: an unknown node)"""
        I, g = self.I, self.g
        I.path.assume(z3.And(to_z3(r) >= 0, to_z3(r) < self.n[t]))
        o = out_node(t, r)
        if g._find_node(I, o) is None:
            g.nodes.append([o, {"op": Obj(I.get_class(OPS, "Output")), "reg": r}])
            g.closed.append(o)
            self.c.fields["node_dict"]["Output"].append(o)
        if with_in:
            i_ = in_node(t, r)
            if g._find_node(I, i_) is None:
                g.nodes.append([i_, {"op": Obj(I.get_class(OPS, "Input")), "reg": r}])
                self.c.fields["node_dict"]["Input"].append(i_)
        if pred is not None:
            if g._find_node(I, pred) is None:
                g.nodes.append([pred, {"op": Opaque_op(I)}])
            e = [pred, o, key(t, r), {"reg": r, "reg_type": t}]
            g.edges.append(e)
            self.c.fields["edge_dict"].setdefault(t, []).append((pred, o, key(t, r)))
        return o


def Opaque_op(I):
    return Obj(I.get_class(OPS, "Hadamard"))


class FragTask:
    """run the REAL method `qual` on scenario(I) -> (circuit, args); then check(I, scenario, ret) records obligations"""

    def __init__(self, qual, scenario, check, label, requires=None, clause="", expect_raise=None, timeout_ms=10000):
        self.qual, self.scenario, self.check, self.label = qual, scenario, check, label
        self.requires = requires
        self.contract = Contract(qual, clause=clause)
        self.expect_raise = expect_raise
        self.timeout_ms = timeout_ms

    def run(self):
        eng = Engine(self.timeout_ms)
        m, node, cls = source.find(self.qual)
        C = contracts()

        def harness(path):
            hooks = SG.install({"instantiate": CS.abstract_noise_instantiate})
            I = Interp(path, C, INLINE, hooks)
            I.task_name = self.qual
            f = FuncRef(m.name, node, self.qual, I.get_class(m.name, cls.name))
            I.stack.append(Frame(m.name, {}, self.label))
            sc, args = self.scenario(I)
            path.trace = []
            try:
                ret = I.call_function(f, [sc.c] + list(args), {}, force_body=True)
            except RaiseEx as e:
                ok = self.expect_raise is not None and e.exc_name in self.expect_raise
                eng.record(f"{self.label}:no-raise", "discharged" if ok else "refuted", 0,
                           "" if ok else f"real body raises {e.exc_name}: {e.msg} on a fragment the WF precondition allows", None)
                return
            if self.expect_raise is not None:
                eng.record(f"{self.label}:no-raise", "refuted", 0, f"expected {self.expect_raise}", None)
                return
            eng.record(f"{self.label}:no-raise", "discharged", 0, "", None)
            self.check(I, sc, ret, Post(I, sc, self.label))

        try:
            explore(eng, harness)
        except Undecided as u:
            eng.record(f"{self.label}:supported-subset", "undecided", 0, f"{u}", None)
        for r in eng.results.values():
            r.witness, r.replayed = None, False
        return eng


class Post:
    def __init__(self, I, sc, label):
        self.I, self.sc, self.label = I, sc, label

    def ob(self, what, ok, detail=""):
        if isinstance(ok, bool):
            self.I.path.engine.record(f"{self.label}:post.{what}", "discharged" if ok else "refuted", 0,
                                      "" if ok else (detail or "fragment differs from the specification"), None)
        else:
            self.I.path.oblige(f"{self.label}:post.{what}", ok)

    def edges_are(self, expected):
        """the explicit edge multiset equals `expected` [(u,v,k,reg,reg_type)]"""
        g, I = self.sc.g, self.I
        remaining = list(g.edges)
        for n_, (u, v, k, reg, rt) in enumerate(expected):
            hit = None
            for e in remaining:
                if SG.decide_eq(I, e[0], u) and SG.decide_eq(I, e[1], v) and SG.decide_eq(I, e[2], k):
                    hit = e
                    break
            self.ob(f"edge[{n_}].present", hit is not None, f"missing edge {(u, v, k)}; have {[(e[0], e[1], e[2]) for e in g.edges]}")
            if hit is not None:
                remaining.remove(hit)
                self.ob(f"edge[{n_}].reg", SG.eq_term(I, hit[3].get("reg"), reg))
                self.ob(f"edge[{n_}].reg_type", SG.eq_term(I, hit[3].get("reg_type"), rt))
        self.ob("edges.no-others", not remaining, f"unexpected edges {[(e[0], e[1], e[2]) for e in remaining]}")

    def dict_list_is(self, what, lst, expected):
        """list contents as a multiset"""
        I = self.I
        remaining = list(lst)
        for n_, x in enumerate(expected):
            hit = None
            for e in remaining:
                if SG.decide_eq(I, e, x):
                    hit = e
                    break
            self.ob(f"{what}[{n_}].present", hit is not None, f"missing {x} in {lst}")
            if hit is not None:
                remaining.remove(hit)
        self.ob(f"{what}.no-others", not remaining, f"stale entries {remaining}")

    def nodes_are(self, expected):
        g, I = self.sc.g, self.I
        remaining = [n[0] for n in g.nodes]
        for n_, x in enumerate(expected):
            hit = None
            for e in remaining:
                if SG.decide_eq(I, e, x):
                    hit = e
                    break
            self.ob(f"node[{n_}].present", hit is not None, f"missing node {x}")
            if hit is not None:
                remaining.remove(hit)
        self.ob("nodes.no-others", not remaining, f"unexpected nodes {remaining}")


# ------------------------------------------------------------------------------------------------------------------
# tasks
# ------------------------------------------------------------------------------------------------------------------

def _reg_task(kind, t):
    r = z3.Int("r")

    def scenario(I):
        sc = Scenario(I)
        I.path.assume(r >= 0)
        if kind == "new":
            I.path.assume(r == sc.n[t])
            sc.g.absent += [in_node(t, r), out_node(t, r)]
        elif kind == "existing":
            sc.add_existing_register_ends(t, r)
        else:
            I.path.assume(r > sc.n[t])
        return sc, [r, t]

    def check(I, sc, ret, P):
        if kind == "new":
            P.ob("registers.count", to_z3(sc.reglists[t].length) == sc.n[t] + 1)
            P.ob("register_depth.count", to_z3(sc.depthlists[t].length) == sc.n[t] + 1)
            P.nodes_are([in_node(t, r), out_node(t, r)])
            P.edges_are([(in_node(t, r), out_node(t, r), key(t, r), r, t)])
            P.dict_list_is("node_dict[Input]", sc.c.fields["node_dict"]["Input"], [in_node(t, r)])
            P.dict_list_is("node_dict[Output]", sc.c.fields["node_dict"]["Output"], [out_node(t, r)])
            P.dict_list_is(f"edge_dict[{t}]", sc.c.fields["edge_dict"].get(t, []), [(in_node(t, r), out_node(t, r), key(t, r))])
        else:
            P.ob("registers.count", to_z3(sc.reglists[t].length) == sc.n[t])
            P.edges_are([])
            P.ob("no-graph-update", not sc.g.log, f"graph updated: {sc.g.log}")
        for t2 in "epc":
            if t2 != t:
                P.ob(f"registers[{t2}].unchanged", to_z3(sc.reglists[t2].length) == sc.n[t2])

    return FragTask(f"{CDAG}:CircuitDAG._add_reg_if_absent", scenario, check, f"_add_reg_if_absent[{kind},{t}]",
                    expect_raise=["ValueError"] if kind == "gap" else None,
                    clause="continuous register numbering: register n_t is created with its in/out nodes and wire edge; an existing "
                           "register changes nothing; a gap raises ValueError; other register types untouched")


OPKINDS = {
    "Hadamard": dict(q=1, c=0), "CNOT": dict(q=2, c=0), "MeasurementZ": dict(q=1, c=1), "ClassicalCNOT": dict(q=2, c=1),
}


def _op_and_wires(I, sc, opname, types):
    """instantiate the real op; returns (op, [(t, r)] quantum wires in op order, [(c, creg)] classical wires)"""
    syms = dict(n_p=sc.n["p"], n_e=sc.n["e"], n_c=sc.n["c"], r=z3.Int("reg"), rt=types[0], c=z3.Int("ctrl"), ct=types[0],
                t=z3.Int("targ"), tt=types[-1], creg=z3.Int("creg"))
    op = CS.make_op(I, opname, syms)
    k = OPKINDS[opname]
    if k["q"] == 1:
        qw = [(types[0], syms["r"])]
    else:
        qw = [(types[0], syms["c"]), (types[1], syms["t"])]
        if types[0] == types[1]:
            I.path.assume(syms["c"] != syms["t"])
    cw = [("c", syms["creg"])] if k["c"] else []
    return op, qw, cw


def _labels_of(I, op):
    labels = list(op.fields["_labels"])
    tn = op.cls.name
    return labels + [tn, I.call(I.getattr(op, "parse_q_reg_types"), [], {})]


def _add_task(opname, types):
    def scenario(I):
        sc = Scenario(I)
        op, qw, cw = _op_and_wires(I, sc, opname, types)
        preds = []
        for n_, (t, r) in enumerate(qw + cw):
            p = sc.op_node(f"pred{n_}")
            sc.add_existing_register_ends(t, r, pred=p)
            preds.append(p)
        sc.wires, sc.preds, sc.op = qw + cw, preds, op
        return sc, [op]

    def check(I, sc, ret, P):
        new = sc.M + 1
        P.ob("node_id", to_z3(sc.c.fields["_node_id"]) == new)
        exp = []
        for (t, r), p in zip(sc.wires, sc.preds):
            exp += [(p, new, key(t, r), r, t), (new, out_node(t, r), key(t, r), r, t)]
        P.edges_are(exp)
        ent = sc.g._find_node(I, new)
        P.ob("node.present", ent is not None)
        if ent is not None:
            P.ob("node.op", ent[1].get("op") is sc.op)
        for lab in _labels_of(I, sc.op):
            P.dict_list_is(f"node_dict[{lab}]", sc.c.fields["node_dict"].get(lab, []), [new])
        for t in "epc":
            exp_e = []
            for (tw, r), p in zip(sc.wires, sc.preds):
                if tw == t:
                    exp_e += [(p, new, key(tw, r)), (new, out_node(tw, r), key(tw, r))]
            P.dict_list_is(f"edge_dict[{t}]", sc.c.fields["edge_dict"].get(t, []), exp_e)
            P.ob(f"registers[{t}].unchanged", to_z3(sc.reglists[t].length) == sc.n[t])

    return FragTask(f"{CDAG}:CircuitDAG.add", scenario, check, f"add[{opname},{''.join(types)}]",
                    clause="append: on every wire of the operation (quantum, then classical) the new node is spliced just before the "
                           "wire's output node; indexes updated; register counts unchanged for existing registers")


def _insert_task(opname, types):
    def scenario(I):
        sc = Scenario(I)
        op, qw, cw = _op_and_wires(I, sc, opname, types)
        edges = []
        for n_, (t, r) in enumerate(qw):
            I.path.assume(z3.And(r >= 0, r < sc.n[t]))
            u, v = sc.op_node(f"u{n_}"), sc.op_node(f"v{n_}")
            for x in (u, v):
                if sc.g._find_node(I, x) is None:
                    sc.g.nodes.append([x, {"op": Opaque_op(I)}])
            sc.g.edges.append([u, v, key(t, r), {"reg": r, "reg_type": t}])
            sc.c.fields["edge_dict"].setdefault(t, []).append((u, v, key(t, r)))
            edges.append((u, v, key(t, r)))
            # registers exist (insert_at re-checks them): in-nodes present
            if sc.g._find_node(I, in_node(t, r)) is None:
                sc.g.nodes.append([in_node(t, r), {"op": Obj(I.get_class(OPS, "Input")), "reg": r}])
        for (t, r) in cw:
            I.path.assume(z3.And(r >= 0, r < sc.n[t]))
            if sc.g._find_node(I, in_node(t, r)) is None:
                sc.g.nodes.append([in_node(t, r), {"op": Obj(I.get_class(OPS, "Input")), "reg": r}])
        sc.wires, sc.edges_in, sc.op = qw, edges, op
        return sc, [op, list(edges)]

    def check(I, sc, ret, P):
        new = sc.M + 1
        P.ob("node_id", to_z3(sc.c.fields["_node_id"]) == new)
        exp = []
        for (t, r), (u, v, k) in zip(sc.wires, sc.edges_in):
            exp += [(u, new, k, r, t), (new, v, k, r, t)]
        P.edges_are(exp)
        for lab in _labels_of(I, sc.op):
            P.dict_list_is(f"node_dict[{lab}]", sc.c.fields["node_dict"].get(lab, []), [new])
        for t in "epc":
            exp_e = []
            for (tw, r), (u, v, k) in zip(sc.wires, sc.edges_in):
                if tw == t:
                    exp_e += [(u, new, k), (new, v, k)]
            P.dict_list_is(f"edge_dict[{t}]", sc.c.fields["edge_dict"].get(t, []), exp_e)
            P.ob(f"registers[{t}].unchanged", to_z3(sc.reglists[t].length) == sc.n[t])

    return FragTask(f"{CDAG}:CircuitDAG.insert_at", scenario, check, f"insert_at[{opname},{''.join(types)}]",
                    clause="insert-at-edge: each given edge (u,v,k) is replaced by (u,new,k),(new,v,k); indexes updated; register "
                           "counts unchanged")


def _remove_task(opname, types):
    def scenario(I):
        sc = Scenario(I)
        op, qw, cw = _op_and_wires(I, sc, opname, types)
        node = sc.op_node("node")
        sc.g.nodes.append([node, {"op": op}])
        sc.g.closed.append(node)
        for lab in _labels_of(I, op):
            sc.c.fields["node_dict"].setdefault(lab, []).append(node)
        ab = []
        for n_, (t, r) in enumerate(qw + cw):
            a, b = sc.op_node(f"a{n_}"), sc.op_node(f"b{n_}")
            I.path.assume(z3.And(a != node, b != node))
            for x in (a, b):
                if sc.g._find_node(I, x) is None:
                    sc.g.nodes.append([x, {"op": Opaque_op(I)}])
            sc.g.edges.append([a, node, key(t, r), {"reg": r, "reg_type": t}])
            sc.g.edges.append([node, b, key(t, r), {"reg": r, "reg_type": t}])
            sc.c.fields["edge_dict"].setdefault(t, []).extend([(a, node, key(t, r)), (node, b, key(t, r))])
            ab.append((a, b))
        sc.wires, sc.ab, sc.op, sc.node = qw + cw, ab, op, node
        return sc, [node]

    def check(I, sc, ret, P):
        exp = [(a, b, key(t, r), r, t) for (t, r), (a, b) in zip(sc.wires, sc.ab)]
        P.edges_are(exp)
        P.ob("node.removed", sc.g._find_node(I, sc.node) is None)
        for lab in _labels_of(I, sc.op):
            P.dict_list_is(f"node_dict[{lab}]", sc.c.fields["node_dict"].get(lab, []), [])
        for t in "epc":
            exp_e = [(a, b, key(tw, r)) for (tw, r), (a, b) in zip(sc.wires, sc.ab) if tw == t]
            P.dict_list_is(f"edge_dict[{t}]", sc.c.fields["edge_dict"].get(t, []), exp_e)
            P.ob(f"registers[{t}].unchanged", to_z3(sc.reglists[t].length) == sc.n[t])
        P.ob("node_id.unchanged", to_z3(sc.c.fields["_node_id"]) == sc.M)

    return FragTask(f"{CDAG}:CircuitDAG.remove_op", scenario, check, f"remove_op[{opname},{''.join(types)}]",
                    clause="removal: on every wire of the node its predecessor and successor are re-joined by one edge with the wire's "
                           "key and attributes; the node and all its index entries disappear; nothing else changes")


def _replace_task(old_name, new_name, types, extra_label):
    """replace_op(node, new): old and new operation on the same registers; `extra_label` (None / "Fixed") is a per-object label the
    NEW operation carries in addition (that is what the evolutionary solver does with same-class replacements)"""

    def scenario(I):
        sc = Scenario(I)
        old, qw, cw = _op_and_wires(I, sc, old_name, types)
        new, _, _ = _op_and_wires(I, sc, new_name, types)
        if extra_label is not None:
            new.fields["_labels"] = list(new.fields["_labels"]) + [extra_label]
        node = sc.op_node("node")
        sc.g.nodes.append([node, {"op": old}])
        sc.g.closed.append(node)
        for lab in _labels_of(I, old):
            sc.c.fields["node_dict"].setdefault(lab, []).append(node)
        other = sc.op_node("other")  # another node that carries every label involved: its entries must survive
        I.path.assume(other != node)
        for lab in set(_labels_of(I, old)) | set(_labels_of(I, new)):
            sc.c.fields["node_dict"].setdefault(lab, []).append(other)
        sc.old, sc.new, sc.node, sc.other = old, new, node, other
        return sc, [node, new]

    def check(I, sc, ret, P):
        P.ob("graph.structure-unchanged", not [l for l in sc.g.log if l[0] not in ("set_node_attr",)], f"graph updated: {sc.g.log}")
        ent = sc.g._find_node(I, sc.node)
        P.ob("node.present", ent is not None)
        if ent is not None:
            P.ob("node.op-is-the-new-operation", ent[1].get("op") is sc.new)
        lo, ln = set(_labels_of(I, sc.old)), set(_labels_of(I, sc.new))
        for lab in sorted(lo | ln):
            want = [sc.other] + ([sc.node] if lab in ln else [])
            P.dict_list_is(f"node_dict[{lab}]", sc.c.fields["node_dict"].get(lab, []), want)
        P.ob("node_id.unchanged", to_z3(sc.c.fields["_node_id"]) == sc.M)
        names = [e["name"] for e in I.path.trace]
        P.ob("openqasm-updated-for-new-op", names == ["_openqasm_update"] and I.path.trace[0]["args"][0] is sc.new, f"trace {names}")

    return FragTask(f"{CDAG}:CircuitDAG.replace_op", scenario, check,
                    f"replace_op[{old_name}->{new_name}{'+' + extra_label if extra_label else ''},{''.join(types)}]",
                    clause="replace: the node keeps its place and edges; exactly the index entries of the old operation's labels, class "
                           "name and register-type tag are removed and those of the new operation added (labels are per object); "
                           "entries of other nodes untouched")


def replace_tasks():
    """replace_op: index entries, node payload and the openQASM header bookkeeping (`_openqasm_update(new_operation)` is called exactly
    once, for the NEW operation, also when old and new operation have the same class) - used by C12 / C04 and by C14"""
    return [_replace_task(old_name, new_name, types, lab) for old_name, new_name, types, lab in
            [("Hadamard", "Hadamard", ("e",), "Fixed"), ("Hadamard", "Hadamard", ("p",), None), ("CNOT", "CNOT", ("e", "p"), "Fixed"),
             ("CNOT", "CNOT", ("e", "e"), None), ("MeasurementZ", "MeasurementZ", ("e",), "Fixed")]]


def tasks(tier="quick"):
    T = replace_tasks()
    for t in "epc":
        for kind in ("new", "existing", "gap"):
            T.append(_reg_task(kind, t))
    combos = {"Hadamard": [("e",), ("p",)], "MeasurementZ": [("e",), ("p",)],
              "CNOT": [("e", "e"), ("e", "p"), ("p", "e"), ("p", "p")], "ClassicalCNOT": [("e", "e"), ("e", "p"), ("p", "e"), ("p", "p")]}
    for opname, tl in combos.items():
        for types in tl:
            T.append(_add_task(opname, types))
            T.append(_insert_task(opname, types))
            # removal of a 3-wire node enumerates all 203 coincidence patterns of its six neighbours (~2 min per type mix):
            # thorough tier only; the quick tier covers 1-, 2-wire and quantum+classical (MeasurementZ) nodes
            if opname != "ClassicalCNOT" or tier == "thorough":
                T.append(_remove_task(opname, types))
    return T
