"""Verification tasks for the stabilizer-backend functions (shared by C01, C05, C07, C11)."""
from __future__ import annotations

import copy

import z3

from pyvc.contract import Task
from pyvc import schema as S, loops
from . import stab_gates as G
from .common import LINALG, TRANS, TABLEAU_ACCESSORS, xor


def all_contracts():
    C = dict(G.C)
    try:
        from . import stab_clifford as K

        C.update(K.C)
    except ImportError:
        pass
    from . import stab_tableau as ST, stab_circuit as SC, stab_inverse as SI, stab_height as SH, stab_metric as SM

    C.update(ST.C)  # stabilizer.py helpers (tab_row_swap/sum, finders, insert_qubit)
    C.update(SC.C)  # transformation.run_circuit (concrete lists)
    C.update(SI.C)  # stabilizer.canonical_form (frame contract)
    C.update(SH.C)  # height.py, TimeReversedSolver.determine_n_emitters
    C.update(SM.C)  # StabilizerTableau.__eq__, CliffordTableau.to_stabilizer
    from . import stab_rref as SR

    C.update(SR.C)  # rref, one_step_rref, _process_one_pauli, _process_two_pauli (frame contracts)
    return C


def linalg_tasks(C):
    r, c = z3.Int("rows"), z3.Int("cols")
    sz = S.Assume(z3.And(r >= 1, c >= 1))
    T = []
    for fn in ["row_swap", "add_rows", "column_swap", "add_columns"]:
        q = f"{LINALG}:{fn}"
        T.append(Task(q, C[q], [sz, S.Matrix("M", r, c), S.IntArg("a"), S.IntArg("b")], C))
    q = f"{LINALG}:multiply_columns"
    ca, cb = z3.Int("ca"), z3.Int("cb")
    T.append(Task(q, C[q], [S.Assume(z3.And(r >= 1, ca >= 1, cb >= 1)), S.Matrix("A", r, ca), S.Matrix("B", r, cb),
                            S.IntArg("a"), S.IntArg("b")], C))
    q = f"{LINALG}:g_function"
    T.append(Task(q, C[q], [S.IntArg("x1"), S.IntArg("z1"), S.IntArg("x2"), S.IntArg("z2")], C))
    n = z3.Int("n")
    q = G.ROW_SUM
    T.append(Task(q, C[q], [S.Assume(z3.And(n >= 1, r >= 1)), S.Matrix("X", r, n, bits=True), S.Matrix("Z", r, n, bits=True),
                            S.Matrix("R", r, bits=True), S.Matrix("IP", r, bits=True), S.IntArg("a"), S.IntArg("t")], C,
                  hooks={"loop": loops.make_hook(G.ROW_SUM_LOOPS)}))
    return T


def gate_tasks(C):
    T = []
    for fn in G.RULES1:
        q = f"{TRANS}:{fn}"
        T.append(Task(q, C[q], [S.Clifford("T"), S.IntArg("q")], C, inline=TABLEAU_ACCESSORS, label=fn + "[CliffordTableau]"))
        T.append(Task(q, C[q], [S.Stabilizer("S"), S.IntArg("q")], C, inline=TABLEAU_ACCESSORS, label=fn + "[StabilizerTableau]"))
    for fn in G.RULES2:
        q = f"{TRANS}:{fn}"
        T.append(Task(q, C[q], [S.Clifford("T"), S.IntArg("c"), S.IntArg("t")], C, inline=TABLEAU_ACCESSORS, label=fn + "[CliffordTableau]"))
        T.append(Task(q, C[q], [S.Stabilizer("S"), S.IntArg("c"), S.IntArg("t")], C, inline=TABLEAU_ACCESSORS, label=fn + "[StabilizerTableau]"))
    return T


def canary_tasks(C):
    """deliberately wrong postconditions that MUST be refuted and whose counter-model MUST replay on the real code
    (tests the VC generator, the numpy model and the replay harness together, on every run)"""
    T = []
    q = f"{TRANS}:cnot_gate"
    bad = G._two_qubit(lambda xc, zc, xt, zt, r: (xc, xor(zc, zt), xor(xt, xc), zt, xor(r, xc * zt * xor(xt, zc))))
    T.append(Task(q, C[q], [S.Clifford("T"), S.IntArg("c"), S.IntArg("t")], C, inline=TABLEAU_ACCESSORS,
                  label="canary.cnot_gate.phase-without-^1", spec_override=bad))
    q = f"{TRANS}:hadamard_gate"
    bad = G._one_qubit(lambda x, z, r: (z, x, r))
    T.append(Task(q, C[q], [S.Clifford("T"), S.IntArg("q")], C, inline=TABLEAU_ACCESSORS,
                  label="canary.hadamard_gate.no-phase-update", spec_override=bad))
    q = f"{LINALG}:add_rows"

    def bad_add_rows(I, M, a, t):
        rd = M.reader()
        M.assign_from(lambda i, j: z3.If(i == z3.Int("b") * 0 + (t if isinstance(t, z3.ExprRef) else z3.IntVal(t)), rd(a, j) + rd(t, j), rd(i, j)))
        return M

    r, c = z3.Int("rows"), z3.Int("cols")
    T.append(Task(q, C[q], [S.Assume(z3.And(r >= 1, c >= 1)), S.Matrix("M", r, c), S.IntArg("a"), S.IntArg("b")], C,
                  label="canary.add_rows.no-mod-2", spec_override=bad_add_rows))
    return T


def canary_summary(d):
    """from a Deductive produced by run_tasks(canary tasks): list of {name, refuted, replayed}"""
    by = {}
    for o in d.obligations:
        lab = o.name.split("|")[0].split(":")[0]
        if not lab.startswith("canary."):
            continue
        e = by.setdefault(lab, {"name": lab, "function": o.function, "refuted": False, "replayed": False})
        if o.status == "refuted":
            e["refuted"] = True
            e["replayed"] = e["replayed"] or o.replayed
    return list(by.values())
