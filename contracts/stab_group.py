"""C11 / C05 - functional strengthening of stabilizer.inverse_circuit and stabilizer.canonical_form that does NOT contradict the known
finding C11-F1 (inverse_circuit does not reach |0..0> for some states with n >= 5): nothing here claims clause (b).

(G) GROUP PRESERVATION, step by step ("the tableau keeps describing the same stabilizer group / the state the gate trace says").
    In both functions the working tableau may be written ONLY by
        tab_row_swap(T, a, b)     two generators exchanged with their signs                      (same generating set)
        tab_row_sum(T, a, t)      generator t := generator a x generator t with the ROWSUM phase  (contracts/stab_tableau.py: r_t :=
                                  ((2 r_t + 2 r_a + sum_j g_j) mod 4) div 2, proved in C05) and a != t, so that g_t is replaced by the
                                  product of two DIFFERENT generators: the generated group is unchanged [T-stab]
        a recorded gate of transformation.py (inverse_circuit only; it is in circuit_list by C11 (a), contracts/stab_inverse.py)
    Obligations, for every straight-line piece and for the arbitrary iteration of every loop (havoc + invariant, pyvc/invloop.py):
        group.tableau-written-only-by-row-operations-and-gates   between two such calls, from the start of the piece to the first call
                       and from the last call to its end the buffers of the working tableau are the ones the previous call left
                       (syntactic heap check: field bindings, stores and contents closures by identity; any direct write - a
                       `tableau.z_matrix = add_rows(...)`, an in-place update of a view - replaces one of them)
        group.row_sum-multiplies-two-different-generators        a != t at every tab_row_sum call
    A plain z-matrix add_rows in "Eliminate Zs" changes the group unless the sign is carried: it fails the first obligation.

(H) FIRST HADAMARD BLOCK of inverse_circuit, arbitrary iteration j (pivot row = j, loop invariant of stab_inverse), relational:
        exactly one tab_row_swap(j, m) iff column j has an X / Y / Z candidate in the rows >= j;
        x-branch: m is the FIRST row >= j holding X in column j; y-branch (no X): the first holding Y;
        z-branch (no X, no Y): m is the LAST row holding Z:  hblock.z-branch.swap-partner-is-a-Z-candidate,
                                                              hblock.z-branch.no-Z-candidate-below-the-swap-partner;
        afterwards the pivot row carries a non-identity Pauli in its own column: x[j,j] = 1, or (x[j,j], z[j,j]) = (0, 1);
        a Hadamard is applied only in the z-branch and on column j, and then the pivot row holds X there; without it the pivot row is
        a finished Z row (Z in column j, identity in every column to the right).
    WHY THE LAST ONE (derived from the code's own later steps): the CNOT block clears row j to the right of the diagonal with
    CNOT(j, k), which needs x[j,j] = 1 - so for every column j one of the rows >= j is CONSUMED as the carrier of column j, and a
    consumed row is never looked at again (every later finder call starts at row pivot[0] = j' > j).  canonical_form leaves the
    rows ordered: the rows with a non-zero X part first (each of them is the ONLY row holding X/Y in its own pivot column, which lies
    to the right of every column in which it holds a bare Z), the pure-Z rows last.  If column j has to be served by a Z candidate,
    consuming an X-row would use up the only possible carrier of that row's own (later) column; the last candidate is a pure-Z row
    whenever one exists.  That consequence is proved as a conditional step lemma, for ANY row property HX that is ordered like that:
        hblock.z-branch.consumes-a-row-without-X-part-when-one-is-a-candidate
              premises (instances of ORDER at the two rows involved): for rows j <= i < i': HX(i') -> HX(i);  c is a Z candidate, not HX(c)
              conclusion: not HX(m) for the consumed row m.      (z_list[0] instead of z_list[-1] fails all three z-branch obligations)
    ORDER itself (the canonical shape) is [B-only]; it is also NOT an invariant of this loop - the block is wrong for some n >= 5
    states (C11-F1) and nothing here proves it right.

(S) LATER BLOCKS of inverse_circuit, one step each, from an ARBITRARY tableau (consequences of the gate / rowsum contracts; the block
    invariants that supply the premises are part of clause (b) and are NOT claimed): the step applies its operation to the loop's own
    indices in the stated order, and
        CNOT block      CNOT(j,k) clears x[j,k] and keeps x[j,j]           if x[j,j] = 1
        CZ block        CZ(j,k) clears z[j,k], keeps x[j,k] = 0, x[j,j]     if x[j,j] = 1
        P block         P(j) turns the diagonal Y into X;   second H block: H(j) turns the diagonal X into Z
        Eliminate Zs    tab_row_sum(j,k) clears z[k,j] (and keeps x[k,j] = 0) if (x[j,j], z[j,j]) = (0, 1)
        sign block      X(i) clears a set sign of row i                     if (x[i,i], z[i,i]) = (0, 1)
    (a consistently transposed CNOT(k,j) - list and gate agree, so C11 (a) holds - fails the first one).
    canonical_form's two elimination loops: the step is tab_row_sum(pivot[0], row_m) in THIS order and clears x[row_m,j] (X block) /
    z[row_m,j] (Z block) provided the pivot row holds the entry the block has just moved there.  The canonical SHAPE (which candidate
    becomes the pivot, rank, uniqueness: DESIGN C05 (b),(c)) stays [B-only]: e.g. taking z_list[-1] instead of z_list[0] in the Z block
    keeps the group and passes every obligation here.

(F) [F, exact, complete finite domain] all 1146 stabilizer states on n <= 3 qubits (one generating set each; refsem/tabref.py
    enumeration): the real inverse_circuit returns (|0..0> tableau, L) AND replaying L gate by gate with the real transformation
    functions (C07 contracts) on a fresh copy of the input gives |0..0> with all signs + : the returned tableau is not taken on trust
    (a sign dropped in a row operation leaves the returned tableau looking right while L is wrong).
"""
from __future__ import annotations

import time

import z3

from pyvc import source, nzseq
from pyvc.contract import Contract, Task
from pyvc.interp import Interp, Engine, explore, RaiseEx, Undecided, Frame
from pyvc.invloop import make_hook, check_lockstep
from pyvc.values import FuncRef, to_z3, as_int_term
from vf.core import Obl
from .common import STABF, TRANS, TABLEAU_ACCESSORS
from . import stab_inverse as SI, stab_tableau as ST

INVC, CANON = SI.INVC, SI.CANON
OB_WRITE = "group.tableau-written-only-by-row-operations-and-gates"
OB_DIFF = "group.row_sum-multiplies-two-different-generators"


# ------------------------------------------------------------------------------------------ stamps of the working tableau
def stamp(T):
    return tuple((T.fields[f], T.fields[f].store, T.fields[f].store.f) for f in ("_table", "_phase") if f in T.fields)


def same_stamp(a, b):
    return len(a) == len(b) and all(x is y for p, q in zip(a, b) for x, y in zip(p, q))


def _grp(I):
    return I.path.ghost["grp"]


def start_group(I, T, label):
    I.path.ghost["grp"] = dict(T=T, stamp=stamp(T), label=label, ops=[], owner=None)


def check_unwritten(I, where):
    g = _grp(I)
    ok = same_stamp(stamp(g["T"]), g["stamp"])
    I.path.engine.record(f"{g['label']}:{OB_WRITE}", "discharged" if ok else "refuted", 0,
                         "" if ok else f"{where}: the working tableau's buffers are not the ones the last row operation / gate left "
                                       f"(a direct write to the tableau outside tab_row_swap / tab_row_sum / a recorded gate)", None)
    return ok


def restamp(I):
    g = _grp(I)
    g["stamp"] = stamp(g["T"])


def guarded(real, kind, allowed=True):
    """the real contract + the group discipline around it"""

    def spec(I, T, *a):
        g = I.path.ghost.get("grp")
        mine = g is not None and T is g["T"]
        if mine:
            check_unwritten(I, f"before {kind}{tuple(str(x) for x in a)}")
            if kind == "sum":
                I.path.oblige(f"{g['label']}:{OB_DIFF}", to_z3(a[0]) != to_z3(a[1]))
            if not allowed:
                I.path.engine.record(f"{g['label']}:group.operation-not-allowed-here", "refuted", 0,
                                     f"{kind}{tuple(str(x) for x in a)} applied to the working tableau", None)
        ret = real.spec(I, T, *a)
        if mine:
            restamp(I)
            g["ops"].append((kind, tuple(to_z3(x) for x in a)))
        return ret

    return Contract(real.qual, requires=real.requires, spec=spec, clause=real.clause)


def guarded_contracts(Call, gates=True):
    C = dict(Call)
    C[ST.TRSWAP] = guarded(ST.C[ST.TRSWAP], "swap")
    C[ST.TRSUM] = guarded(ST.C[ST.TRSUM], "sum")
    for q, c in SI.recording_gates().items():
        C[q] = guarded(c, "gate:" + q.split(":")[1], allowed=gates)
    return C


def _canon_spec_restamp(I, T):
    check_unwritten(I, "before canonical_form")
    r = SI._canon_spec(I, T)
    restamp(I)
    return r


def wrap_loops(specs, extra=None):
    """every loop contract of stab_inverse, plus: the stamp is re-taken after each havoc, the discipline is part of the invariant
    (init: nothing written since the last call; preserve: nothing written after the last call of the body)"""
    for s in specs:
        h0, inv0 = s.havoc, s.inv

        def havoc(I, env, _h=h0, _s=s):
            hv = _h(I, env)
            g = _grp(I)
            g["stamp"] = stamp(g["T"])
            g["ops"] = []
            g["owner"] = _s
            g["iter"] = dict(ptf=len(I.path.ghost.get("ptf_calls", [])))
            g["pre"] = dict(tab=g["T"].fields["_table"].reader(), ph=g["T"].fields["_phase"].reader())
            return hv

        def inv(I, k, env, _i=inv0, _s=s):
            out = list(_i(I, k, env)) if _i is not None else []
            g = _grp(I)
            ok = same_stamp(stamp(g["T"]), g["stamp"])
            out.append((OB_WRITE, ok))
            if extra is not None and g.get("owner") is _s:
                out += extra(I, k, env, _s)
            return out

        s.havoc, s.inv = havoc, inv
    return specs


# ------------------------------------------------------------------------------------------ (H) first Hadamard block
def HX():
    return z3.Function("ROW_HAS_X_PART", z3.IntSort(), z3.BoolSort())


def any_instances(I, term):
    """ground instances, at slice position `term`, of the universally quantified halves of the np.any characterisations on this path
    ([A] np.any(v): not b -> forall k in range: v[k] == 0): sound (instances of assumed formulas), they spare z3 the instantiation"""
    out = []
    for e in I.path.pc:
        if z3.is_app(e) and e.decl().kind() == z3.Z3_OP_ITE and z3.is_quantifier(e.arg(2)) and e.arg(2).num_vars() == 1:
            out.append(z3.Implies(z3.Not(e.arg(0)), z3.substitute_vars(e.arg(2).body(), term)))
    return out


def hblock_post(variant=None):
    """relational postcondition of one iteration of the first Hadamard block; `variant` = deliberately wrong versions (canaries)"""

    def extra(I, k, env, spec):
        if spec.body_has != "pauli_type_finder" or spec.target != "j":
            return step_post(I, k, env, spec)
        g = _grp(I)
        calls = I.path.ghost.get("ptf_calls", [])
        if len(calls) != g["iter"]["ptf"] + 1:
            return []  # not at the end of an iteration (assume mode right after the havoc), or the finder was not called exactly once
        info = calls[-1]
        if any(info[kk] is None for kk in "xyz"):
            return []
        T = g["T"]
        n = to_z3(T.fields["n_qubits"])
        j = k - 1  # inv(k+1) is evaluated after iteration number k: the column / pivot row of that iteration
        lo = info["z"]["lo"]
        N = info["z"]["N"]
        px, py, pz = (lambda i, _p=info[kk]["p"]: _p(i - lo) for kk in "xyz")
        Lx, Ly, Lz = (info[kk]["CNT"](info[kk]["N"]) for kk in "xyz")
        swaps = [a for kind, a in g["ops"] if kind == "swap"]
        out = [("hblock.finder-starts-at-the-pivot-row", lo == j)]
        if not swaps:
            out.append(("hblock.a-candidate-row-is-always-moved-to-the-pivot-row", z3.And(Lx == 0, Ly == 0, Lz == 0)))
            return out
        if len(swaps) > 1:
            out.append(("hblock.exactly-one-row-swap", False))
            return out
        a, b = swaps[0]
        i = I.path.fresh("sk_row")
        zcase = z3.And(Lx == 0, Ly == 0, Lz > 0)
        ycase = z3.And(Lx == 0, Ly > 0)
        xcase = Lx > 0
        inr = z3.And(b >= lo, b < lo + N)
        out.append(("hblock.swap-moves-the-partner-to-the-pivot-row", a == j))
        out.append(("hblock.x-branch.swap-partner-is-the-first-X-candidate", z3.Implies(xcase, z3.And(inr, px(b)))))
        out.append(("hblock.x-branch.no-X-candidate-above-the-swap-partner", z3.Implies(xcase, z3.Not(px(i))), [i >= lo, i < b]))
        out.append(("hblock.y-branch.swap-partner-is-the-first-Y-candidate", z3.Implies(ycase, z3.And(inr, py(b)))))
        out.append(("hblock.y-branch.no-Y-candidate-above-the-swap-partner", z3.Implies(ycase, z3.Not(py(i))), [i >= lo, i < b]))
        out.append(("hblock.z-branch.swap-partner-is-a-Z-candidate", z3.Implies(zcase, z3.And(inr, pz(b)))))
        if variant == "first-z":
            out.append(("hblock.z-branch.no-Z-candidate-below-the-swap-partner", z3.Implies(zcase, z3.Not(pz(i))), [i >= lo, i < b]))
        else:
            out.append(("hblock.z-branch.no-Z-candidate-below-the-swap-partner", z3.Implies(zcase, z3.Not(pz(i))), [i > b, i < lo + N]))
        c = I.path.fresh("sk_cand")
        H = HX()
        order = [z3.Implies(z3.And(c < b, H(b)), H(c)), z3.Implies(z3.And(b < c, H(c)), H(b))]
        out.append(("hblock.z-branch.consumes-a-row-without-X-part-when-one-is-a-candidate", z3.Implies(zcase, z3.Not(H(b))),
                    [c >= lo, c < lo + N, pz(c), z3.Not(H(c))] + order))
        tab = T.fields["_table"]
        xjj, zjj = as_int_term(tab.get(j, j)), as_int_term(tab.get(j, n + j))
        out.append(("hblock.pivot-row-carries-a-Pauli-in-its-own-column", z3.Or(xjj == 1, z3.And(xjj == 0, zjj == 1))))
        hs = [a_ for kind, a_ in g["ops"] if kind == "gate:hadamard_gate"]
        others = [kind for kind, a_ in g["ops"] if kind not in ("swap", "gate:hadamard_gate")]
        out.append(("hblock.only-a-row-swap-and-at-most-one-H", len(hs) <= 1 and not others))
        if len(hs) == 1:
            out.append(("hblock.H-only-in-the-z-branch-and-on-column-j", z3.And(zcase, hs[0][0] == j)))
            out.append(("hblock.z-branch.after-H-the-pivot-row-holds-X-in-its-own-column", z3.And(xjj == 1, zjj == 0)))
        elif not hs:
            cc = I.path.fresh("sk_col")
            out.append(("hblock.z-branch.without-H-the-pivot-row-is-a-finished-Z-row-(identity-right-of-column-j)",
                        z3.Implies(zcase, z3.And(as_int_term(tab.get(j, cc)) == 0, as_int_term(tab.get(j, n + cc)) == 0, xjj == 0, zjj == 1)),
                        [cc > j, cc < n] + any_instances(I, cc - (j + 1))))
        return out

    return extra


def canon_step_post(I, k, env, spec):
    """(S) for canonical_form's elimination loops `for row_m in range(n_qubits)`: the step multiplies the PIVOT generator into row_m
    (tab_row_sum(pivot[0], row_m), in this order) and clears the entry it is there to clear, provided the pivot row holds the entry
    the block has just put there (X block: x[p,j] = 1 -> x[row_m,j] = 0;  Z block: z[p,j] = 1 -> z[row_m,j] = 0)"""
    g = _grp(I)
    ops = g["ops"]
    if spec.target != "row_m" or "pre" not in g or not ops:
        return []
    if len(ops) != 1 or ops[0][0] != "sum":
        return [("step.canonical_form.one-row_sum-per-elimination-step", False)]
    a = ops[0][1]
    T = g["T"]
    n = to_z3(T.fields["n_qubits"])
    tab = T.fields["_table"]
    pre = g["pre"]
    try:
        jv, mv, pv = to_z3(env["j"]), to_z3(env["row_m"]), to_z3(g_pivot(I)[0])
    except Exception:  # noqa: BLE001
        return [("step.canonical_form.loop-variables-available", False)]
    rng = [jv >= 0, jv < n, mv >= 0, mv < n, pv >= 0, pv < n]
    on = z3.And(a[0] == pv, a[1] == mv)
    if "x_matrix[row_m, j]" in (spec.body_has or ""):
        return [("step.canonical_form.X-block.row_sum(pivot,row_m)-clears-x[row_m,j]-when-x[pivot,j]-is-set",
                 z3.And(on, z3.Implies(as_int_term(pre["tab"](pv, jv)) == 1, as_int_term(tab.get(mv, jv)) == 0)), rng)]
    return [("step.canonical_form.Z-block.row_sum(pivot,row_m)-clears-z[row_m,j]-when-z[pivot,j]-is-set",
             z3.And(on, z3.Implies(as_int_term(pre["tab"](pv, n + jv)) == 1, as_int_term(tab.get(mv, n + jv)) == 0)), rng)]


def g_pivot(I):
    return I.path.ghost["wt"]["P"]


def step_post(I, k, env, spec):
    """(S) what ONE step of the later blocks achieves, as a consequence of the gate / row-operation contracts, from an ARBITRARY
    tableau: the entry the step is there to clear IS cleared provided the diagonal entry it relies on is set (the block invariants
    that provide the diagonal are clause (b), not proved).  Keyed by the single operation the iteration applied."""
    g = _grp(I)
    ops = g["ops"]
    if len(ops) != 1 or "pre" not in g:
        return []
    kind, a = ops[0]
    T = g["T"]
    n = to_z3(T.fields["n_qubits"])
    tab, ph = T.fields["_table"], T.fields["_phase"]
    pre = g["pre"]
    X0 = lambda r, c: as_int_term(pre["tab"](r, c))  # noqa: E731
    Z0 = lambda r, c: as_int_term(pre["tab"](r, n + c))  # noqa: E731
    X1 = lambda r, c: as_int_term(tab.get(r, c))  # noqa: E731
    Z1 = lambda r, c: as_int_term(tab.get(r, n + c))  # noqa: E731
    def loopvar(nm_):
        v = env.get(nm_)
        try:
            return to_z3(v)
        except Exception:  # noqa: BLE001
            return None

    jv, kv, iv = loopvar("j"), loopvar("k"), loopvar("i")

    def on(*want):  # the operation is applied to the loop's own indices, in this order
        if any(w is None for w in want) or len(want) != len(a):
            return z3.BoolVal(False)
        return z3.And(*[x == w for x, w in zip(a, want)])

    if kind == "gate:cnot_gate" and jv is not None and kv is not None:
        return [("step.cnot-block.CNOT(j,k)-clears-x[j,k]-when-x[j,j]-is-set",
                 z3.And(on(jv, kv), z3.Implies(X0(jv, jv) == 1, z3.And(X1(jv, kv) == 0, X1(jv, jv) == 1))), [jv >= 0, jv < kv, kv < n])]
    if kind == "gate:control_z_gate" and jv is not None and kv is not None:
        return [("step.cz-block.CZ(j,k)-clears-z[j,k]-when-x[j,j]-is-set",
                 z3.And(on(jv, kv), z3.Implies(X0(jv, jv) == 1, z3.And(Z1(jv, kv) == 0, X1(jv, kv) == 0, X1(jv, jv) == 1))),
                 [jv >= 0, jv < kv, kv < n])]
    if kind == "gate:phase_gate" and jv is not None:
        return [("step.phase-block.P(j)-turns-the-diagonal-Y-into-X", z3.And(on(jv), X1(jv, jv) == 1, Z1(jv, jv) == 0), [jv >= 0, jv < n])]
    if kind == "gate:hadamard_gate" and jv is not None:
        return [("step.hadamard-block.H(j)-turns-the-diagonal-X-into-Z", z3.And(on(jv), X1(jv, jv) == 0, Z1(jv, jv) == 1), [jv >= 0, jv < n])]
    if kind == "sum" and jv is not None and kv is not None:
        return [("step.eliminate-Zs.row_sum(j,k)-clears-z[k,j]-when-z[j,j]-is-set-and-x[j,j]-is-clear",
                 z3.And(on(jv, kv), z3.Implies(z3.And(Z0(jv, jv) == 1, X0(jv, jv) == 0), z3.And(Z1(kv, jv) == 0, X1(kv, jv) == 0))),
                 [jv >= 0, jv < kv, kv < n])]
    if kind == "gate:x_gate" and iv is not None:
        return [("step.sign-block.X(i)-clears-a-set-sign-of-row-i-when-z[i,i]-is-set",
                 z3.And(on(iv), z3.Implies(z3.And(Z0(iv, iv) == 1, X0(iv, iv) == 0, as_int_term(pre["ph"](iv)) == 1), as_int_term(ph.get(iv)) == 0)),
                 [iv >= 0, iv < n])]
    return [("step.one-recognised-operation-per-iteration", False)]


# ------------------------------------------------------------------------------------------ tasks
class GroupTask(SI.LockstepTask):
    """inverse_circuit under the recording gate contracts of stab_inverse (its lockstep obligations are re-established here, so that
    the discipline and the trace relation are proved about the same run) + (G) + (H)"""

    def __init__(self, Call, label="inverse_circuit[group preservation + first Hadamard block]", variant=None, timeout_ms=4000):
        super().__init__(Call, label=label, timeout_ms=timeout_ms)
        self.variant = variant
        self.contracts = guarded_contracts(self.contracts)
        if variant == "no-row-sum":  # canary: a discipline that forbids the generator products the function really performs
            self.contracts[ST.TRSUM] = guarded(ST.C[ST.TRSUM], "sum", allowed=False)
        self.contracts[CANON] = Contract(CANON, requires=SI.C[CANON].requires, spec=_canon_spec_restamp, clause=SI.C[CANON].clause)
        self.hooks["loop"] = SI._capture_hook(make_hook(wrap_loops(SI.invc_loops(self.match), hblock_post(variant))))
        self.contract = Contract(INVC, clause="(G) the working tableau is written only by tab_row_swap / tab_row_sum (two different generators, "
                                              "rowsum phase) / recorded gates; (H) first Hadamard block: the pivot swap takes the first X, "
                                              "else first Y, else the LAST Z candidate; the pivot row then carries a Pauli in its own column")

    def run(self):
        eng = Engine(self.timeout_ms)
        m, node, cls = source.find(self.qual)
        L = self.label

        def harness(path):
            I = Interp(path, self.contracts, self.inline, dict(self.hooks))
            I.task_name = self.qual
            path.ghost["task"] = self.qual
            f = FuncRef(m.name, node, self.qual, None)
            I.stack.append(Frame(m.name, {}, L))
            T = SI.StabIn("S").symbolic(I)
            start_group(I, T, L)
            path.trace = []
            try:
                ret = I.call_function(f, [T], {}, force_body=True)
            except RaiseEx as e:
                ok = e.exc_name == "AssertionError" and path.ghost.get("canon_may_assert") and not path.trace
                eng.record(f"{L}:no-raise", "discharged" if ok else "refuted", 0, "" if ok else f"real body raises {e.exc_name}: {e.msg}", None)
                return
            eng.record(f"{L}:no-raise", "discharged", 0, "", None)
            check_unwritten(I, "at the return")
            ok = isinstance(ret, tuple) and len(ret) == 2 and ret[0] is T
            eng.record(f"{L}:post.returns-the-working-tableau", "discharged" if ok else "refuted", 0, "", None)

        try:
            explore(eng, harness)
        except Undecided as u:
            eng.record(f"{L}:supported-subset", "undecided", 0, f"{u}", None)
        for r in eng.results.values():
            r.witness, r.replayed = None, False
        need = [r for r in eng.results.values() if r.status == "refuted" and ".hblock.z-branch." in r.name]
        if need:
            # confirm on the REAL function: an instrumented run over small random tableaux looks for a z-branch iteration whose swap
            # partner violates the claimed relation (last / first Z candidate)
            try:
                wit = native_hblock_check(first=(self.variant == "first-z"))
            except Exception as e:  # noqa: BLE001
                wit = None
                for r in need:
                    r.witness = {"replay_error": f"{type(e).__name__}: {e}"}
            for r in need:
                if wit is not None:
                    r.witness, r.replayed = wit, True
                elif r.detail.startswith("RELAXED"):
                    r.status = "undecided"  # a relaxed model that is not confirmed on the real code proves nothing
        return confirm_rowsum(eng)


def native_hblock_check(first=False, tries=400, seed=0):
    """run the REAL inverse_circuit on random stabilizer tableaux (n = 3, 4) with tab_row_swap / pauli_type_finder of the module wrapped
    by recorders (module attributes, restored afterwards; only the calls made by inverse_circuit itself count).  Looks for a z-branch
    iteration (no X, no Y candidate) whose swap partner is NOT the last (first=True: NOT the first) Z candidate -> witness or None"""
    import importlib
    import sys
    import numpy as np
    from refsem import tabref as R

    stab = importlib.import_module(STABF)
    tabm = importlib.import_module(SI.TAB_MOD)
    log = []
    saved = (stab.tab_row_swap, stab.pauli_type_finder)

    def rec_swap(t, a, b):
        if sys._getframe(1).f_code.co_name == "inverse_circuit":
            log.append(("swap", int(a), int(b)))
        return saved[0](t, a, b)

    def rec_find(x, z, pivot):
        r = saved[1](x, z, pivot)
        if sys._getframe(1).f_code.co_name == "inverse_circuit":
            log.append(("find", [list(map(int, l)) for l in r], list(map(int, pivot))))
        return r

    rng = np.random.default_rng(seed)
    stab.tab_row_swap, stab.pauli_type_finder = rec_swap, rec_find
    try:
        for t in range(tries):
            n = 3 + t % 2
            gs = R.gens_json(R.random_gens(n, rng))
            table = np.array([list(x) + list(z) for x, z, r in gs], dtype=int)
            phase = np.array([r for _, _, r in gs], dtype=int)
            del log[:]
            try:
                stab.inverse_circuit(tabm.StabilizerTableau(table.copy(), phase.copy()))
            except Exception:  # noqa: BLE001
                continue
            for k, ev in enumerate(log):
                if ev[0] == "find" and not ev[1][0] and not ev[1][1] and len(ev[1][2]) > 1 and k + 1 < len(log) and log[k + 1][0] == "swap":
                    want = ev[1][2][0] if first else ev[1][2][-1]
                    if log[k + 1][2] != want:
                        return {"function": INVC, "args": {"table": table.tolist(), "phase": phase.tolist()},
                                "actual": f"column {ev[2][1]}: Z candidates {ev[1][2]}, tab_row_swap({log[k + 1][1]}, {log[k + 1][2]})",
                                "expected": f"swap partner {want} ({'first' if first else 'last'} Z candidate)"}
    finally:
        stab.tab_row_swap, stab.pauli_type_finder = saved
    return None


def native_rowsum_check(tries=300, seed=0):
    """REAL inverse_circuit (hence canonical_form) on random small tableaux with the module's tab_row_sum wrapped: a call that
    multiplies a generator with ITSELF -> witness, else None"""
    import importlib
    import sys
    import numpy as np
    from refsem import tabref as R

    stab = importlib.import_module(STABF)
    tabm = importlib.import_module(SI.TAB_MOD)
    saved = stab.tab_row_sum
    hit = []

    def rec(t, a, b):
        if int(a) == int(b):
            hit.append((sys._getframe(1).f_code.co_name, int(a)))
        return saved(t, a, b)

    rng = np.random.default_rng(seed)
    stab.tab_row_sum = rec
    try:
        for t in range(tries):
            n = 2 + t % 3
            gs = R.gens_json(R.random_gens(n, rng))
            table = np.array([list(x) + list(z) for x, z, r in gs], dtype=int)
            phase = np.array([r for _, _, r in gs], dtype=int)
            try:
                stab.inverse_circuit(tabm.StabilizerTableau(table.copy(), phase.copy()))
            except Exception:  # noqa: BLE001
                pass
            if hit:
                return {"function": f"{STABF}:{hit[0][0]}", "args": {"table": table.tolist(), "phase": phase.tolist()},
                        "actual": f"{hit[0][0]} calls tab_row_sum(tableau, {hit[0][1]}, {hit[0][1]}): a generator multiplied with itself",
                        "expected": "row_to_add != target_row at every call"}
    finally:
        stab.tab_row_sum = saved
    return None


def confirm_rowsum(eng):
    need = [r for r in eng.results.values() if r.name.endswith(OB_DIFF) and
            (r.status == "refuted" or (r.status == "undecided" and r.detail.startswith("RELAXED")))]
    if need:
        try:
            wit = native_rowsum_check()
        except Exception:  # noqa: BLE001
            wit = None
        for r in need:
            if wit is not None:
                r.status, r.witness, r.replayed = "refuted", wit, True
            elif r.status == "refuted" and r.detail.startswith("RELAXED"):
                r.status = "undecided"
    return eng


def native_canon_order_check(tries=300, seed=0):
    """REAL canonical_form on random small tableaux with tab_row_swap / tab_row_sum wrapped: inside canonical_form every tab_row_sum must
    multiply the PIVOT generator (the first argument of the latest tab_row_swap, i.e. pivot[0]) INTO another row -> witness, else None"""
    import importlib
    import sys
    import numpy as np
    from refsem import tabref as R

    stab = importlib.import_module(STABF)
    tabm = importlib.import_module(SI.TAB_MOD)
    saved = (stab.tab_row_swap, stab.tab_row_sum)
    state = {"pivot": None, "bad": None}

    def rec_swap(t, a, b):
        if sys._getframe(1).f_code.co_name == "canonical_form":
            state["pivot"] = int(a)
        return saved[0](t, a, b)

    def rec_sum(t, a, b):
        if sys._getframe(1).f_code.co_name == "canonical_form" and state["bad"] is None and int(a) != state["pivot"]:
            state["bad"] = (int(a), int(b), state["pivot"])
        return saved[1](t, a, b)

    rng = np.random.default_rng(seed)
    stab.tab_row_swap, stab.tab_row_sum = rec_swap, rec_sum
    try:
        for t in range(tries):
            n = 2 + t % 3
            gs = R.gens_json(R.random_gens(n, rng))
            table = np.array([list(x) + list(z) for x, z, r in gs], dtype=int)
            phase = np.array([r for _, _, r in gs], dtype=int)
            state.update(pivot=None, bad=None)
            try:
                stab.canonical_form(tabm.StabilizerTableau(table.copy(), phase.copy()))
            except Exception:  # noqa: BLE001
                pass
            if state["bad"] is not None:
                a, b, pv = state["bad"]
                return {"function": CANON, "args": {"table": table.tolist(), "phase": phase.tolist()},
                        "actual": f"tab_row_sum(tableau, {a}, {b}) while the pivot row is {pv}", "expected": f"tab_row_sum(tableau, {pv}, row_m)"}
    finally:
        stab.tab_row_swap, stab.tab_row_sum = saved
    return None


class CanonGroupTask(Task):
    def run(self):
        eng = confirm_rowsum(super().run())
        need = [r for r in eng.results.values() if ".step.canonical_form." in r.name and
                (r.status == "refuted" or (r.status == "undecided" and r.detail.startswith("RELAXED")))]
        if need:
            try:
                wit = native_canon_order_check()
            except Exception:  # noqa: BLE001
                wit = None
            for r in need:
                if wit is not None:
                    r.status, r.witness, r.replayed = "refuted", wit, True
        return eng


class CanonStab(SI.StabIn):
    def __init__(self, name, label):
        super().__init__(name)
        self.label = label

    def symbolic(self, I):
        T = super().symbolic(I)
        if "grp" not in I.path.ghost:
            start_group(I, T, self.label)
        return T


def canon_group_tasks(Call, label="canonical_form[group preservation]"):
    C = guarded_contracts(Call, gates=False)
    import copy

    loops = wrap_loops([copy.copy(s) for s in SI.CANON_LOOPS], canon_step_post)
    hooks = {"loop": SI._capture_hook(make_hook(loops)), "permitted_asserts": SI._permit_final_assert}

    def spec(I, T):
        # the frame contract of stab_inverse (contents unspecified) - the group discipline is recorded by the guarded callees; the end
        # of the function (the spec runs after the real body): nothing written after the last loop
        check_unwritten(I, "at the return")
        return SI._canon_spec(I, T)

    c = Contract(CANON, requires=SI.C[CANON].requires, spec=spec, permitted_raises=SI.C[CANON].permitted_raises,
                 clause="(G) canonical_form writes its tableau only through tab_row_swap and tab_row_sum of two DIFFERENT generators (rowsum "
                        "phase): every step keeps the stabilizer group; no gate is applied")
    return [CanonGroupTask(CANON, c, [CanonStab("S", label)], C, inline=TABLEAU_ACCESSORS, hooks=hooks, label=label)]


def tasks(Call):
    return [GroupTask(Call)] + canon_group_tasks(Call)


def canary_tasks(Call):
    """a deliberately wrong (H): 'the z-branch takes the FIRST Z candidate' must be refuted on the unchanged tree"""
    return [GroupTask(Call, label="canary.inverse_circuit.hblock-takes-the-first-Z-candidate", variant="first-z", timeout_ms=1500),
            GroupTask(Call, label="canary.inverse_circuit.no-generator-products", variant="no-row-sum")]


# ------------------------------------------------------------------------------------------ (F) exhaustive n <= 3
def exhaustive_obligations(nmax=3):
    t0 = time.time()
    name = f"inverse_circuit.F.all-stabilizer-states-n<={nmax}.circuit-replayed-gate-by-gate-reaches-|0..0>"
    clause = ("complete finite domain, exact integer arithmetic: every stabilizer state on n <= 3 qubits; the returned tableau is |0..0> "
              "and the returned gate list, replayed with the real transformation functions on a fresh copy of the input, yields |0..0> "
              "with all signs positive")
    try:
        import importlib
        import numpy as np
        from refsem import tabref as R

        stab = importlib.import_module(STABF)
        tr = importlib.import_module(TRANS)
        tabm = importlib.import_module(SI.TAB_MOD)
        from .stab_circuit import GATES

        bad, count = None, 0
        for n in range(1, nmax + 1):
            for els in R.all_stabilizer_states(n):
                gs = R.gens_json(R.generating_sets(els, n)[0])
                table = np.array([list(x) + list(z) for x, z, r in gs], dtype=int)
                phase = np.array([r for _, _, r in gs], dtype=int)
                count += 1
                out, circ = stab.inverse_circuit(tabm.StabilizerTableau(table.copy(), phase.copy()))
                zero = lambda t: (not t.x_matrix.any()) and np.array_equal(t.z_matrix, np.eye(n, dtype=int)) and not np.asarray(t.phase).any()  # noqa: E731
                t2 = tabm.StabilizerTableau(table.copy(), phase.copy())
                for item in circ:
                    t2 = getattr(tr, GATES[item[0]][0])(t2, *item[1:])
                # the replayed tableau generates the group of |0..0> iff its X part is zero, its Z part is invertible over GF(2) and the
                # signs of the Z-products are +: bring it to the canonical form first (C05: canonical_form keeps the group)
                t2 = stab.canonical_form(t2)
                if not zero(out) or not zero(t2):
                    bad = dict(function=INVC, args=dict(table=table.tolist(), phase=phase.tolist()), circuit=[list(map(str, c)) for c in circ],
                               returned_tableau_is_zero_state=bool(zero(out)), replayed_circuit_reaches_zero_state=bool(zero(t2)))
                    break
            if bad:
                break
        return [Obl(name=name, function=INVC, status="discharged" if bad is None else "refuted", kind="F", backend="exact",
                    ms=(time.time() - t0) * 1000, detail="" if bad is None else str(bad)[:800], clause=clause + f" ({count} states evaluated)",
                    witness=bad, replayed=bad is not None)]
    except Exception as e:  # noqa: BLE001
        return [Obl(name=name, function=INVC, status="undecided", kind="F", backend="exact", ms=(time.time() - t0) * 1000,
                    detail=f"{type(e).__name__}: {e}", clause=clause)]


# ------------------------------------------------------------------------------------------ wiring (props/C11.py, props/C05.py)
def extend_deductive(d, Call, with_inverse=True):
    from pyvc.driver import run_tasks, merge
    from contracts.tasks_stab import canary_summary

    d2 = run_tasks(tasks(Call) if with_inverse else canon_group_tasks(Call))
    out = merge(d, d2)
    if with_inverse:
        can = run_tasks(canary_tasks(Call))
        out.errors.extend(can.errors)
        out.canaries = list(out.canaries) + canary_summary(can)
        out.obligations.extend(exhaustive_obligations())
        for c in out.canaries:
            if c["name"] == "canary.inverse_circuit.no-generator-products" and c["refuted"]:
                out.notes.append("canary canary.inverse_circuit.no-generator-products refuted (effect discipline: no input-dependent counter-model to replay)")
    kept = []
    for t in out.trusted_base:
        if t.startswith("[B-only] canonical_form: group preservation, canonical shape") or t.startswith("[B-only] canonical_form: (a) group preservation"):
            t = ("[B-only] canonical_form: canonical shape and dependence on the state only (DESIGN C05 (b),(c)); proved: its frame contract "
                 "(returns its argument; n x 2n bits; in-bounds row operations; only abrupt exit = the independence assert) and (a) group "
                 "preservation step by step (contracts/stab_group.py (G): written only by tab_row_swap / tab_row_sum of two different generators)")
        kept.append(t)
    out.trusted_base = kept + [
        "[T-stab] replacing generator g_t by g_a.g_t (a != t, rowsum phase) or exchanging two generators keeps the generated group; with the "
        "proved write discipline (contracts/stab_group.py (G)) every step of canonical_form keeps the stabilizer group, and every step of "
        "inverse_circuit keeps 'the tableau describes run(gates so far) . state'",
    ] + (["[B-only] the canonical ORDER premise of hblock.z-branch.consumes-a-row-without-X-part-when-one-is-a-candidate and every block invariant "
          "that supplies the premises of the (S) step obligations (clause (b); known finding C11-F1 for n >= 5)"] if with_inverse else [])
    return out
