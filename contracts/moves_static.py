"""C04 / C15 - decidable syntactic contracts [F, static] on the real AST (re-read on every run), plus finite native tables.

C04 (evolutionary_solver.py mutation moves):
  * frame: a move changes the circuit only through CircuitDAG.insert_at / replace_op / remove_op (whose effect on the wire view is
    proved in C12: splice / unsplice) - no other mutating method is called on `circuit`, no attribute of `circuit` is assigned;
  * every two-qubit operation a move constructs is controlled by an emitter (control_type="e"), so no move can create a
    photon-photon operation; add_emitter_cnot builds CNOT(e,e), add_measurement_cnot_and_reset builds MeasurementCNOTandReset(e->p);
  * remove_op only draws from get_node_exclude_labels([... "Fixed", "Input", "Output" ...]) and refuses a caller-chosen Fixed node;
  * photon one-qubit gates are inserted only on photon edges whose tail is a CNOT (i.e. after the emission) - the filter text.
C15 (circuit_comparison.direct):
  * [F, native] for every ordered pair (K1, K2) of the 14 operation classes of the property's quantifier, the per-node test
    isinstance(op1, type(op2)) is true iff K1 is K2 (so the test is symmetric and implies the same textbook operation);
  * [static] the per-node test also demands equal q_registers and equal q_registers_type; both circuits are copied, unwrapped and
    identity-stripped before the walk; registers and node counts are compared first.
Everything else of C04 / C15 is [B-only] (EmitInv over move histories, the wire walk, isomorphism matching, redundancy filters).
"""
from __future__ import annotations

import ast
import time

from pyvc import source
from vf.core import Obl

EVO = "graphiq.solvers.evolutionary_solver"
CMP = "graphiq.utils.circuit_comparison"
MOVES = ["replace_photon_one_qubit_op", "replace_emitter_one_qubit_op", "add_photon_one_qubit_op", "add_emitter_one_qubit_op",
         "add_emitter_cnot", "remove_op", "add_measurement_cnot_and_reset"]
MUTATORS_OK = {"insert_at", "replace_op", "remove_op"}
READERS = {"get_node_by_labels", "get_node_exclude_labels", "find_incompatible_edges", "copy"}


def _ob(name, fn, ok, detail, clause, violated=None):
    """three-valued: shape recognised and fine -> discharged; shape recognised and wrong (violated=True) -> refuted;
    shape not recognised (harmless refactoring or unknown effect) -> undecided, never a violation"""
    if ok:
        st = "discharged"
    elif violated:
        st = "refuted"
    else:
        st = "undecided"
    return Obl(name=name, function=fn, status=st, kind="F", backend="exact", ms=0.0,
               detail="" if ok else detail, clause=clause, witness=None if st != "refuted" else {"detail": detail}, replayed=st == "refuted")


def c04_obligations():
    out = []
    for mv in MOVES:
        q = f"{EVO}:EvolutionarySolver.{mv}"
        m, node, cls = source.find(q)
        bad_calls, assigns, two_q = [], [], []
        for n in ast.walk(node):
            if isinstance(n, ast.Call) and isinstance(n.func, ast.Attribute) and ast.unparse(n.func.value) == "circuit":
                if n.func.attr not in MUTATORS_OK | READERS:
                    bad_calls.append(n.func.attr)
            if isinstance(n, (ast.Assign, ast.AugAssign)):
                tg = n.targets if isinstance(n, ast.Assign) else [n.target]
                for t in tg:
                    if ast.unparse(t).startswith("circuit.") or ast.unparse(t).startswith("circuit["):
                        assigns.append(ast.unparse(t))
            if isinstance(n, ast.Call) and ast.unparse(n.func) in ("ops.CNOT", "ops.CZ", "ops.MeasurementCNOTandReset", "ops.ClassicalCNOT", "ops.ClassicalCZ"):
                kw = {k.arg: (k.value.value if isinstance(k.value, ast.Constant) else None) for k in n.keywords}
                two_q.append((ast.unparse(n.func), kw.get("control_type"), kw.get("target_type")))
        known_bad = {"add", "_add", "_insert_at", "_remove_node", "unwrap_nodes", "group_one_qubit_gates", "remove_identity",
                     "_add_edge", "_remove_edge", "_add_node", "assign_noise"}
        out.append(_ob(f"C04.S.{mv}.mutates-only-through-insert_at/replace_op/remove_op", q, not bad_calls and not assigns,
                       f"other calls on circuit: {bad_calls}; assignments: {assigns}",
                       violated=bool(assigns) or any(c in known_bad for c in bad_calls), clause=
                       "frame of the move: the circuit is changed only by the three edits whose wire-view effect is proved (C12)"))
        ok2 = all(ct == "e" for _, ct, _ in two_q)
        out.append(_ob(f"C04.S.{mv}.two-qubit-ops-are-emitter-controlled", q, ok2, f"constructed: {two_q}",
                       violated=any(ct == "p" for _, ct, _ in two_q), clause=
                       "no move constructs a two-qubit operation controlled by a photon (hence none between two photons)"))
    # specific shapes
    m, node, _ = source.find(f"{EVO}:EvolutionarySolver.add_emitter_cnot")
    txt = ast.unparse(node)
    out.append(_ob("C04.S.add_emitter_cnot.builds-CNOT(e,e)", f"{EVO}:EvolutionarySolver.add_emitter_cnot",
                   "control_type='e'" in txt and "target_type='e'" in txt and "ops.CNOT(" in txt, txt[:200], "emitter-emitter CNOT only"))
    m, node, _ = source.find(f"{EVO}:EvolutionarySolver.add_measurement_cnot_and_reset")
    txt = ast.unparse(node)
    out.append(_ob("C04.S.add_measurement_cnot_and_reset.builds-mcr(e->p)", f"{EVO}:EvolutionarySolver.add_measurement_cnot_and_reset",
                   "control_type='e'" in txt and "target_type='p'" in txt and "ops.MeasurementCNOTandReset(" in txt, txt[:200],
                   "photons are touched by two-qubit operations only as targets of measurement-controlled corrections"))
    m, node, _ = source.find(f"{EVO}:EvolutionarySolver.remove_op")
    txt = ast.unparse(node)
    excl = None
    for n_ in ast.walk(node):
        if isinstance(n_, ast.Call) and isinstance(n_.func, ast.Attribute) and n_.func.attr == "get_node_exclude_labels" and n_.args \
                and isinstance(n_.args[0], ast.List) and all(isinstance(e, ast.Constant) for e in n_.args[0].elts):
            excl = {e.value for e in n_.args[0].elts}
    ok = excl is not None and {"Fixed", "Input", "Output"} <= excl and "get_node_by_labels(['Fixed'])" in txt
    out.append(_ob("C04.S.remove_op.never-draws-Fixed-Input-Output", f"{EVO}:EvolutionarySolver.remove_op", ok, txt[:300],
                   "emission CNOTs and measure-and-reset operations placed at initialisation (label Fixed) are never removed",
                   violated=excl is not None and not {"Fixed", "Input", "Output"} <= excl))
    m, node, _ = source.find(f"{EVO}:EvolutionarySolver.add_photon_one_qubit_op")
    txt = ast.unparse(node)
    ok = "circuit.edge_dict['p']" in txt and "type(circuit.dag.nodes[edge[0]]['op']) is ops.CNOT" in txt
    out.append(_ob("C04.S.add_photon_one_qubit_op.only-after-the-emission-CNOT", f"{EVO}:EvolutionarySolver.add_photon_one_qubit_op", ok, txt[:300],
                   "a photon gate is inserted only on a photon edge whose tail node is a CNOT (the emission)"))
    for helper, lst, extra in (("_select_possible_cnot_position", "circuit.edge_dict['e']", None),
                               ("_select_possible_measurement_position", "circuit.edge_dict['p']", "is not ops.Input")):
        q = f"{EVO}:EvolutionarySolver.{helper}"
        m, node, _ = source.find(q)
        txt = ast.unparse(node)
        ok = lst in txt and "find_incompatible_edges(edge)" in txt and (extra is None or extra in txt)
        out.append(_ob(f"C04.S.{helper}.excludes-incompatible-edges", q, ok, txt[:300],
                       "candidate edge pairs exclude every edge the circuit reports incompatible (T-cycle: no cycle is created)"))
    return out


CLASSES14 = ["Identity", "Hadamard", "Phase", "PhaseDagger", "SigmaX", "SigmaY", "SigmaZ", "CNOT", "CZ", "ClassicalCNOT", "ClassicalCZ",
             "MeasurementZ", "MeasurementCNOTandReset", "OneQubitGateWrapper"]


def c15_obligations():
    out = []
    q = f"{CMP}:direct"
    t0 = time.time()
    try:
        import graphiq.circuit.ops as gops

        def mk(name):
            K = getattr(gops, name)
            if name == "OneQubitGateWrapper":
                return K([gops.Hadamard], register=0, reg_type="e")
            if name in ("CNOT", "CZ"):
                return K(control=0, control_type="e", target=1, target_type="e")
            if name in ("ClassicalCNOT", "ClassicalCZ", "MeasurementCNOTandReset"):
                return K(control=0, control_type="e", target=1, target_type="e", c_register=0)
            if name == "MeasurementZ":
                return K(register=0, reg_type="e", c_register=0)
            return K(register=0, reg_type="e")

        objs = {n: mk(n) for n in CLASSES14}
        bad = [(a, b) for a in CLASSES14 for b in CLASSES14 if isinstance(objs[a], type(objs[b])) != (a == b)]
        out.append(Obl(name="C15.F.direct.node-test-is-class-equality", function=q, status="discharged" if not bad else "refuted", kind="F",
                       backend="exact", ms=(time.time() - t0) * 1000, detail="" if not bad else f"pairs {bad}",
                       clause="isinstance(op1, type(op2)) <=> same class, on all 14x14 ordered pairs of the property's operation classes "
                              "(symmetric; same class => same textbook operation)", witness=None if not bad else {"pairs": bad}, replayed=bool(bad)))
    except Exception as e:  # noqa: BLE001
        out.append(Obl(name="C15.F.direct.node-test-is-class-equality", function=q, status="undecided", kind="F", backend="exact",
                       detail=f"{type(e).__name__}: {e}"))
    m, node, _ = source.find(q)
    txt = ast.unparse(node)
    checks = {
        "copies-before-rewriting": "circuit1 = circuit1.copy()" in txt and "circuit2 = circuit2.copy()" in txt,
        "unwraps-and-strips-identities-on-both": txt.count(".unwrap_nodes()") == 2 and txt.count(".remove_identity()") == 2,
        "compares-registers-and-node-counts-first": "circuit1.register == circuit2.register" in txt and "number_of_nodes()" in txt,
        "node-test-demands-equal-registers-and-types": "op1.q_registers_type == op2.q_registers_type and op1.q_registers == op2.q_registers" in txt,
        "walks-every-input-wire-of-circuit1": "for in_node in circuit1.node_dict['Input']" in txt and "while node1 != out_node" in txt,
        "mismatch-returns-False": "isinstance(op1, type(op2)) and control_match" in txt and "return False" in txt,
    }
    for k, ok in checks.items():
        out.append(_ob(f"C15.S.direct.{k}", q, ok, "source text of direct() changed", "structure of the register-by-register comparison"))
    return out


# =============================================================================================================
# C15 [P]: one step of direct()'s wire walk, on symbolic graph fragments of both circuits
# =============================================================================================================
import z3  # noqa: E402
from pyvc import symgraph as SG  # noqa: E402
from pyvc.interp import Interp, Engine, explore, RaiseEx, Undecided, ReturnEx, BreakEx, ContinueEx, Frame  # noqa: E402
from pyvc.values import Obj  # noqa: E402
from pyvc.contract import Contract  # noqa: E402
from . import compile_stab as CS  # noqa: E402

CDAG = "graphiq.circuit.circuit_dag"
OPKINDS = ["Hadamard", "CNOT", "MeasurementZ", "ClassicalCNOT", "Output"]


class DirectStepTask:
    """The body of `while node1 != out_node:` in direct(), mechanically extracted (everything else of direct() is dropped), run
    for an ARBITRARY position of the walk: node1 / node2 are the current nodes on wire `reg` of circuit1 / circuit2; each has exactly
    one outgoing edge with key `reg` (WF: a wire is a single path) besides outgoing edges of its other wires.
    Claim: the step moves both cursors to their successors ON THAT WIRE (never along another wire's edge), and it continues iff the two
    successor operations have the same class (C15.F table), the same q_registers and the same q_registers_type; otherwise direct()
    returns False.  By induction over the wire positions: direct() returns True only if every wire of circuit1 carries, position by
    position, the same operations as the same wire of circuit2."""

    def __init__(self, k1, k2, other1, other2):
        self.k1, self.k2, self.o1, self.o2 = k1, k2, other1, other2
        self.qual = f"{CMP}:direct"
        self.label = f"direct.walk-step[next1={k1},next2={k2},fanout={other1}{other2}]"
        self.contract = Contract(self.qual, clause="one step of the register-by-register walk follows the wire in both circuits and compares the next operations")

    def run(self):
        eng = Engine(10000)
        m, node, _ = source.find(self.qual)
        loop = [n for n in ast.walk(node) if isinstance(n, ast.While)]
        if len(loop) != 1:
            eng.record(f"{self.label}:supported-subset", "undecided", 0, "direct() no longer has exactly one while loop", None)
            return eng
        body = loop[0].body

        def harness(path):
            I = Interp(path, {}, {f"{CS.OPS}:*"}, SG.install({"instantiate": CS.abstract_noise_instantiate}))
            I.stack.append(Frame(m.name, {}, self.label))
            t = "e"
            r = z3.Int("wire_reg")
            path.assume(r >= 0)
            reg = SG.mk_templ(("", "", ""), (t, r))
            circs, cursors, nexts, ops_ = [], [], [], []
            for ci, (kind, other) in enumerate(((self.k1, self.o1), (self.k2, self.o2))):
                g = SG.SymGraph()
                cur = z3.Int(f"cur{ci}")
                nxt = z3.Int(f"next{ci}")
                path.assume(z3.And(cur >= 1, nxt >= 1, cur != nxt))
                syms = dict(n_p=z3.Int("n_p"), n_e=z3.Int("n_e"), n_c=z3.Int("n_c"), r=r, rt=t, c=r, ct=t, t=z3.Int(f"oreg{ci}"), tt="e",
                            creg=z3.Int(f"creg{ci}"))
                path.assume(syms["t"] != r)
                op_next = CS.make_op(I, kind, syms)
                g.nodes.append([cur, {"op": CS.make_op(I, "Hadamard", syms)}])
                g.nodes.append([nxt, {"op": op_next}])
                g.closed.append(cur)
                if other:  # the current node also sits on another wire: a second outgoing edge with another key, listed FIRST
                    oth = z3.Int(f"other{ci}")
                    path.assume(z3.And(oth >= 1, oth != cur))
                    g.nodes.append([oth, {"op": CS.make_op(I, "Hadamard", syms)}])
                    g.edges.append([cur, oth, SG.mk_templ(("", "", ""), ("e", syms["t"])), {"reg": syms["t"], "reg_type": "e"}])
                g.edges.append([cur, nxt, reg, {"reg": r, "reg_type": t}])
                c = Obj(I.get_class(CDAG, "CircuitDAG"))
                c.fields["dag"] = g
                circs.append(c)
                cursors.append(cur)
                nexts.append(nxt)
                ops_.append(op_next)
            env = {"circuit1": circs[0], "circuit2": circs[1], "node1": cursors[0], "node2": cursors[1], "reg": reg,
                   "out_node": SG.mk_templ(("", "", "_out"), (t, r))}
            fr = Frame(m.name, env, "direct")
            I.stack.append(fr)
            returned = None
            try:
                I.exec_block(body)
            except ReturnEx as rx:
                returned = ("ret", rx.value)
            except ContinueEx:
                pass  # `continue` ends the step like falling through: the continue-path postconditions below apply
            except BreakEx:
                eng.record(f"{self.label}:post.step-never-leaves-the-walk-by-break", "refuted", 0,
                           "the step leaves the while loop before the output node: the rest of the wire is not compared", None)
                return
            except RaiseEx as e:
                eng.record(f"{self.label}:no-raise", "refuted", 0, f"raises {e.exc_name}: {e.msg}", None)
                return
            eng.record(f"{self.label}:no-raise", "discharged", 0, "", None)
            same_class = self.k1 == self.k2
            o1, o2 = ops_
            regs_eq = SG.eq_term(I, I.getattr(o1, "q_registers"), I.getattr(o2, "q_registers"))
            types_eq = I.getattr(o1, "q_registers_type") == I.getattr(o2, "q_registers_type")
            should_continue = z3.And(z3.BoolVal(bool(same_class and types_eq)), regs_eq if not isinstance(regs_eq, bool) else z3.BoolVal(regs_eq))
            if returned is not None:
                path.oblige(f"{self.label}:post.returns-False-only-on-a-mismatch", z3.Not(should_continue))
                eng.record(f"{self.label}:post.returned-value-is-False", "discharged" if returned[1] is False else "refuted", 0, "", None)
            else:
                path.oblige(f"{self.label}:post.continues-only-if-next-operations-agree", should_continue)
                path.oblige(f"{self.label}:post.cursor1-follows-the-wire", SG.eq_term(I, env["node1"], nexts[0]))
                path.oblige(f"{self.label}:post.cursor2-follows-the-wire", SG.eq_term(I, env["node2"], nexts[1]))

        try:
            explore(eng, harness)
        except Undecided as u:
            eng.record(f"{self.label}:supported-subset", "undecided", 0, f"{u}", None)
        for r_ in eng.results.values():
            r_.witness, r_.replayed = None, False
        return eng


def c15_tasks():
    T = []
    for k1 in OPKINDS:
        for k2 in OPKINDS:
            T.append(DirectStepTask(k1, k2, False, False))
    for k in ("Hadamard", "CNOT"):
        T.append(DirectStepTask(k, k, True, False))
        T.append(DirectStepTask(k, k, True, True))
    return T
