"""C06 - contracts for graphiq/noise/noise_models.py: WHAT each noise model's apply() does, per noise class x state
representation branch (Stabilizer / MixedStabilizer / DensityMatrix).  (WHERE and WHEN apply() is called by
CompilerBase.compile is contracts/compile_loop.py; the last hop compile -> apply, `_apply_additional_noise` /
`compile_one_noisy_gate` of both compilers, is `dispatch_tasks` below.)

Specification (the channel definitions of the property statement; nothing below is read off the implementation)
  error Pauli E on qubit q, bits (a, b) = (x-part, z-part): I=(0,0) X=(1,0) Y=(1,1) Z=(0,1).  Conjugation by a Pauli
  leaves every generator unchanged up to a sign; the sign of row i flips IFF row i ANTICOMMUTES with E on qubit q:
        flip_i = x[i,q]*b + z[i,q]*a  (mod 2)            (symplectic form)                      "ANTICOMMUTATION RULE"
  depolarizing(p) on m qubits: K = 4^m Pauli strings, string k = base-4 digits of k (most significant digit = first
        register), weights f_0 = 1-p, f_k = p/(K-1); branches with f_k = 0 are not produced (weight of the STRING, not of
        the product p_i*f_k: fix a2d0fba - a completely lost branch (p_i = 0) keeps its 4^m children)
        mixture' = [ (p_i * f_k,  E_k applied to a COPY of t_i) : i in order, k in order, f_k > 0 ]
        density matrix: Kraus list [ sqrt(f_k) * E_k embedded at reg_list ]  (all K, also the zero-weight ones)
  Pauli error E:  mixture' = [(p_i, E t_i)] / tableau' = E tableau / rho' = U rho U^dagger, U = E embedded at the register
  photon loss(l): every weight (the trace) is multiplied by 1-l, the states are untouched; a pure stabilizer state becomes
        the one-branch mixture [(1-l, same tableau)] and the QuantumState is flagged mixed.

[P] stabilizer / mixture branches - STATE-LEVEL, symbolic tableaux (n symbolic, every row/column by skolem index):
  the real body of apply() is run on a mixture of L = 1, 2 symbolic branches (weights symbolic reals, tableaux symbolic
  2n x 2n bit matrices + phase vectors, n >= 1 symbolic, qubit positions symbolic in [0, n)); the gate functions it calls
  are replaced by their C07 contracts (contracts/stab_gates.py: x_gate / y_gate / z_gate / identity, run_circuit of
  contracts/stab_circuit.py); a helper of noise_models.py that computes the sign flip ITSELF is interpreted from source
  (inline permission `noise_models:*`) and so has to meet the anticommutation rule bit for bit.  Obligations, per output
  branch: weight, sign-flips-iff-anticommutes (phase vector at a skolem row), table and i-phase unchanged, the branch
  tableau is a FRESH object with fresh buffers (copy) and every input tableau is unchanged (frame), list length / order,
  total weight preserved, `reduce()` called exactly once, after the new mixture has been installed, on the same
  representation object; the mixture is checked AS HANDED TO reduce().
  Mixtures of ANY length: a symbolic-length mixture is not run through the engine (lists of symbolic length holding heap
  objects are outside its list theory); instead `loop_independence_obligations` proves on the real AST, every run, that the
  outer loop body assigns only its own locals, reads only loop-invariant names and touches the result only by
  `mixture.append` [P, syntactic frame], so list(l ++ [e]) = list(l) ++ segment(e) and the L = 1, 2 proofs (every segment
  exact for an arbitrary branch, order of consecutive segments) are the induction step.
[P] MixedStabilizer.reduce (L <= 4 branches, abstract content equality): every input branch is merged into exactly one kept
  branch with an equal tableau, weights summed, total weight kept - so reduce changes nothing in sum_i p_i |t_i><t_i|.
[P] density-matrix branches - DISPATCH as an effect trace with abstract operator tokens (contracts/compile_dm.py style):
  which builder, which register, which one-qubit matrices in which order, which scalar weight, handed to apply_unitary /
  apply_channel exactly once.  Scalars are exact reals: sqrt is the function SQRT with SQRT(x) >= 0, SQRT(x)^2 = x.
[F] / sampled: numerical content of the tokens (`numeric_obligations`; exact complete-domain items are kind F, float-tolerance or
  sampled-strength items are kind B and named `sampled.*` / `native.*`): the REAL helper functions evaluated natively over complete
  finite sets, compared EXACTLY (entries are 0, +-1, +-i; products / Kronecker products of those are exact in floating
  point) against matrices written out literally here: identity/sigmax/sigmay/sigmaz; get_one_qubit_gate and
  get_multi_qubit_gate for all n <= 3, all positions (pairs), all 4 (16) Paulis against an index-level definition of the
  embedding; conjugation signs of the one-qubit Paulis = anticommutation rule (all 16 pairs); Kraus completeness of the
  depolarizing list sum_k f_k = 1 [P, real arithmetic]; to 1e-12 (NOT exact): hadamard/phase (1/sqrt 2), the perturbed-gate
  constructors at zero perturbation, amplitude-damping operators on a grid of 11 probabilities (a grid, not a complete
  domain: that one is a sampled check and is labelled so).
[B-only] / [N]
  * DensityMatrix.apply_unitary / apply_channel: their FORMULAS are proved as operator-algebra expressions over abstract
    operators (`dm_algebra_tasks`: rho' = herm(U rho U^dagger), herm(sum_k K_k rho K_k^dagger) in list order, <= 4 Kraus
    operators, size check -> ValueError; herm = (M + M^dagger)/2 is accepted present or absent); the float matrix arithmetic
    underneath (`@`, conjugate, transpose on 2^n x 2^n arrays) is bounded-only, positivity of the COMPUTED matrix is [N] (S3).
  * MixedStabilizer.reduce for more than 4 branches (the paths are the set partitions; 4 = one depolarized branch).
  * get_multi_qubit_gate / get_one_qubit_gate for n > 3: [F] covers n <= 3 only (np.kron on symbolic sizes is not modelled).
  * depolarizing on more than 2 registers (the compilers pass one); PauliError / PhotonLoss on mixtures: L = 2 run through the
    engine, longer ones by the comprehension / index-loop shape (PhotonLoss: syntactic obligation; apply_sigma*: list comprehension).
  * np.isclose guard of DepolarizingNoise.apply: modelled in exact reals (|a-b| <= atol + rtol|b|); its float rounding is [N].
Assumptions new in this module: [A] np.sqrt on a non-negative real = SQRT as above; [A] np.isclose(a, b) on reals with the
numpy default tolerances; [A] itertools.product(l, repeat=m) = lexicographic order (existing model); S3 (floats as reals).
"""
from __future__ import annotations

import ast
import math
import time

import z3

from pyvc import models, source
from pyvc.contract import Contract
from pyvc.interp import RaiseEx, Undecided, PathEnd
from pyvc.trace import recorder, TraceTask, Token, same
from pyvc.values import Obj, NDArr, ClsRef, FuncRef, Builtin, new_array, to_z3, as_int_term, is_sym, concrete_int
from .common import CTAB, TRANS, TABLEAU_ACCESSORS, mk_clifford, idx_in
from . import compile_stab as CS, compile_dm as CD

NM = CS.NM
SSTATE = CS.SSTATE
STATE = CS.STATE
DSTATE = CD.DSTATE
DMF = CD.DMF
OPS = CS.OPS

PAULI_BITS = {"I": (0, 0), "X": (1, 0), "Y": (1, 1), "Z": (0, 1)}
PAULI_ORDER = ["I", "X", "Y", "Z"]  # order of the textbook depolarizing sum (and of graphiq's lists; order is checked)
DM_TOKEN = {"I": "identity", "X": "sigmax", "Y": "sigmay", "Z": "sigmaz"}


def anticommutes(x, z, pauli):
    """ANTICOMMUTATION RULE: 1 iff the one-qubit Pauli with bits (x, z) anticommutes with the error `pauli`"""
    a, b = PAULI_BITS[pauli]
    return (as_int_term(x) * b + as_int_term(z) * a) % 2


# =============================================================================================================
# [A] numpy scalar models this module needs (exact real arithmetic, S3) - installed only if nobody else provides them
# =============================================================================================================
SQRT = z3.Function("SQRT", z3.RealSort(), z3.RealSort())


def _real(t):
    t = to_z3(t)
    return z3.ToReal(t) if z3.is_int(t) else t


def _np_sqrt(interp, x):
    if isinstance(x, (Token, NDArr)):
        raise Undecided("np.sqrt of a non-scalar")
    if not is_sym(x):
        if x < 0:
            raise Undecided("np.sqrt of a negative constant")
        r = math.sqrt(x)
        return int(r) if r == int(r) else r
    models.used("np.sqrt(x), x a non-negative real: SQRT(x) >= 0 and SQRT(x)^2 = x (x >= 0 is an obligation; S3)")
    t = _real(x)
    nm = interp.ob_name("sqrt-argument-non-negative")
    interp.path.oblige(nm, t >= 0)
    interp.path.assume(t >= 0)
    s = SQRT(t)
    interp.path.assume(z3.And(s >= 0, s * s == t))
    return s


def _np_isclose(interp, a, b, rtol=1e-05, atol=1e-08, equal_nan=False):
    if isinstance(a, NDArr) or isinstance(b, NDArr):
        raise Undecided("np.isclose on arrays")
    models.used("np.isclose(a, b) on real scalars: |a - b| <= atol + rtol * |b| (numpy default tolerances; exact reals, S3)")
    if not (is_sym(a) or is_sym(b)):
        return abs(a - b) <= atol + rtol * abs(b)
    x, y = _real(a), _real(b)
    ab = lambda t: z3.If(t >= 0, t, -t)  # noqa: E731
    return ab(x - y) <= z3.RealVal(repr(atol)) + z3.RealVal(repr(rtol)) * ab(y)


for _nm, _fn in (("sqrt", _np_sqrt), ("isclose", _np_isclose)):
    if _nm not in models.NUMPY:
        models.NUMPY[_nm] = _fn


# =============================================================================================================
# hooks: abstract operator algebra (tokens) and mixed int/real division
# =============================================================================================================
def binop_hook(interp, op, a, b):
    ta, tb = isinstance(a, Token), isinstance(b, Token)
    if ta or tb:
        scalar = lambda v: (isinstance(v, (int, float)) and not isinstance(v, bool)) or is_sym(v)  # noqa: E731
        if isinstance(op, ast.Mult) and ta != tb:
            s, t = (b, a) if ta else (a, b)
            if scalar(s):
                return Token("scale", s, t)  # scalar * operator
        if isinstance(op, ast.Add) and (ta and tb or scalar(a) or scalar(b)):
            for u, v in ((a, b), (b, a)):
                if isinstance(u, (int, float)) and not isinstance(u, bool) and u == 0:
                    return v  # 0 + M = M (the start of an accumulation)
            return Token("add", a, b)  # operator sum
        if isinstance(op, ast.Div) and ta and scalar(b):
            return Token("div", a, b)
        raise Undecided(f"{type(op).__name__} on an abstract operator")
    if isinstance(op, ast.Div) and (is_sym(a) or is_sym(b)) and not isinstance(a, (NDArr, list, tuple, str)) \
            and not isinstance(b, (NDArr, list, tuple, str)):
        x, y = _real(as_int_term(a)), _real(as_int_term(b))
        yc = concrete_int(b)
        if yc == 0:
            raise RaiseEx("ZeroDivisionError", "division by zero")
        return x / y
    return NotImplemented


def matmul_hook(interp, a, b):
    if isinstance(a, Token) or isinstance(b, Token):
        return Token("matmul", a, b)
    return NotImplemented


def dagger(x):
    return Token("dagger", x)


def _transpose(x):
    if isinstance(x, Token):
        if x.tag == "conj":
            return dagger(x.args[0])  # transpose and conjugation commute: T(conj(x)) = conj(T(x)) = x^dagger
        return Token("T", x)
    raise Undecided("transpose of a non-abstract operator in the operator-algebra model")


def _conj(x):
    if isinstance(x, Token):
        if x.tag == "T":
            return dagger(x.args[0])
        return Token("conj", x)
    raise Undecided("conjugate of a non-abstract operator in the operator-algebra model")


for _nm, _fn in (("transpose", lambda interp, x, *a: _transpose(x)), ("conjugate", lambda interp, x: _conj(x)), ("conj", lambda interp, x: _conj(x))):
    if _nm not in models.NUMPY:
        models.NUMPY[_nm] = _fn

DIM = z3.Int("DIM")  # dimension of the Hilbert space all abstract operators act on (2^n)


def token_getattr(interp, obj, attr):
    if isinstance(obj, Token):
        if attr == "shape":
            d = z3.Int("DIM_other") if obj.tag == "wrong-size" else DIM
            return (d, d)
        if attr == "T":
            return _transpose(obj)
    return NotImplemented


HOOKS = {"binop": binop_hook, "matmul": matmul_hook, "getattr": token_getattr}


def ob(I, name, goal, extra=()):
    I.path.oblige(name, z3.BoolVal(goal) if isinstance(goal, bool) else goal, extra)


# =============================================================================================================
# contracts (recorders) of the callees
# =============================================================================================================
def dm_contracts():
    C = CD.contracts()
    q = f"{DMF}:get_multi_qubit_gate"
    C[q] = recorder(q, "get_multi_qubit_gate", result=lambda I, n, qs, gs: Token("multi_qubit_gate", n, list(I.iterate(qs)), list(I.iterate(gs))))
    q = f"{DMF}:amplitude_damping_operators"
    C[q] = recorder(q, "amplitude_damping_operators", result=lambda I, p: (Token("AD0", p), Token("AD1", p)))
    q = f"{DMF}:parameterized_one_qubit_unitary"
    C[q] = recorder(q, "parameterized_one_qubit_unitary", result=lambda I, t, p, l: Token("U3", t, p, l))
    return C


BUILDERS = CD.BUILDERS | {"get_multi_qubit_gate", "amplitude_damping_operators", "parameterized_one_qubit_unitary"}


def _memo(f):
    cache = {}

    def g(*idx):
        key = tuple(to_z3(i).get_id() if is_sym(i) else ("c", i) for i in idx)
        hit = cache.get(key)
        if hit is None:
            hit = cache[key] = (f(*idx), idx)  # idx kept alive: ast ids stay unique
        return hit[0]

    return g


def _memoised(spec):
    def wrapped(I, T, *a):
        r = spec(I, T, *a)
        for fld in ("_table", "_phase"):
            st = T.fields[fld].store
            st.f = _memo(st.f)
        return r

    return wrapped


class NMTask(TraceTask):
    """TraceTask with a wall-clock limit: running out of time is `undecided`, never a hang of the whole check"""
    WALL = 240
    replayer = None  # callable(z3 model) -> (witness dict, replayed bool): counter-model -> concrete input -> REAL function

    def run(self):
        eng = self._run_limited()
        if self.replayer is not None:
            for r in eng.results.values():
                if r.status == "refuted" and r.model is not None:
                    try:
                        r.witness, r.replayed = self.replayer(r.model)
                    except Exception as e:  # noqa: BLE001 - a failed replay leaves the obligation refuted-without-input
                        r.witness, r.replayed = {"replay_error": f"{type(e).__name__}: {e}"}, False
                elif r.status == "refuted" and hasattr(self.replayer, "search"):
                    try:
                        r.witness, r.replayed = self.replayer.search()
                    except Exception as e:  # noqa: BLE001
                        r.witness, r.replayed = {"replay_error": f"{type(e).__name__}: {e}"}, False
        return eng

    def _run_limited(self):
        import signal

        def _alarm(sig, frm):
            raise Undecided(f"wall-clock limit of {self.WALL} s for one task")

        old = signal.signal(signal.SIGALRM, _alarm)
        signal.alarm(self.WALL)
        try:
            return super().run()
        finally:
            signal.alarm(0)
            signal.signal(signal.SIGALRM, old)


def _with_replay(replayer, *a, **k):
    t = NMTask(*a, **k)
    t.replayer = replayer
    return t


def stab_contracts():
    """C07 gate contracts + run_circuit (concrete lists); MixedStabilizer.reduce is a recorder that keeps a snapshot of the
    mixture it is handed (its merging of equal tableaux is [B-only])"""
    from . import tasks_stab as TS
    from .stab_gates import RULES1

    C = dict(TS.all_contracts())
    for g in RULES1:  # same contracts; the closures of the result buffers are memoised (pure functions of the index terms): a
        # mutant that applies dozens of gates to ONE tableau must end in a verdict, not in an exponential term walk
        q = f"{TRANS}:{g}"
        C[q] = Contract(q, requires=C[q].requires, spec=_memoised(C[q].spec), clause=C[q].clause)
    q = f"{SSTATE}:MixedStabilizer.reduce"

    def _reduce(I, self):
        I.path.trace.append({"name": "reduce", "args": [], "self": self, "ret": None})
        I.path.ghost.setdefault("reduce_snap", []).append(list(self.fields["_mixture"]))
        return None

    C[q] = Contract(q, spec=_reduce, clause="recorded call; snapshot of the mixture at call time")
    return C


INLINE_STAB = set(TABLEAU_ACCESSORS) | {
    f"{CTAB}:CliffordTableau.copy", f"{NM}:*", f"{STATE}:QuantumState.*",
    f"{SSTATE}:MixedStabilizer.mixture", f"{SSTATE}:MixedStabilizer.mixture.setter", f"{SSTATE}:MixedStabilizer.probability",
    f"{SSTATE}:MixedStabilizer.apply_sigmax", f"{SSTATE}:MixedStabilizer.apply_sigmay", f"{SSTATE}:MixedStabilizer.apply_sigmaz",
    f"{SSTATE}:MixedStabilizer.__init__", f"{SSTATE}:MixedStabilizer.data", f"{SSTATE}:MixedStabilizer.n_qubits",
    f"{SSTATE}:Stabilizer.apply_circuit", f"{SSTATE}:Stabilizer.data", f"{SSTATE}:Stabilizer.tableau", f"{SSTATE}:Stabilizer.n_qubits",
    f"{SSTATE}:Stabilizer.__init__",
}
INLINE_DM = {f"{NM}:*", f"{STATE}:QuantumState.rep_data", "graphiq.backends.state_base:StateRepresentationBase.data",
             "graphiq.backends.state_base:StateRepresentationBase.data.setter"}


# =============================================================================================================
# symbolic inputs
# =============================================================================================================
def noise_obj(I, cls, params):
    """a noise object as its constructor leaves it (constructors are proved separately: `constructor_tasks`)"""
    o = Obj(I.get_class(NM, cls))
    o.fields["noise_parameters"] = dict(params)
    o.partial = False
    return o


def snap(T):
    return dict(obj=T, table=T.fields["_table"].reader(), phase=T.fields["_phase"].reader(), iphase=T.fields["_iphase"].reader(),
                table_arr=T.fields["_table"], phase_arr=T.fields["_phase"], iphase_arr=T.fields["_iphase"],
                stores=(T.fields["_table"].store, T.fields["_phase"].store, T.fields["_iphase"].store), n=T.fields["n_qubits"])


def mk_state(I, rep, L=1):
    """QuantumState holding a MixedStabilizer with L branches / a pure Stabilizer / a DensityMatrix (abstract matrix rho)"""
    n = z3.Int("n")
    I.path.assume(n >= 1)
    st = Obj(I.get_class(STATE, "QuantumState"))
    st.partial = False
    g = dict(n=n, rep_kind=rep, state=st)
    if rep == "mixed":
        r = Obj(I.get_class(SSTATE, "MixedStabilizer"))
        ws = [z3.Real(f"w{i}") for i in range(L)]
        for w in ws:
            I.path.assume(w >= 0)  # a weight may be 0 (a completely lost branch), never negative
        ts = [mk_clifford(I, f"T{i}", n) for i in range(L)]
        r.fields["_mixture"] = [(w, t) for w, t in zip(ws, ts)]
        g.update(weights=ws, tabs=ts, snaps=[snap(t) for t in ts], mixture_list=r.fields["_mixture"], items=list(r.fields["_mixture"]))
        st.fields.update(_rep_type="s", mixed=True, n_qubits=n)
    elif rep == "pure":
        r = Obj(I.get_class(SSTATE, "Stabilizer"))
        t = mk_clifford(I, "T0", n)
        r.fields["_tableau"] = t
        r.fields["_data"] = t
        g.update(tabs=[t], snaps=[snap(t)])
        st.fields.update(_rep_type="s", mixed=False, n_qubits=n)
    elif rep == "dm":
        r = Obj(I.get_class(DSTATE, "DensityMatrix"))
        r.fields["_data"] = Token("rho")
        g.update(rho=r.fields["_data"])
        st.fields.update(_rep_type="dm", mixed=True, n_qubits=n)
    else:
        raise KeyError(rep)
    r.partial = False
    st.fields["_rep_data"] = r
    g["rep"] = r
    I.path.ghost["nm"] = g
    return st


def reg_list_of(I, m):
    qs = [z3.Int(f"q{j}") for j in range(m)]
    return qs


def regs_ok(I, qs):
    n = z3.Int("n")
    parts = [idx_in(q, n) for q in qs]
    for a in range(len(qs)):
        for b in range(a + 1, len(qs)):
            parts.append(qs[a] != qs[b])
    return z3.And(*parts) if parts else True


# =============================================================================================================
# state-level checks
# =============================================================================================================
def check_tableau(I, lab, T, s0, errors, fresh_from=None):
    """tableau T now == the snapshot s0 with the Pauli errors [(pauli, qubit)] applied: signs by the ANTICOMMUTATION RULE,
    table / i-phase / sizes unchanged"""
    n = to_z3(s0["n"])
    ok_cls = isinstance(T, Obj) and T.cls.name == "CliffordTableau"
    ob(I, f"{lab}.is-a-CliffordTableau", ok_cls)
    if not ok_cls:
        return
    tab, ph, ip = T.fields["_table"], T.fields["_phase"], T.fields["_iphase"]
    ob(I, f"{lab}.size", z3.And(to_z3(T.fields["n_qubits"]) == n, to_z3(tab.shape[0]) == 2 * n, to_z3(tab.shape[1]) == 2 * n,
                                to_z3(ph.shape[0]) == 2 * n, to_z3(ip.shape[0]) == 2 * n))
    i, j = I.path.fresh("row"), I.path.fresh("col")
    ri = [i >= 0, i < 2 * n]
    ob(I, f"{lab}.table-unchanged", as_int_term(tab.get(i, j)) == as_int_term(s0["table"](i, j)), extra=ri + [j >= 0, j < 2 * n])
    flip = z3.IntVal(0)
    for pauli, q in errors:
        flip = flip + anticommutes(s0["table"](i, to_z3(q)), s0["table"](i, n + to_z3(q)), pauli)
    ob(I, f"{lab}.sign-flips-iff-anticommutes", as_int_term(ph.get(i)) == (as_int_term(s0["phase"](i)) + flip) % 2, extra=ri)
    ob(I, f"{lab}.iphase-unchanged", as_int_term(ip.get(i)) == as_int_term(s0["iphase"](i)), extra=ri)
    if fresh_from is not None:
        objs = [s["obj"] for s in fresh_from]
        stores = [st for s in fresh_from for st in s["stores"]]
        mine = (tab.store, ph.store, ip.store)
        ob(I, f"{lab}.is-a-copy(fresh object, fresh buffers)", all(T is not o for o in objs) and all(a is not b for a in mine for b in stores))


def check_unchanged(I, lab, s0):
    """frame: the input tableau object still has its buffers, with the contents it had"""
    T = s0["obj"]
    n = to_z3(s0["n"])
    same_bufs = T.fields.get("_table") is not None and T.fields["_table"].store is s0["stores"][0] and \
        T.fields["_phase"].store is s0["stores"][1] and T.fields["_iphase"].store is s0["stores"][2]
    i, j = I.path.fresh("row"), I.path.fresh("col")
    ri = [i >= 0, i < 2 * n]
    # (a gate contract rebinds _table/_phase to fresh arrays and leaves the old table buffer unspecified: both show up here)
    ob(I, f"{lab}.input-tableau-not-modified.table", as_int_term(T.fields["_table"].get(i, j)) == as_int_term(s0["table"](i, j)),
       extra=ri + [j >= 0, j < 2 * n])
    ob(I, f"{lab}.input-tableau-not-modified.table-buffer", as_int_term(NDArr(s0["stores"][0]).get(i, j)) == as_int_term(s0["table"](i, j)),
       extra=ri + [j >= 0, j < 2 * n])
    ob(I, f"{lab}.input-tableau-not-modified.phase", as_int_term(T.fields["_phase"].get(i)) == as_int_term(s0["phase"](i)), extra=ri)
    ob(I, f"{lab}.input-tableau-not-modified.iphase", as_int_term(T.fields["_iphase"].get(i)) == as_int_term(s0["iphase"](i)), extra=ri)
    ob(I, f"{lab}.input-tableau-not-modified.n", to_z3(T.fields["n_qubits"]) == n)
    return same_bufs


def pauli_string(k, m):
    """k-th Pauli string on m registers: base-4 digits, most significant digit = first register"""
    return [PAULI_ORDER[(k // 4 ** (m - 1 - j)) % 4] for j in range(m)]


def depolarizing_weights(p, m):
    K = 4 ** m
    p = _real(p)
    return [1 - p] + [p / (K - 1)] * (K - 1)


# =============================================================================================================
# replay of state-level counter-models on the REAL code (stabilizer / mixture branches)
# =============================================================================================================
def _model_mixture(model, L, m):
    """z3 counter-model -> concrete (n, registers, [(weight, table, phase, iphase)])"""
    def ev(t):
        return model.eval(t, model_completion=True)

    def num(t):
        v = ev(t)
        if z3.is_int_value(v):
            return v.as_long()
        if z3.is_rational_value(v):
            return v.numerator_as_long() / v.denominator_as_long()
        if z3.is_algebraic_value(v):
            return float(v.approx(20).as_fraction())
        raise ValueError(f"cannot evaluate {t}")

    n = num(z3.Int("n"))
    if not 1 <= n <= 6:
        raise ValueError("witness too large")
    regs = [num(z3.Int(f"q{j}")) for j in range(m)]
    branches = []
    for i in range(L):
        B = z3.Function(f"T{i}_tab", z3.IntSort(), z3.IntSort(), z3.BoolSort())
        R = z3.Function(f"T{i}_r", z3.IntSort(), z3.BoolSort())
        Ip = z3.Function(f"T{i}_i", z3.IntSort(), z3.BoolSort())
        table = [[1 if z3.is_true(ev(B(a, b))) else 0 for b in range(2 * n)] for a in range(2 * n)]
        phase = [1 if z3.is_true(ev(R(a))) else 0 for a in range(2 * n)]
        iphase = [1 if z3.is_true(ev(Ip(a))) else 0 for a in range(2 * n)]
        branches.append((float(num(z3.Real(f"w{i}"))), table, phase, iphase))
    return n, regs, branches, num


def _native_flips(table, n, errors):
    import numpy as np

    t = np.asarray(table, dtype=int)
    f = np.zeros(2 * n, dtype=int)
    for E, q in errors:
        a, b = PAULI_BITS[E]
        f = f + t[:, q] * b + t[:, n + q] * a
    return f % 2


def native_apply_vs_contract(kind, n, regs, branches, rep="mixed", **par):
    """run the REAL apply() of `kind` on the concrete state and compare with the channel definition -> None | difference text"""
    import numpy as np
    import graphiq.noise.noise_models as nm
    from graphiq.state import QuantumState
    from graphiq.backends.stabilizer.state import MixedStabilizer, Stabilizer
    from graphiq.backends.stabilizer.clifford_tableau import CliffordTableau

    tabs = []
    for w, table, phase, iphase in branches:
        t = CliffordTableau(n)
        t.table = np.array(table, dtype=int)
        t.phase = np.array(phase, dtype=int)
        t.iphase = np.array(iphase, dtype=int)
        tabs.append(t)
    before = [t.copy() for t in tabs]
    ws = [b[0] for b in branches]
    st = QuantumState(n, rep_type="s", mixed=(rep == "mixed"))
    st._rep_data = MixedStabilizer([(float(w), t) for w, t in zip(ws, tabs)]) if rep == "mixed" else Stabilizer(tabs[0])
    m = len(regs)
    if kind == "depolarizing":
        p = par["p"]
        f = [1 - p] + [p / (4 ** m - 1)] * (4 ** m - 1)
        want = [(ws[i] * f[k], i, list(zip(pauli_string(k, m), regs))) for i in range(len(tabs)) for k in range(4 ** m) if f[k] > 0]
        model = nm.DepolarizingNoise(p)
    elif kind == "pauli":
        want = [(ws[i], i, [(par["E"], regs[0])] if par["E"] != "I" else []) for i in range(len(tabs))]
        model = nm.PauliError(par["E"])
    elif kind == "loss":
        want = [((1 - par["loss"]) * ws[i], i, []) for i in range(len(tabs))]
        model = nm.PhotonLoss(par["loss"])
    else:
        raise KeyError(kind)
    saved = nm.REDUCE_STABILIZER_MIXTURE
    nm.REDUCE_STABILIZER_MIXTURE = False
    try:
        try:
            model.apply(st, n, list(regs))
        except Exception as e:  # noqa: BLE001
            return f"real apply() raises {type(e).__name__}: {e}"
    finally:
        nm.REDUCE_STABILIZER_MIXTURE = saved
    r = st.rep_data
    got = list(r.mixture) if isinstance(r, MixedStabilizer) else [(1.0, r.data)]
    if rep == "pure" and kind == "loss" and not isinstance(r, MixedStabilizer):
        return "a pure state did not become a mixture"
    if rep == "pure" and kind != "loss":
        want = [(1.0, 0, want[0][2])]
    if len(got) != len(want):
        return f"{len(got)} branches, the channel prescribes {len(want)}"
    for pos, ((w, t), (ww, i, errs)) in enumerate(zip(got, want)):
        if abs(w - ww) > 1e-9 * max(1.0, abs(ww)):
            return f"branch {pos}: weight {w}, prescribed {ww}"
        if not np.array_equal(np.asarray(t.table).astype(int), before[i].table):
            return f"branch {pos}: table changed"
        exp = (before[i].phase + _native_flips(before[i].table, n, errs)) % 2
        if not np.array_equal(np.asarray(t.phase).astype(int) % 2, exp):
            return f"branch {pos} (error {errs}): signs {np.asarray(t.phase).tolist()}, anticommutation rule gives {exp.tolist()}"
        if kind == "depolarizing" and (any(t is o for o in tabs) or any(np.shares_memory(t.table, o.table) or np.shares_memory(t.phase, o.phase) for o in tabs)):
            return f"branch {pos}: the branch tableau is not a copy (shares the input object / its buffers)"
    if kind == "depolarizing":
        for i, (t, b) in enumerate(zip(tabs, before)):
            if not (np.array_equal(t.table, b.table) and np.array_equal(t.phase, b.phase)):
                return f"input branch {i} was modified"
    return None


def mixture_replayer(kind, rep, L, m, **fixed):
    def replay(model):
        n, regs, branches, num = _model_mixture(model, L, m)
        if rep == "pure":
            branches = [(1.0,) + tuple(branches[0][1:])]
        par = dict(fixed)
        if kind == "depolarizing":
            par["p"] = float(num(z3.Real("p")))
        if kind == "loss":
            par["loss"] = float(num(z3.Real("loss")))
        wit = {"function": f"{NM}:{ {'depolarizing': 'DepolarizingNoise', 'pauli': 'PauliError', 'loss': 'PhotonLoss'}[kind] }.apply",
               "representation": rep, "n_qubits": n, "reg_list": regs, "parameters": par,
               "mixture": [{"weight": b[0], "table": b[1], "phase": b[2], "iphase": b[3]} for b in branches]}
        if any(not 0 <= q < n for q in regs):
            wit["note"] = "model completion violates the register precondition; not replayed"
            return wit, False
        d = native_apply_vs_contract(kind, n, regs, branches, rep=rep, **par)
        if d is None:
            wit["note"] = "real code agrees with the channel definition on this model (the failing clause is not observable natively, or a spurious model)"
            return wit, False
        wit["difference"] = d
        return wit, True

    def search():
        """refuted without a model (e.g. the body raises on a feasible path): look for a failing concrete input among small ones"""
        import itertools

        n = max(1, m)
        regs = list(range(m))
        ident = [[1 if a == b else 0 for b in range(2 * n)] for a in range(2 * n)]
        ones = [[1] * (2 * n) for _ in range(2 * n)]
        for table, strength, w in itertools.product((ident, ones), (0.5, 0.0, 1.0, 0.25), (0.5, 0.0)):
            branches = [(1.0 if rep == "pure" else w, table, [0] * (2 * n), [0] * (2 * n)) for _ in range(L)]
            par = dict(fixed)
            if kind == "depolarizing":
                par["p"] = strength
            if kind == "loss":
                par["loss"] = strength
            d = native_apply_vs_contract(kind, n, regs, branches, rep=rep, **par)
            if d is not None:
                return {"function": f"{NM}:{kind}", "representation": rep, "n_qubits": n, "reg_list": regs, "parameters": par,
                        "mixture": [{"weight": b[0], "table": b[1], "phase": b[2], "iphase": b[3]} for b in branches], "difference": d,
                        "found_by": "search over small inputs after the obligation failed without a counter-model"}, True
        return None, False

    replay.search = search
    return replay


# =============================================================================================================
# DepolarizingNoise.apply
# =============================================================================================================
DEPOL = f"{NM}:DepolarizingNoise.apply"


def _prob_in_unit(I, name="p"):
    p = z3.Real(name)
    I.path.assume(z3.And(p >= 0, p <= 1))
    return p


def depol_inputs(rep, L, m):
    def mk(I):
        p = _prob_in_unit(I)
        st = mk_state(I, rep, L)
        nz = noise_obj(I, "DepolarizingNoise", {"Depolarizing probability": p, "After gate": True})
        I.path.ghost["nm"].update(p=p, m=m)
        return [nz, st, z3.Int("n"), reg_list_of(I, m)]

    return mk


def depol_mixed_spec(weights_of=depolarizing_weights, string_of=pauli_string, rule=None):
    def spec(I, cur, noise, state, n_quantum, reg_list):
        g = I.path.ghost["nm"]
        lab = cur.label
        m, L = len(reg_list), len(g["tabs"])
        f = weights_of(g["p"], m)
        K = 4 ** m
        cur.expect("reduce")
        rep = state.fields.get("_rep_data")
        ob(I, f"{lab}:representation-object-kept", rep is g["rep"])
        snaps = I.path.ghost.get("reduce_snap", [])
        ob(I, f"{lab}:mixture-installed-before-reduce", len(snaps) == 1 and rep is g["rep"] and isinstance(rep.fields.get("_mixture"), list)
           and len(rep.fields["_mixture"]) == len(snaps[0]) and all(a is b for a, b in zip(rep.fields["_mixture"], snaps[0])))
        if len(snaps) != 1:
            return None
        mix = snaps[0]
        keep = [k for k in range(K) if I.path.decide(f[k] > 0)]
        want = [(i, k) for i in range(L) for k in keep]
        ob(I, f"{lab}:number-of-branches", len(mix) == len(want))
        if len(mix) != len(want):
            return None
        total = z3.RealVal(0)
        seen, seen_stores = [], []
        for r, ((i, k), item) in enumerate(zip(want, mix)):
            ps = string_of(k, m)
            bl = f"{lab}:branch(i={i},E={''.join(ps)})"
            okt = isinstance(item, tuple) and len(item) == 2
            ob(I, f"{bl}.is-a-pair", okt)
            if not okt:
                continue
            w, T = item
            ob(I, f"{bl}.weight", _real(w) == g["weights"][i] * f[k])
            total = total + _real(w)
            (rule or check_tableau)(I, bl, T, g["snaps"][i], list(zip(ps, reg_list)), fresh_from=g["snaps"])
            mine = [T.fields[f_].store for f_ in ("_table", "_phase", "_iphase")] if isinstance(T, Obj) and "_table" in T.fields else []
            ob(I, f"{bl}.distinct-from-other-branches", all(T is not o for o in seen) and all(a is not b for a in mine for b in seen_stores))
            seen.append(T)
            seen_stores.extend(mine)
        ob(I, f"{lab}:total-weight-preserved", total == sum(g["weights"], z3.RealVal(0)))
        for i in range(L):
            check_unchanged(I, f"{lab}:input-branch({i})", g["snaps"][i])
        ob(I, f"{lab}:input-mixture-list-not-modified", len(g["mixture_list"]) == L and all(a is b for a, b in zip(g["mixture_list"], g["items"])))
        return None

    return spec


def depol_dm_spec(weights_of=depolarizing_weights, string_of=pauli_string):
    def spec(I, cur, noise, state, n_quantum, reg_list):
        g = I.path.ghost["nm"]
        m = len(reg_list)
        f = weights_of(g["p"], m)
        cur.trace[:] = [e for e in cur.trace if e["name"] not in BUILDERS]
        lab = cur.label
        ev = cur.trace[cur.pos] if cur.pos < len(cur.trace) else None
        okc = ev is not None and ev["name"] == "apply_channel" and len(ev["args"]) == 1 and isinstance(ev["args"][0], list)
        ob(I, f"{lab}:trace.apply_channel(list of Kraus operators)", okc)
        if not okc:
            return None
        cur.pos += 1
        ks = ev["args"][0]
        ob(I, f"{lab}:number-of-kraus-operators", len(ks) == 4 ** m)
        for k, K in enumerate(ks[:4 ** m]):
            E = string_of(k, m)
            kl = f"{lab}:kraus[{k},E={''.join(E)}]"
            oks = isinstance(K, Token) and K.tag == "scale" and len(K.args) == 2
            ob(I, f"{kl}.is-scalar-times-operator", oks)
            if not oks:
                continue
            ob(I, f"{kl}.weight-is-sqrt(f_k)", same(K.args[0], SQRT(f[k])))
            ob(I, f"{kl}.operator-is-E-embedded-at-the-registers",
               same(K.args[1], Token("multi_qubit_gate", g["n"], list(reg_list), [Token(DM_TOKEN[s_]) for s_ in E])))
        ob(I, f"{cur.label}:state-object-kept", state.fields.get("_rep_data") is g["rep"] and g["rep"].fields.get("_data") is g["rho"])
        return None

    return spec


def depol_tasks(Cs, Cd):
    T = []
    for L, m in ((1, 1), (2, 1), (1, 2)):
        T.append(_with_replay(mixture_replayer("depolarizing", "mixed", L, m),
                              DEPOL, depol_inputs("mixed", L, m), depol_mixed_spec(), Cs, inline=INLINE_STAB, hooks=HOOKS,
                           label=f"DepolarizingNoise.apply[mixture,L={L},m={m}]", requires=lambda I, nz, st, n, qs: regs_ok(I, qs),
                           clause="mixture' = [(p_i f_k, E_k on a copy of t_i)] in order, f = (1-p, p/(K-1)..), zero-weight strings dropped; "
                                  "signs by the anticommutation rule; inputs unchanged; reduce() once, afterwards"))
    T.append(NMTask(DEPOL, depol_inputs("pure", 1, 1), lambda I, cur, *a: None, Cs, inline=INLINE_STAB | {"graphiq.backends.state_base:*"},
                    hooks=HOOKS, label="DepolarizingNoise.apply[pure]", requires=lambda I, nz, st, n, qs: regs_ok(I, qs), expect_raise=["TypeError"],
                    clause="AS THE CODE EXISTS (C06-F8, latent: the compilers hand a MixedStabilizer whenever noise is simulated): on a pure "
                           "Stabilizer the state is not flagged mixed before the new MixedStabilizer is stored -> TypeError"))
    for m in (1, 2):
        T.append(NMTask(DEPOL, depol_inputs("dm", 1, m), depol_dm_spec(), Cd, inline=INLINE_DM, hooks=HOOKS,
                           label=f"DepolarizingNoise.apply[dm,m={m}]", requires=lambda I, nz, st, n, qs: regs_ok(I, qs),
                           clause="apply_channel([sqrt(f_k) * E_k embedded at reg_list]) exactly once, all 4^m strings in order"))
    return T


# =============================================================================================================
# PauliError.apply
# =============================================================================================================
PAULI = f"{NM}:PauliError.apply"


def simple_inputs(cls, params, rep, L=1, m=1):
    """params: dict or callable(I) -> dict (symbolic strengths)"""
    def mk(I):
        st = mk_state(I, rep, L)
        pr = params(I) if callable(params) else dict(params)
        nz = noise_obj(I, cls, pr)
        I.path.ghost["nm"].update(params=pr, m=m)
        return [nz, st, z3.Int("n"), reg_list_of(I, m)]

    return mk


def _mixture_in_place(I, lab, g, rep, errors_of, weight_of, same_list=None):
    """mixture' has the SAME tableau objects, in order, each with the errors applied in place, weights weight_of(i)"""
    mix = rep.fields.get("_mixture")
    L = len(g["tabs"])
    ok = isinstance(mix, list) and len(mix) == L
    ob(I, f"{lab}:number-of-branches", ok)
    if not ok:
        return
    if same_list is not None:
        ob(I, f"{lab}:mixture-list-identity", (mix is g["mixture_list"]) == same_list)
    for i, item in enumerate(mix):
        bl = f"{lab}:branch(i={i})"
        okt = isinstance(item, tuple) and len(item) == 2
        ob(I, f"{bl}.is-a-pair", okt)
        if not okt:
            continue
        w, T = item
        ob(I, f"{bl}.weight", _real(w) == weight_of(i))
        ob(I, f"{bl}.same-tableau-object", T is g["tabs"][i])
        check_tableau(I, bl, T, g["snaps"][i], errors_of(i))


def pauli_spec(rep, E, effective=None):
    eff = effective or E  # canaries claim a different effect than the error's name

    def spec(I, cur, noise, state, n_quantum, reg_list):
        g = I.path.ghost["nm"]
        lab = cur.label
        q = reg_list[0]
        r = state.fields.get("_rep_data")
        ob(I, f"{lab}:representation-object-kept", r is g["rep"])
        if rep == "dm":
            cur.trace[:] = [e for e in cur.trace if e["name"] not in BUILDERS]
            if E == "I":
                # the identity on the whole register: a 2^n x 2^n unit matrix handed to apply_unitary
                ok = cur.pos < len(cur.trace) and cur.trace[cur.pos]["name"] == "apply_unitary" and len(cur.trace[cur.pos]["args"]) == 1 \
                    and isinstance(cur.trace[cur.pos]["args"][0], NDArr) and cur.trace[cur.pos]["args"][0].ndim == 2
                ob(I, f"{lab}:trace.apply_unitary(identity matrix)", ok)
                if ok:
                    U = cur.trace[cur.pos]["args"][0]
                    cur.pos += 1
                    i, j = I.path.fresh("row"), I.path.fresh("col")
                    dim = z3.Function("pow2", z3.IntSort(), z3.IntSort())(to_z3(g["n"]))
                    ob(I, f"{lab}:identity.shape", z3.And(to_z3(U.shape[0]) == dim, to_z3(U.shape[1]) == dim))
                    ob(I, f"{lab}:identity.entries", as_int_term(U.get(i, j)) == z3.If(i == j, 1, 0), extra=[i >= 0, j >= 0, i < dim, j < dim])
            else:
                cur.expect("apply_unitary", Token("one_qubit_gate", g["n"], q, Token(DM_TOKEN[eff])))
            ob(I, f"{lab}:state-object-kept", r.fields.get("_data") is g["rho"])
        elif rep == "pure":
            T = r.fields.get("_tableau")
            ob(I, f"{lab}:same-tableau-object", T is g["tabs"][0])
            check_tableau(I, f"{lab}:tableau", T, g["snaps"][0], [(eff, q)])
        else:
            _mixture_in_place(I, lab, g, r, lambda i: [(eff, q)], lambda i: g["weights"][i], same_list=(E == "I"))
            ob(I, f"{lab}:input-mixture-list-not-modified", len(g["mixture_list"]) == len(g["items"]) and all(
                a is b for a, b in zip(g["mixture_list"], g["items"])))
        return None

    return spec


def pauli_tasks(Cs, Cd):
    T = []
    one = lambda I, nz, st, n, qs: regs_ok(I, qs)  # noqa: E731
    for rep, C, inl, L in (("mixed", Cs, INLINE_STAB, 2), ("pure", Cs, INLINE_STAB, 1), ("dm", Cd, INLINE_DM, 1)):
        for E in ("X", "Y", "Z", "I"):
            T.append(_with_replay(None if rep == "dm" else mixture_replayer("pauli", rep, L, 1, E=E), PAULI, simple_inputs("PauliError", {"Pauli error": E, "After gate": True}, rep, L), pauli_spec(rep, E), C,
                               inline=inl, hooks=HOOKS, label=f"PauliError.apply[{rep},{E}]", requires=one,
                               clause="the named Pauli on the given register: signs by the anticommutation rule (tableau / every branch, "
                                      "weights kept) / apply_unitary(E embedded at the register); nothing else"))
        T.append(NMTask(PAULI, simple_inputs("PauliError", {"Pauli error": "W", "After gate": True}, rep, L), lambda I, cur, *a: None, C,
                           inline=inl, hooks=HOOKS, label=f"PauliError.apply[{rep},unknown name]", requires=one, expect_raise=["ValueError"],
                           clause="a name outside I/X/Y/Z raises ValueError"))
    return T


# =============================================================================================================
# PhotonLoss.apply
# =============================================================================================================
LOSS = f"{NM}:PhotonLoss.apply"


def _loss_params(I):
    lam = z3.Real("loss")
    I.path.assume(z3.And(lam >= 0, lam <= 1))
    return {"loss rate": lam, "After gate": True}


def loss_spec(rep, factor=lambda lam: 1 - lam):
    def spec(I, cur, noise, state, n_quantum, reg_list):
        g = I.path.ghost["nm"]
        lab = cur.label
        lam = g["params"]["loss rate"]
        r = state.fields.get("_rep_data")
        if rep == "dm":
            ob(I, f"{lab}:representation-object-kept", r is g["rep"])
            ob(I, f"{lab}:rho' = (1-loss) rho", same(r.fields.get("_data"), Token("scale", factor(lam), g["rho"])))
        elif rep == "mixed":
            ob(I, f"{lab}:representation-object-kept", r is g["rep"])
            _mixture_in_place(I, lab, g, r, lambda i: [], lambda i: factor(lam) * g["weights"][i], same_list=True)
        else:
            okr = isinstance(r, Obj) and r.cls.name == "MixedStabilizer" and r is not g["rep"]
            ob(I, f"{lab}:pure-state-becomes-a-mixture-object", okr)
            ob(I, f"{lab}:state-flagged-mixed", state.fields.get("mixed") is True)
            if okr:
                g2 = dict(g, mixture_list=None, weights=[z3.RealVal(1)])
                _mixture_in_place(I, lab, g2, r, lambda i: [], lambda i: factor(lam) * 1)
            ob(I, f"{lab}:old-representation-keeps-its-tableau", g["rep"].fields.get("_tableau") is g["tabs"][0])
        return None

    return spec


def loss_tasks(Cs, Cd):
    T = []
    for rep, C, inl, L in (("mixed", Cs, INLINE_STAB, 2), ("pure", Cs, INLINE_STAB, 1), ("dm", Cd, INLINE_DM, 1)):
        T.append(_with_replay(None if rep == "dm" else mixture_replayer("loss", rep, L, 1), LOSS, simple_inputs("PhotonLoss", _loss_params, rep, L),
                              loss_spec(rep), C, inline=inl, hooks=HOOKS,
                           label=f"PhotonLoss.apply[{rep}]", requires=lambda I, nz, st, n, qs: regs_ok(I, qs),
                           clause="every weight / the matrix is multiplied by (1 - loss rate); tableaux untouched (same objects); a pure "
                                  "stabilizer state becomes the one-branch mixture [(1-l, same tableau)] and the state is flagged mixed"))
    return T


# =============================================================================================================
# NoNoise.apply, replacement / amplitude-damping models (dm dispatch), not-implemented models
# =============================================================================================================
def nothing_spec(rep):
    def spec(I, cur, noise, state, n_quantum, reg_list):
        g = I.path.ghost["nm"]
        lab = cur.label
        r = state.fields.get("_rep_data")
        ob(I, f"{lab}:representation-object-kept", r is g["rep"])
        if rep == "dm":
            ob(I, f"{lab}:matrix-untouched", r.fields.get("_data") is g["rho"])
        elif rep == "pure":
            ob(I, f"{lab}:same-tableau-object", r.fields.get("_tableau") is g["tabs"][0])
            check_tableau(I, f"{lab}:tableau", r.fields.get("_tableau"), g["snaps"][0], [])
        else:
            _mixture_in_place(I, lab, g, r, lambda i: [], lambda i: g["weights"][i], same_list=True)
        return None

    return spec


def other_tasks(Cs, Cd):
    T = []
    ok = lambda I, nz, st, n, qs: regs_ok(I, qs)  # noqa: E731
    reps = (("mixed", Cs, INLINE_STAB, 2), ("pure", Cs, INLINE_STAB, 1), ("dm", Cd, INLINE_DM, 1))
    for rep, C, inl, L in reps:
        T.append(NMTask(f"{NM}:NoNoise.apply", simple_inputs("NoNoise", {"After gate": True}, rep, L), nothing_spec(rep), C, inline=inl,
                           hooks=HOOKS, label=f"NoNoise.apply[{rep}]", requires=ok, clause="pure: no effect, no call, state untouched"))
    # OneQubitGateReplacement (also the parent of the *PerturbedError classes, which only differ in their constructor)
    U = Token("U")

    def repl_dm(I, cur, noise, state, n_quantum, reg_list):
        g = I.path.ghost["nm"]
        cur.trace[:] = [e for e in cur.trace if e["name"] not in BUILDERS]
        cur.expect("apply_unitary", Token("one_qubit_gate", g["n"], reg_list[0], U))
        return None

    T.append(NMTask(f"{NM}:OneQubitGateReplacement.apply", simple_inputs("OneQubitGateReplacement", {"One-qubit unitary": U}, "dm"),
                       repl_dm, Cd, inline=INLINE_DM, hooks=HOOKS, label="OneQubitGateReplacement.apply[dm]", requires=ok,
                       clause="apply_unitary(the stored one-qubit unitary embedded at the register) exactly once"))
    T.append(NMTask(f"{NM}:OneQubitGateReplacement.apply", simple_inputs("OneQubitGateReplacement", {"One-qubit unitary": U}, "pure"),
                       nothing_spec("pure"), Cs, inline=INLINE_STAB, hooks=HOOKS, label="OneQubitGateReplacement.apply[pure]", requires=ok,
                       clause="AS THE CODE EXISTS: an empty gate list is run - the tableau is left as it is (the replaced gate is dropped "
                              "on the stabilizer backend; documented behaviour, not a physical claim)"))
    T.append(NMTask(f"{NM}:OneQubitGateReplacement.apply", simple_inputs("OneQubitGateReplacement", {"One-qubit unitary": U}, "mixed", 1),
                       lambda I, cur, *a: None, Cs, inline=INLINE_STAB, hooks=HOOKS, label="OneQubitGateReplacement.apply[mixed]", requires=ok,
                       expect_raise=["TypeError"], clause="AS THE CODE EXISTS: a stabilizer mixture is rejected with TypeError"))

    # AmplitudeDampingNoise, one register
    def damp_params(I):
        return {"damping_probability": _prob_in_unit(I, "gamma"), "After gate": True}

    def damp_dm(I, cur, noise, state, n_quantum, reg_list):
        g = I.path.ghost["nm"]
        gam = g["params"]["damping_probability"]
        cur.trace[:] = [e for e in cur.trace if e["name"] not in BUILDERS]
        if not I.path.decide(_real(gam) == 0):
            cur.expect("apply_channel", [Token("multi_qubit_gate", g["n"], list(reg_list), [Token("AD0", gam)]),
                                         Token("multi_qubit_gate", g["n"], list(reg_list), [Token("AD1", gam)])])
        return None

    T.append(NMTask(f"{NM}:AmplitudeDampingNoise.apply", simple_inputs("AmplitudeDampingNoise", damp_params, "dm"), damp_dm, Cd,
                       inline=INLINE_DM, hooks=HOOKS, label="AmplitudeDampingNoise.apply[dm,m=1]", requires=ok,
                       clause="gamma = 0: nothing; else apply_channel([K0(gamma), K1(gamma)] embedded at the register) once"))
    for rep, C, inl, exc in (("pure", Cs, INLINE_STAB, "NotImplementedError"), ("mixed", Cs, INLINE_STAB, "TypeError")):
        T.append(NMTask(f"{NM}:AmplitudeDampingNoise.apply", simple_inputs("AmplitudeDampingNoise", damp_params, rep), lambda I, cur, *a: None, C,
                           inline=inl, hooks=HOOKS, label=f"AmplitudeDampingNoise.apply[{rep}]", requires=ok, expect_raise=[exc],
                           clause="AS THE CODE EXISTS: not available on the stabilizer backend (raises)"))
    # models that are declared but not implemented: every representation is rejected
    for cls in ("MixedUnitaryError", "CoherentUnitaryError", "MeasurementError", "ResetError"):
        for rep, C, inl, L in reps:
            exc = "TypeError" if rep == "mixed" else "NotImplementedError"
            T.append(NMTask(f"{NM}:{cls}.apply", simple_inputs(cls, {}, rep, 1), lambda I, cur, *a: None, C, inline=inl, hooks=HOOKS,
                               label=f"{cls}.apply[{rep}]", requires=ok, expect_raise=[exc], clause="declared, not implemented: raises"))
    return T


# =============================================================================================================
# constructors / noise_parameters
# =============================================================================================================
def _type_hook(I, obj):
    if isinstance(obj, dict):
        from pyvc.values import Opaque

        return Opaque("type", "dict")
    return NotImplemented


def _is_hook(I, a, b):
    from pyvc.values import Opaque

    for u, v in ((a, b), (b, a)):
        if isinstance(u, Opaque) and u.tag == "type" and isinstance(v, Builtin):
            return u.payload == v.name
    return NotImplemented


CTOR_HOOKS = dict(HOOKS, type=_type_hook)
CTOR_HOOKS["is"] = _is_hook


def constructor_tasks(Cd):
    """the REAL constructor chain (class __init__ -> AdditionNoiseBase / ReplacementNoiseBase -> NoiseBase) leaves exactly the
    stated noise_parameters dictionary: the strength under its key, and "After gate": True for additive models"""
    T = []
    pi = math.pi

    def mk(cls, nargs):
        def f(I):
            return [Obj(I.get_class(NM, cls))] + [z3.Real(f"a{k}") for k in range(nargs)]

        return f

    def spec_of(expected):
        def spec(I, cur, self, *a):
            lab = cur.label
            cur.trace[:] = [e for e in cur.trace if e["name"] not in BUILDERS]
            want = expected(*a)
            got = self.fields.get("noise_parameters")
            okd = isinstance(got, dict) and set(got) == set(want)
            ob(I, f"{lab}:noise_parameters.keys", okd)
            if okd:
                for k in want:
                    r = same(got[k], want[k])
                    ob(I, f"{lab}:noise_parameters[{k!r}]", r)
            ob(I, f"{lab}:no-other-attribute", set(self.fields) == {"noise_parameters"})
            return None

        return spec

    table = [
        ("NoNoise", 0, lambda: {"After gate": True}),
        ("DepolarizingNoise", 1, lambda p: {"Depolarizing probability": p, "After gate": True}),
        ("PauliError", 1, lambda e: {"Pauli error": e, "After gate": True}),
        ("PhotonLoss", 1, lambda l: {"loss rate": l, "After gate": True}),
        ("AmplitudeDampingNoise", 1, lambda g: {"damping_probability": g, "After gate": True}),
        ("OneQubitGateReplacement", 1, lambda u: {"One-qubit unitary": u}),
        ("HadamardPerturbedError", 3, lambda t, p, l: {"One-qubit unitary": Token("U3", pi / 2 + t, p, pi + l), "Perturbation": (t, p, l),
                                                       "Original parameters": (pi / 2, 0, pi)}),
        ("PhasePerturbedError", 3, lambda t, p, l: {"One-qubit unitary": Token("U3", t, p, pi / 2 + l), "Perturbation": (t, p, l),
                                                    "Original parameters": (0, 0, pi / 2)}),
        ("SigmaXPerturbedError", 3, lambda t, p, l: {"One-qubit unitary": Token("U3", pi + t, p, pi + l), "Perturbation": (t, p, l),
                                                     "Original parameters": (pi, 0, pi)}),
    ]
    for cls, k, exp in table:
        T.append(NMTask(f"{NM}:{cls}.__init__", mk(cls, k), spec_of(exp), Cd, inline={f"{NM}:*"}, hooks=CTOR_HOOKS,
                           label=f"{cls}.__init__", clause="noise_parameters is exactly the stated dictionary; no other attribute, no effect"))
    return T


# =============================================================================================================
# the last hop compile -> apply: _apply_additional_noise of both compilers (qubit index as given by the compiler)
# =============================================================================================================
SCOMP = CS.SCOMP
DCOMP = CD.DCOMP
SLOT_CLASSES = ("DepolarizingNoise", "PauliError")  # two different classes: control and target slot cannot be confused


def dispatch_contracts():
    C = {}
    for cls in SLOT_CLASSES + ("NoNoise",):
        q = f"{NM}:{cls}.apply"
        C[q] = recorder(q, f"{cls}.apply")
    return C


def dispatch_inputs(compiler, opname, rt, ct, tt, listed=True):
    def mk(I):
        n_p, n_e, n_c = z3.Int("n_p"), z3.Int("n_e"), z3.Int("n_c")
        syms = dict(n_p=n_p, n_e=n_e, n_c=n_c, r=z3.Int("reg"), rt=rt, c=z3.Int("ctrl"), ct=ct, t=z3.Int("targ"), tt=tt, creg=z3.Int("creg"))
        I.path.assume(z3.And(n_p >= 0, n_e >= 0, n_c >= 0))
        comp = Obj(I.get_class(*compiler))
        comp.fields.update(_measurement_determinism="probabilistic", _noise_simulation=True, _monte_carlo=False)
        state = Obj(I.get_class(STATE, "QuantumState"))
        op = CS.make_op(I, opname, syms)
        slots = [Obj(I.get_class(NM, c)) for c in SLOT_CLASSES]
        controlled = opname in CS.TWO or opname in CS.CLASSICAL
        if opname not in ("Input", "Output"):
            op.fields["noise"] = (list(slots) if listed else slots[0]) if controlled else slots[0]
        qual = f"{CS.CBASE}:CompilerBase.reg_to_index_func"
        q_index = I.call_function(FuncRef(CS.CBASE, source.find(qual)[1], qual), [n_p], {}, force_body=True)
        I.path.ghost["syms"] = syms
        I.path.ghost["slots"] = slots
        I.path.ghost["noise0"] = op.fields.get("noise")
        return [comp, state, op, n_p + n_e, q_index]

    return mk


def dispatch_spec(opname, rt, ct, tt, dm, listed=True, swap=False):
    def spec(I, cur, comp, state, op, n_quantum, q_index):
        s = I.path.ghost["syms"]
        N0, N1 = I.path.ghost["slots"]
        lab = cur.label
        n = s["n_p"] + s["n_e"]
        want_self = []
        if opname in CS.ONE or opname == "Identity":
            cur.expect(f"{SLOT_CLASSES[0]}.apply", state, n, [CS.idx(s, s["r"], rt)])
            want_self = [N0]
        elif opname in CS.TWO:
            a, b = (CS.idx(s, s["c"], ct), CS.idx(s, s["t"], tt)) if not swap else (CS.idx(s, s["t"], tt), CS.idx(s, s["c"], ct))
            cur.expect(f"{SLOT_CLASSES[0]}.apply", state, n, [a])
            cur.expect(f"{SLOT_CLASSES[1 if listed else 0]}.apply", state, n, [b])
            want_self = [N0, N1 if listed else N0]
            nz = op.fields.get("noise")
            if listed:
                ob(I, f"{lab}:op.noise-kept", nz is I.path.ghost["noise0"] and len(nz) == 2 and nz[0] is N0 and nz[1] is N1)
            else:
                ob(I, f"{lab}:op.noise-becomes-[n,n]", isinstance(nz, list) and len(nz) == 2 and nz[0] is N0 and nz[1] is N0)
        got_self = [e["self"] for e in cur.trace]
        ob(I, f"{lab}:applied-noise-objects", len(got_self) == len(want_self) and all(a is b for a, b in zip(got_self, want_self)))
        return None

    return spec


def dispatch_requires(opname, rt, ct, tt):
    base = CS.requires_factory(opname, rt, ct, tt)
    return lambda I, comp, state, op, n, qi: base(I, comp, state, op, n, qi, None)


def noisy_gate_inputs(compiler, opname, rt):
    base = dispatch_inputs(compiler, opname, rt, None, None)

    def mk(I):
        a = base(I)
        from .common import int_vector

        return a + [int_vector(I, "CR", z3.Int("n_c"))]

    return mk


def noisy_gate_spec(opname, rt):
    def spec(I, cur, comp, state, op, n_quantum, q_index, cregs):
        s = I.path.ghost["syms"]
        N0, _ = I.path.ghost["slots"]
        cur.expect(f"{SLOT_CLASSES[0]}.apply", state, s["n_p"] + s["n_e"], [CS.idx(s, s["r"], rt)])
        ob(I, f"{cur.label}:applied-noise-object", len(cur.trace) == 1 and cur.trace[0]["self"] is N0)
        return None

    return spec


def dispatch_tasks():
    C = dispatch_contracts()
    T = []
    # replacement noise on an uncontrolled one-qubit operation (the only way CompilerBase.compile reaches compile_one_noisy_gate):
    # the noise object's apply() REPLACES the gate - called once, at the operation's register index, nothing else
    for compiler in ((SCOMP, "StabilizerCompiler"), (DCOMP, "DensityMatrixCompiler")):
        for opname in list(CS.ONE) + ["Identity"]:
            for rt in "ep":
                base_req = CS.requires_factory(opname, rt, None, None)
                T.append(NMTask(f"{compiler[0]}:{compiler[1]}.compile_one_noisy_gate", noisy_gate_inputs(compiler, opname, rt),
                                noisy_gate_spec(opname, rt), C, inline=CS.INLINE, hooks=CS.HOOKS,
                                requires=(lambda br: (lambda I, comp, state, op, n, qi, cr: br(I, comp, state, op, n, qi, cr)))(base_req),
                                label=f"{compiler[1]}.compile_one_noisy_gate[{opname},{rt}]",
                                clause="one-qubit operation with replacement noise: noise.apply(state, n_quantum, [index of its register]) "
                                       "exactly once instead of the gate"))
    for compiler, dm in (((SCOMP, "StabilizerCompiler"), False), ((DCOMP, "DensityMatrixCompiler"), True)):
        qual = f"{compiler[0]}:{compiler[1]}._apply_additional_noise"
        for opname in CS.ALL_OPS:
            two = opname in CS.TWO or opname in CS.CLASSICAL
            combos = [(None, ct, tt) for ct in "ep" for tt in "ep"] if two else [(rt, None, None) for rt in "ep"]
            noisy = opname in CS.ONE or opname == "Identity" or opname in CS.TWO
            for rt, ct, tt in combos:
                for listed in ((True, False) if opname in CS.TWO else (True,)):
                    lab = f"{compiler[1]}._apply_additional_noise[{opname},{rt or ct + tt}{'' if listed else ',single noise object'}]"
                    T.append(NMTask(qual, dispatch_inputs(compiler, opname, rt, ct, tt, listed), dispatch_spec(opname, rt, ct, tt, dm, listed),
                                       C, inline=CS.INLINE, label=lab, requires=dispatch_requires(opname, rt, ct, tt), hooks=CS.HOOKS,
                                       expect_raise=(["ValueError"] if (dm and not noisy) else None),
                                       clause="one-qubit op: noise.apply(state, n_quantum, [index of its register]); controlled pair: control noise at "
                                              "the control index, THEN target noise at the target index (photons first, emitters offset by n_photons); "
                                              "other operations: nothing (stabilizer) / ValueError (density matrix)"))
    return T


# =============================================================================================================
# MixedStabilizer.reduce  (what DepolarizingNoise.apply hands its new mixture to)
# =============================================================================================================
REDUCE = f"{SSTATE}:MixedStabilizer.reduce"


def _np_count_nonzero(interp, a, *args, **k):
    if is_sym(a) and not args and not k:
        models.used("np.count_nonzero(scalar) = 1 if the scalar is true / non-zero else 0")
        return z3.If(interp.truth_term(a), z3.IntVal(1), z3.IntVal(0))
    if isinstance(a, (bool, int, float)) and not args and not k:
        return int(bool(a))
    raise Undecided("np.count_nonzero of a non-scalar")


if "count_nonzero" not in models.NUMPY:
    models.NUMPY["count_nonzero"] = _np_count_nonzero


def _eq_sym(i, j):
    a, b = min(i, j), max(i, j)
    return z3.BoolVal(True) if a == b else z3.Bool(f"EQ_{a}_{b}")


def reduce_inputs(L):
    def mk(I):
        rep = Obj(I.get_class(SSTATE, "MixedStabilizer"))
        rep.partial = False
        ws = [z3.Real(f"w{i}") for i in range(L)]
        for w in ws:
            I.path.assume(w >= 0)
        ts = []
        for i in range(L):
            t = Obj(I.get_class(CTAB, "CliffordTableau"))  # abstract: only compared, through == / != (content equality)
            t.nm_index = i
            ts.append(t)
        for a in range(L):
            for b in range(L):
                for c in range(L):
                    if len({a, b, c}) == 3:
                        I.path.assume(z3.Implies(z3.And(_eq_sym(a, b), _eq_sym(b, c)), _eq_sym(a, c)))
        lst = [(w, t) for w, t in zip(ws, ts)]
        rep.fields["_mixture"] = lst
        I.path.ghost["nm"] = dict(rep=rep, weights=ws, tabs=ts, old_list=lst)
        return [rep]

    return mk


def _tableau_compare(I, op, a, b):
    ia, ib = getattr(a, "nm_index", None), getattr(b, "nm_index", None)
    if ia is None or ib is None or not isinstance(op, (ast.Eq, ast.NotEq)):
        return NotImplemented
    e = _eq_sym(ia, ib)
    return e if isinstance(op, ast.Eq) else z3.Not(e)


def _live_list_loop(interp, node, it):
    """Python's list iterator is index based and sees mutations of the list made by the loop body (pop while enumerating).
    `for k, x in enumerate(lst)` / `for x in lst` over a real list: iterate LIVE (the engine's default iterates a snapshot)."""
    from pyvc.interp import BreakEx, ContinueEx

    src, enum = node.iter, False
    if isinstance(src, ast.Call) and isinstance(src.func, ast.Name) and src.func.id == "enumerate" and len(src.args) == 1 and not src.keywords:
        src, enum = src.args[0], True
    if not isinstance(src, (ast.Name, ast.Attribute)):
        return False
    lst = interp.eval(src)
    if not isinstance(lst, list):
        return False
    k = 0
    while k < len(lst):
        interp.assign(node.target, (k, lst[k]) if enum else lst[k])
        k += 1
        if k > 64:
            raise Undecided("more than 64 iterations of a live list loop")
        try:
            interp.exec_block(node.body)
        except BreakEx:
            return True
        except ContinueEx:
            continue
    interp.exec_block(node.orelse)
    return True


REDUCE_HOOKS = {"compare": _tableau_compare, "loop": _live_list_loop}


def reduce_spec(weight_claim=None):
    def spec(I, cur, rep):
        g = I.path.ghost["nm"]
        lab = cur.label
        L = len(g["tabs"])
        out = rep.fields.get("_mixture")
        okl = isinstance(out, list) and out is not g["old_list"] and all(isinstance(it, tuple) and len(it) == 2 for it in out)
        ob(I, f"{lab}:new-list-of-pairs", okl)
        if not okl:
            return None
        ob(I, f"{lab}:old-list-object-consumed(empty)", len(g["old_list"]) == 0)
        reps = [getattr(it[1], "nm_index", None) for it in out]
        ob(I, f"{lab}:kept-tableaux-are-input-objects-in-their-order", all(r is not None for r in reps) and reps == sorted(set(reps)) and
           all(it[1] is g["tabs"][r] for it, r in zip(out, reps)))
        if any(r is None for r in reps):
            return None
        zero = [(w, z3.RealVal(0)) for w in g["weights"]]
        owner = {}
        for j, (W, T) in enumerate(out):
            W = _real(W)
            members = []
            for i, w in enumerate(g["weights"]):
                sub = [(v, z3.RealVal(1) if v is w else z3.RealVal(0)) for v in g["weights"]]
                c = z3.simplify(z3.substitute(W, *sub))
                if z3.is_rational_value(c) and c.numerator_as_long() == c.denominator_as_long():
                    members.append(i)
            want = weight_claim(g, reps[j], members) if weight_claim else sum((g["weights"][i] for i in members), z3.RealVal(0))
            ob(I, f"{lab}:out[{j}].weight = sum of the weights merged into it", W == want)
            for i in members:
                ob(I, f"{lab}:out[{j}].merged-tableau({i})-equals-the-kept-one({reps[j]})", _eq_sym(i, reps[j]))
                owner.setdefault(i, []).append(j)
        ob(I, f"{lab}:every-input-branch-is-merged-into-exactly-one-output", all(len(owner.get(i, [])) == 1 for i in range(L)))
        ob(I, f"{lab}:total-weight-preserved", sum((_real(it[0]) for it in out), z3.RealVal(0)) == sum(g["weights"], z3.RealVal(0)))
        return None

    return spec


def reduce_tasks():
    return [NMTask(REDUCE, reduce_inputs(L), reduce_spec(), {}, inline={f"{SSTATE}:MixedStabilizer.*"}, hooks=REDUCE_HOOKS,
                   label=f"MixedStabilizer.reduce[L={L}]",
                   clause="mixture' = a list of (sum of the weights of a class, its first tableau object): every input branch is merged into "
                          "exactly one kept branch whose tableau == its own (content equality), kept ones in input order, total weight kept; "
                          "the old list object is consumed.  (Equal tableaux may survive unmerged - pop while enumerating skips - which "
                          "changes nothing in sum_i p_i |t_i><t_i|.)") for L in (1, 2, 3, 4)]


# =============================================================================================================
# DensityMatrix.apply_unitary / apply_channel as OPERATOR-ALGEBRA expressions (what the Kraus lists are used for)
# =============================================================================================================
APPLY_U = f"{DSTATE}:DensityMatrix.apply_unitary"
APPLY_C = f"{DSTATE}:DensityMatrix.apply_channel"


def _either(a, b):
    """herm() is the identity on the Hermitian operators it is applied to: with or without it the SAME state is denoted"""
    if isinstance(a, bool) and isinstance(b, bool):
        return a or b
    return z3.Or(to_z3(a), to_z3(b))


def herm(M):
    """textbook: (M + M^dagger) / 2  - the identity on Hermitian M; graphiq applies it against rounding"""
    return Token("div", Token("add", M, dagger(M)), 2)


def sandwich(K, rho, right=dagger):
    return Token("matmul", Token("matmul", K, rho), right(K))


def dm_state_inputs(args):
    def mk(I):
        rep = Obj(I.get_class(DSTATE, "DensityMatrix"))
        rep.partial = False
        rho = Token("rho")
        rep.fields["_data"] = rho
        I.path.assume(DIM >= 1)
        I.path.ghost["nm"] = dict(rep=rep, rho=rho)
        return [rep] + list(args)

    return mk


def unitary_spec(right=dagger, hermitianized=True):
    def spec(I, cur, rep, U):
        g = I.path.ghost["nm"]
        M = sandwich(U, g["rho"], right)
        ob(I, f"{cur.label}:rho' = herm(U rho U^dagger)", _either(same(rep.fields.get("_data"), herm(M)), same(rep.fields.get("_data"), M))
           if hermitianized else same(rep.fields.get("_data"), M))
        return None

    return spec


def channel_spec(right=dagger):
    def spec(I, cur, rep, ks):
        g = I.path.ghost["nm"]
        if not ks:
            ob(I, f"{cur.label}:empty-list-leaves-the-state", rep.fields.get("_data") is g["rho"])
            return None
        S = None
        for K in ks:
            M = sandwich(K, g["rho"], right)
            S = M if S is None else Token("add", S, M)
        ob(I, f"{cur.label}:rho' = herm(sum_k K_k rho K_k^dagger), in list order",
           _either(same(rep.fields.get("_data"), herm(S)), same(rep.fields.get("_data"), S)))
        return None

    return spec


def dm_algebra_tasks():
    inl = {f"{DMF}:hermitianize", "graphiq.backends.state_base:StateRepresentationBase.data"}
    T = [NMTask(APPLY_U, dm_state_inputs([Token("U")]), unitary_spec(), {}, inline=inl, hooks=HOOKS, label="DensityMatrix.apply_unitary",
                clause="operator algebra (abstract operators, exact): rho' = herm(U rho U^dagger), herm(M) = (M + M^dagger)/2"),
         NMTask(APPLY_U, dm_state_inputs([Token("wrong-size")]), lambda I, cur, *a: None, {}, inline=inl, hooks=HOOKS,
                label="DensityMatrix.apply_unitary[size mismatch]", requires=lambda I, rep, U: z3.Int("DIM_other") != DIM, expect_raise=["ValueError"],
                clause="a unitary of another size raises ValueError")]
    for r in (0, 1, 2, 4):
        T.append(NMTask(APPLY_C, dm_state_inputs([[Token(f"K{k}") for k in range(r)]]), channel_spec(), {}, inline=inl, hooks=HOOKS,
                        label=f"DensityMatrix.apply_channel[{r} Kraus operators]",
                        clause="operator algebra: rho' = herm(sum_k K_k rho K_k^dagger) accumulated in list order; the empty list changes nothing"))
    T.append(NMTask(APPLY_C, dm_state_inputs([[Token("wrong-size"), Token("K1")]]), lambda I, cur, *a: None, {}, inline=inl, hooks=HOOKS,
                    label="DensityMatrix.apply_channel[size mismatch]", requires=lambda I, rep, ks: z3.Int("DIM_other") != DIM,
                    expect_raise=["ValueError"], clause="Kraus operators of another size raise ValueError"))
    return T


# =============================================================================================================
# canaries: deliberately wrong specifications that must be refuted
# =============================================================================================================
def _bad_Y_rule(I, lab, T, s0, errors, fresh_from=None):
    """WRONG: Y flips every row that carries X or Z or Y on the qubit (x | z) - rows carrying Y commute with Y"""
    n = to_z3(s0["n"])
    i = I.path.fresh("row")
    flip = z3.IntVal(0)
    for pauli, q in errors:
        x, z = as_int_term(s0["table"](i, to_z3(q))), as_int_term(s0["table"](i, n + to_z3(q)))
        flip = flip + (z3.If(x + z >= 1, 1, 0) if pauli == "Y" else anticommutes(x, z, pauli))
    ob(I, f"{lab}.sign-flips-iff-anticommutes", as_int_term(T.fields["_phase"].get(i)) == (as_int_term(s0["phase"](i)) + flip) % 2,
       extra=[i >= 0, i < 2 * n])


def canary_tasks():
    Cs, Cd = stab_contracts(), dm_contracts()
    ok = lambda I, nz, st, n, qs: regs_ok(I, qs)  # noqa: E731
    T = [
        NMTask(DEPOL, depol_inputs("mixed", 1, 1), depol_mixed_spec(rule=_bad_Y_rule), Cs, inline=INLINE_STAB, hooks=HOOKS, requires=ok,
                  label="canary.DepolarizingNoise.apply[mixture].Y-flips-rows-with-x-or-z"),
        NMTask(DEPOL, depol_inputs("mixed", 1, 1), depol_mixed_spec(weights_of=lambda p, m: [1 - _real(p)] + [_real(p) / 4] * 3), Cs,
                  inline=INLINE_STAB, hooks=HOOKS, requires=ok, label="canary.DepolarizingNoise.apply[mixture].error-weight-p/4"),
        NMTask(DEPOL, depol_inputs("dm", 1, 1), depol_dm_spec(string_of=lambda k, m: [["I", "X", "Z", "Y"][k]]), Cd, inline=INLINE_DM,
                  hooks=HOOKS, requires=ok, label="canary.DepolarizingNoise.apply[dm].kraus-order-IXZY"),
        NMTask(PAULI, simple_inputs("PauliError", {"Pauli error": "Y", "After gate": True}, "mixed", 2), pauli_spec("mixed", "Y", effective="X"),
                  Cs, inline=INLINE_STAB, hooks=HOOKS, requires=ok, label="canary.PauliError.apply[mixed,Y].acts-as-X"),
        NMTask(LOSS, simple_inputs("PhotonLoss", _loss_params, "mixed", 2), loss_spec("mixed", factor=lambda lam: z3.RealVal(1)), Cs,
                  inline=INLINE_STAB, hooks=HOOKS, requires=ok, label="canary.PhotonLoss.apply[mixed].weights-kept"),
        NMTask(f"{SCOMP}:StabilizerCompiler._apply_additional_noise", dispatch_inputs((SCOMP, "StabilizerCompiler"), "CNOT", None, "e", "p"),
                  dispatch_spec("CNOT", None, "e", "p", False, swap=True), dispatch_contracts(), inline=CS.INLINE, hooks=CS.HOOKS,
                  requires=dispatch_requires("CNOT", None, "e", "p"), label="canary._apply_additional_noise[CNOT,ep].control-and-target-index-swapped"),
        NMTask(APPLY_C, dm_state_inputs([[Token("K0"), Token("K1")]]), channel_spec(right=lambda K: K), {},
               inline={f"{DMF}:hermitianize", "graphiq.backends.state_base:StateRepresentationBase.data"}, hooks=HOOKS,
               label="canary.DensityMatrix.apply_channel.K-rho-K-without-dagger"),
        NMTask(REDUCE, reduce_inputs(3), reduce_spec(weight_claim=lambda g, rep_index, members: g["weights"][rep_index]), {},
               inline={f"{SSTATE}:MixedStabilizer.*"}, hooks=REDUCE_HOOKS, label="canary.MixedStabilizer.reduce[L=3].weights-not-summed"),
    ]
    return T


def canary_summary(d):
    by = {}
    for o in d.obligations:
        lab = o.name.split("|")[0].split(":")[0]
        if not lab.startswith("canary."):
            continue
        e = by.setdefault(lab, {"name": lab, "function": o.function, "refuted": False, "replayed": False})
        if o.status == "refuted":
            e["refuted"] = True
    return list(by.values())


# =============================================================================================================
# [F] native evaluation of the REAL code over finite sets (numerical content of the tokens; replay of the canaries)
# =============================================================================================================
def _embed(n, placed):
    """index-level definition of `the one-qubit matrices placed[q] at qubit q, identity elsewhere` on n qubits, qubit 0 = most
    significant bit of the basis index (graphiq's register order): M[r, c] = prod_q G_q[bit_q(r), bit_q(c)]"""
    import numpy as np

    dim = 2 ** n
    M = np.zeros((dim, dim), dtype=complex)
    for r in range(dim):
        for c in range(dim):
            v = 1
            for q in range(n):
                br, bc = (r >> (n - 1 - q)) & 1, (c >> (n - 1 - q)) & 1
                G = placed.get(q)
                v = v * (G[br][bc] if G is not None else (1 if br == bc else 0))
            M[r, c] = v
    return M


LIT = {"I": [[1, 0], [0, 1]], "X": [[0, 1], [1, 0]], "Y": [[0, -1j], [1j, 0]], "Z": [[1, 0], [0, -1]]}


def _spy_state(n):
    """a real QuantumState whose DensityMatrix records what is handed to apply_channel / apply_unitary instead of applying it"""
    import numpy as np
    from graphiq.backends.density_matrix.state import DensityMatrix
    from graphiq.state import QuantumState

    class Spy(DensityMatrix):
        def __init__(self, n_):
            self._data = np.eye(2 ** n_, dtype=complex) / 2 ** n_
            self.calls = []

        def apply_channel(self, kraus_ops):
            self.calls.append(("channel", [np.asarray(k) for k in kraus_ops]))

        def apply_unitary(self, unitary):
            self.calls.append(("unitary", np.asarray(unitary)))

    st = QuantumState(n, rep_type="dm", mixed=True)
    st._rep_data = Spy(n)
    return st


def numeric_obligations():
    import itertools
    import numpy as np
    from vf.core import Obl
    import graphiq.backends.density_matrix.functions as dmf
    import graphiq.noise.noise_models as nm
    from graphiq.backends.density_matrix.state import DensityMatrix
    from graphiq.state import QuantumState

    out = []

    def add(name, fn, bad, t0, clause, exact=True):
        ok = not bad
        # exact over a complete finite set: kind F.  Float tolerance / sampled strengths or angles: kind B (a native sampled check that
        # lives here because it interprets the tokens of the dispatch proofs; it is NOT counted as proved/finite-exact)
        out.append(Obl(name=f"{'F' if exact else 'sampled'}.{name}", function=fn, status="discharged" if ok else "refuted",
                       kind="F" if exact else "B", backend="exact" if exact else "native-float-1e-12",
                       ms=(time.time() - t0) * 1000, detail="" if ok else str(bad[:3])[:600], clause=clause,
                       witness=None if ok else {"first_failures": [str(b) for b in bad[:3]]}, replayed=not ok))

    real = {"I": dmf.identity, "X": dmf.sigmax, "Y": dmf.sigmay, "Z": dmf.sigmaz}
    t0 = time.time()
    bad = [k for k in LIT if not np.array_equal(np.asarray(real[k]()), np.array(LIT[k], dtype=complex))]
    add("dmf.pauli-matrices", f"{DMF}:sigmay", bad, t0, "identity/sigmax/sigmay/sigmaz are the textbook matrices (exact comparison)")
    t0 = time.time()
    bad = []
    for E, P in itertools.product(LIT, LIT):
        e, pm = np.asarray(real[E]()), np.asarray(real[P]())
        a, b = PAULI_BITS[E]
        x, z = PAULI_BITS[P]
        sign = -1 if (x * b + z * a) % 2 else 1
        if not np.array_equal(e @ pm @ e.conj().T, sign * pm):
            bad.append((E, P))
    add("anticommutation-rule=matrix-conjugation", DEPOL, bad, t0,
        "all 16 pairs: E P E^dagger = (-1)^(x b + z a) P for graphiq's own one-qubit matrices (ties the mixture rule to the Kraus operators)")
    t0 = time.time()
    bad = []
    for n in (1, 2, 3):
        for q in range(n):
            for E in LIT:
                if not np.array_equal(np.asarray(dmf.get_one_qubit_gate(n, q, real[E]())), _embed(n, {q: LIT[E]})):
                    bad.append(("one", n, q, E))
                if not np.array_equal(np.asarray(dmf.get_multi_qubit_gate(n, [q], (real[E](),))), _embed(n, {q: LIT[E]})):
                    bad.append(("multi1", n, q, E))
        for q0, q1 in itertools.permutations(range(n), 2):
            for E0, E1 in itertools.product(LIT, LIT):
                if not np.array_equal(np.asarray(dmf.get_multi_qubit_gate(n, [q0, q1], (real[E0](), real[E1]()))), _embed(n, {q0: LIT[E0], q1: LIT[E1]})):
                    bad.append(("multi2", n, q0, q1, E0, E1))
    add("embedding.get_one_qubit_gate/get_multi_qubit_gate", f"{DMF}:get_multi_qubit_gate", bad, t0,
        "n <= 3, every position / ordered pair of positions, all 4 / 16 Paulis: the built matrix equals the index-level embedding (exact)")

    # the tokens of the dispatch proof denote these matrices: run the REAL apply() with a recording DensityMatrix
    spy_state = _spy_state

    t0 = time.time()
    bad = []
    for n, regs in ((1, [0]), (2, [0]), (2, [1]), (3, [1]), (2, [0, 1]), (2, [1, 0]), (3, [2, 0])):
        for p in (0.0, 0.25, 0.5, 1.0):
            st = spy_state(n)
            nm.DepolarizingNoise(p).apply(st, n, regs)
            calls = st.rep_data.calls
            m = len(regs)
            if len(calls) != 1 or calls[0][0] != "channel" or len(calls[0][1]) != 4 ** m:
                bad.append((n, regs, p, "call shape"))
                continue
            f = [1 - p] + [p / (4 ** m - 1)] * (4 ** m - 1)
            tot = np.zeros((2 ** n, 2 ** n), dtype=complex)
            for k, K in enumerate(calls[0][1]):
                want = math.sqrt(f[k]) * _embed(n, {q: LIT[s_] for q, s_ in zip(regs, pauli_string(k, m))})
                if not np.allclose(K, want, rtol=0, atol=1e-12):
                    bad.append((n, regs, p, k))
                tot = tot + K.conj().T @ K
            if not np.allclose(tot, np.eye(2 ** n), rtol=0, atol=1e-12):
                bad.append((n, regs, p, "sum K^dagger K != I"))
    add("DepolarizingNoise.apply[dm].kraus-list-numerically", DEPOL, bad, t0,
        "real apply() with a recording DensityMatrix, n <= 3, p in {0, 1/4, 1/2, 1}: the Kraus list is [sqrt(f_k) E_k embedded] and "
        "sum K^dagger K = I, to 1e-12 (float; sampled strengths)", exact=False)
    t0 = time.time()
    bad = []
    for n in (1, 2, 3):
        for q in range(n):
            for E in LIT:
                st = spy_state(n)
                nm.PauliError(E).apply(st, n, [q])
                calls = st.rep_data.calls
                if len(calls) != 1 or calls[0][0] != "unitary" or not np.array_equal(calls[0][1], _embed(n, {q: LIT[E]})):
                    bad.append((n, q, E))
    add("PauliError.apply[dm].unitary-numerically", PAULI, bad, t0, "n <= 3, every register, I/X/Y/Z: the unitary handed over is E embedded (exact)")
    t0 = time.time()
    bad = []
    for lam in (0.0, 0.25, 0.5, 1.0):
        st = QuantumState(1, rep_type="dm", mixed=True)
        before = np.array(st.rep_data.data, dtype=complex)
        nm.PhotonLoss(lam).apply(st, 1, [0])
        if not np.array_equal(np.asarray(st.rep_data.data), (1 - lam) * before):
            bad.append(lam)
    add("PhotonLoss.apply[dm].scaling-numerically", LOSS, bad, t0, "rho' = (1 - l) rho on |0><0|, l in {0, 1/4, 1/2, 1} (sampled rates)", exact=False)
    t0 = time.time()
    bad = []
    H = np.array([[1, 1], [1, -1]], dtype=complex) / math.sqrt(2)
    S = np.array([[1, 0], [0, 1j]], dtype=complex)
    for nm_, got, want in (("hadamard", dmf.hadamard(), H), ("phase", dmf.phase(), S),
                           ("HadamardPerturbedError(0,0,0)", nm.HadamardPerturbedError(0, 0, 0).noise_parameters["One-qubit unitary"], H),
                           ("PhasePerturbedError(0,0,0)", nm.PhasePerturbedError(0, 0, 0).noise_parameters["One-qubit unitary"], S),
                           ("SigmaXPerturbedError(0,0,0)", nm.SigmaXPerturbedError(0, 0, 0).noise_parameters["One-qubit unitary"], np.array(LIT["X"], dtype=complex))):
        if not np.allclose(np.asarray(got), want, rtol=0, atol=1e-12):
            bad.append(nm_)
    for th, ph, la in itertools.product((0.0, 0.3, 1.1, math.pi), repeat=3):
        U = np.asarray(dmf.parameterized_one_qubit_unitary(th, ph, la))
        if not np.allclose(U.conj().T @ U, np.eye(2), rtol=0, atol=1e-12):
            bad.append(("not unitary", th, ph, la))
    add("perturbed-gates-at-zero-perturbation", f"{NM}:HadamardPerturbedError.__init__", bad, t0,
        "U3(pi/2,0,pi) = H, U3(0,0,pi/2) = S, U3(pi,0,pi) = X and U3 unitary on a 4x4x4 grid of angles, to 1e-12 (float; a grid, not a domain)",
        exact=False)
    t0 = time.time()
    bad = []
    for k in range(11):
        gam = k / 10
        K0, K1 = (np.asarray(a, dtype=complex) for a in dmf.amplitude_damping_operators(gam))
        w0 = np.array([[1, 0], [0, math.sqrt(1 - gam)]], dtype=complex)
        w1 = np.array([[0, math.sqrt(gam)], [0, 0]], dtype=complex)
        if not (np.allclose(K0, w0, rtol=0, atol=1e-12) and np.allclose(K1, w1, rtol=0, atol=1e-12)
                and np.allclose(K0.conj().T @ K0 + K1.conj().T @ K1, np.eye(2), rtol=0, atol=1e-12)):
            bad.append(gam)
    add("amplitude_damping_operators", f"{DMF}:amplitude_damping_operators", bad, t0,
        "K0 = diag(1, sqrt(1-g)), K1 = sqrt(g)|0><1|, K0^dagger K0 + K1^dagger K1 = I for g = 0, 0.1 .. 1, to 1e-12 (float; a grid, not a domain)",
        exact=False)
    return out


def _native_mixture_cases():
    """complete for n = 1 (all 16 bit tables x all 4 sign vectors, valid tableaux or not - the code does not care) plus every
    2-qubit table reached from the identity by <= 2 gates of H/P/CNOT with all-zero and all-one signs"""
    import itertools
    import numpy as np
    from graphiq.backends.stabilizer.clifford_tableau import CliffordTableau

    cases = []
    for bits in itertools.product((0, 1), repeat=4):
        for ph in itertools.product((0, 1), repeat=2):
            t = CliffordTableau(1)
            t.table = np.array(bits, dtype=int).reshape(2, 2)
            t.phase = np.array(ph, dtype=int)
            cases.append((t, [0]))
    seen = {}
    frontier = [np.eye(4, dtype=int)]
    for _ in range(2):
        nxt = []
        for tab in frontier:
            for g in ("H0", "H1", "P0", "P1", "C01", "C10"):
                t = tab.copy()
                if g[0] == "H":
                    a = int(g[1]); t[:, [a, 2 + a]] = t[:, [2 + a, a]]
                elif g[0] == "P":
                    a = int(g[1]); t[:, 2 + a] ^= t[:, a]
                else:
                    a, b = int(g[1]), int(g[2]); t[:, b] ^= t[:, a]; t[:, 2 + a] ^= t[:, 2 + b]
                if t.tobytes() not in seen:
                    seen[t.tobytes()] = t
                    nxt.append(t)
        frontier = nxt
    for tab in seen.values():
        for ph in ((0, 0, 0, 0), (1, 1, 1, 1), (0, 1, 1, 0)):
            for regs in ([0], [1], [1, 0]):
                t = CliffordTableau(2)
                t.table = tab.copy()
                t.phase = np.array(ph, dtype=int)
                cases.append((t, regs))
    return cases


def native_replay():
    """REAL apply() of the three property models on concrete mixtures vs. (a) the contract's relation, (b) each canary's wrong
    relation: (a) must hold everywhere, (b) must fail somewhere - the canaries' counter-models are real behaviours"""
    import numpy as np
    import graphiq.noise.noise_models as nm
    from graphiq.state import QuantumState
    from graphiq.backends.stabilizer.state import MixedStabilizer

    def flips(t, errors, y_rule=None):
        n = t.n_qubits
        f = np.zeros(2 * n, dtype=int)
        for E, q in errors:
            x, z = t.table[:, q].astype(int), t.table[:, n + q].astype(int)
            a, b = PAULI_BITS[E]
            f = f + (((x | z) if (y_rule == "x|z" and E == "Y") else (x * b + z * a)) % 2)
        return f % 2

    def mixed_state(t, w=1.0):
        st = QuantumState(t.n_qubits, rep_type="s", mixed=True)
        st._rep_data = MixedStabilizer([(w, t.copy())])
        return st

    res = {k: {"contract_relation_holds": True, "canary_relation_holds": True, "inputs": 0} for k in
           ("depolarizing.Y-rule", "depolarizing.weights", "pauli.Y-as-X", "loss.weights")}
    saved = nm.REDUCE_STABILIZER_MIXTURE
    nm.REDUCE_STABILIZER_MIXTURE = False  # the contract ends where reduce() is called: compare the list handed to it
    try:
        for t, regs in _native_mixture_cases():
            m = len(regs)
            for p in (0.0, 0.3, 1.0):
                st = mixed_state(t, 0.5)
                t0 = t.copy()
                nm.DepolarizingNoise(p).apply(st, t.n_qubits, list(regs))
                got = st.rep_data.mixture
                f = [1 - p] + [p / (4 ** m - 1)] * (4 ** m - 1)
                keep = [k for k in range(4 ** m) if f[k] > 0]
                for rel, key in ((None, "contract_relation_holds"), ("x|z", "canary_relation_holds")):
                    ok = len(got) == len(keep)
                    if ok:
                        for (w, tt), k in zip(got, keep):
                            errs = list(zip(pauli_string(k, m), regs))
                            ok = ok and abs(w - 0.5 * f[k]) <= 1e-12 and np.array_equal(tt.table, t0.table) and \
                                np.array_equal(tt.phase % 2, (t0.phase + flips(t0, errs, rel)) % 2)
                    res["depolarizing.Y-rule"][key] = res["depolarizing.Y-rule"][key] and bool(ok)
                res["depolarizing.Y-rule"]["inputs"] += 1
                if m == 1:
                    okc = len(got) == len(keep) and all(abs(w - 0.5 * f[k]) <= 1e-12 for (w, _), k in zip(got, keep))
                    f4 = [1 - p] + [p / 4] * 3
                    okw = len(got) == len(keep) and all(abs(w - 0.5 * f4[k]) <= 1e-12 for (w, _), k in zip(got, keep))
                    res["depolarizing.weights"]["contract_relation_holds"] &= bool(okc)
                    res["depolarizing.weights"]["canary_relation_holds"] &= bool(okw)
                    res["depolarizing.weights"]["inputs"] += 1
            if m == 1:
                st = mixed_state(t, 0.5)
                t0 = t.copy()
                nm.PauliError("Y").apply(st, t.n_qubits, list(regs))
                (w, tt), = st.rep_data.mixture
                for E, key in (("Y", "contract_relation_holds"), ("X", "canary_relation_holds")):
                    ok = w == 0.5 and np.array_equal(tt.table, t0.table) and np.array_equal(tt.phase % 2, (t0.phase + flips(t0, [(E, regs[0])])) % 2)
                    res["pauli.Y-as-X"][key] &= bool(ok)
                res["pauli.Y-as-X"]["inputs"] += 1
                st = mixed_state(t, 0.5)
                nm.PhotonLoss(0.25).apply(st, t.n_qubits, list(regs))
                (w, tt), = st.rep_data.mixture
                res["loss.weights"]["contract_relation_holds"] &= bool(abs(w - 0.375) <= 1e-15 and tt == t)
                res["loss.weights"]["canary_relation_holds"] &= bool(w == 0.5)
                res["loss.weights"]["inputs"] += 1
    finally:
        nm.REDUCE_STABILIZER_MIXTURE = saved
    # density-matrix Kraus list: order I, X, Y, Z (contract) vs I, X, Z, Y (canary)
    r = res["dm.kraus-order"] = {"contract_relation_holds": True, "canary_relation_holds": True, "inputs": 0}
    for n, q in ((1, 0), (2, 0), (2, 1)):
        st = _spy_state(n)
        nm.DepolarizingNoise(0.5).apply(st, n, [q])
        ks = st.rep_data.calls[0][1] if st.rep_data.calls and st.rep_data.calls[0][0] == "channel" else []
        f = [0.5] + [0.5 / 3] * 3
        for order, key in (("IXYZ", "contract_relation_holds"), ("IXZY", "canary_relation_holds")):
            ok = len(ks) == 4 and all(np.allclose(K, math.sqrt(f[k]) * _embed(n, {q: LIT[order[k]]}), rtol=0, atol=1e-12) for k, K in enumerate(ks))
            r[key] &= bool(ok)
        r["inputs"] += 1
    # DensityMatrix.apply_channel / apply_unitary on concrete complex operators: K rho K^dagger (contract) vs K rho K (canary)
    from graphiq.backends.density_matrix.state import DensityMatrix

    r = res["dm.channel-dagger"] = {"contract_relation_holds": True, "canary_relation_holds": True, "inputs": 0}
    rho0 = np.array([[0.75, 0.25j], [-0.25j, 0.25]], dtype=complex)
    for Ks in ([np.array([[1, 0], [0, 1j]], dtype=complex)], [np.array([[0, 1j], [0, 0]], dtype=complex), np.array([[1, 0], [0, 0]], dtype=complex)]):
        dmx = DensityMatrix(rho0.copy(), normalized=False)
        dmx.apply_channel(Ks)
        want = sum(K @ rho0 @ K.conj().T for K in Ks)
        wrong = sum(K @ rho0 @ K for K in Ks)
        r["contract_relation_holds"] &= bool(np.allclose(dmx.data, (want + want.conj().T) / 2, rtol=0, atol=1e-12))
        r["canary_relation_holds"] &= bool(np.allclose(dmx.data, (wrong + wrong.conj().T) / 2, rtol=0, atol=1e-12))
        r["inputs"] += 1
    dmx = DensityMatrix(rho0.copy(), normalized=False)
    U = np.array([[1, 0], [0, 1j]], dtype=complex)
    dmx.apply_unitary(U)
    r["contract_relation_holds"] &= bool(np.allclose(dmx.data, U @ rho0 @ U.conj().T, rtol=0, atol=1e-12))
    r["inputs"] += 1
    # _apply_additional_noise of the stabilizer compiler on CNOT(e0 -> p0): control index n_p + 0 = 1 first, target index 0 second
    import graphiq.circuit.ops as gops
    from graphiq.backends.stabilizer.compiler import StabilizerCompiler
    from graphiq.backends.compiler_base import CompilerBase

    r = res["dispatch.cnot-indices"] = {"contract_relation_holds": True, "canary_relation_holds": True, "inputs": 0}
    calls = []

    class Rec(nm.NoNoise):
        def __init__(self, tag):
            super().__init__()
            self.tag = tag

        def apply(self, state, n_quantum, reg_list):
            calls.append((self.tag, n_quantum, list(reg_list)))

    op = gops.CNOT(control=0, control_type="e", target=0, target_type="p", noise=[Rec("control"), Rec("target")])
    StabilizerCompiler()._apply_additional_noise(None, op, 2, CompilerBase.reg_to_index_func(1))
    r["contract_relation_holds"] = calls == [("control", 2, [1]), ("target", 2, [0])]
    r["canary_relation_holds"] = calls == [("control", 2, [0]), ("target", 2, [1])]
    r["inputs"] = 1
    # MixedStabilizer.reduce on every pattern of equal / unequal tableaux of <= 4 branches (all set partitions, in every order)
    import itertools
    from graphiq.backends.stabilizer.clifford_tableau import CliffordTableau

    r = res["reduce.weights"] = {"contract_relation_holds": True, "canary_relation_holds": True, "inputs": 0}
    for L in (1, 2, 3, 4):
        for classes in itertools.product(range(L), repeat=L):
            if any(c > max(classes[:i] + (-1,)) + 1 for i, c in enumerate(classes)):
                continue  # canonical labelling of a set partition (restricted growth string)
            tabs = []
            for c in classes:
                t = CliffordTableau(1)
                t.phase = np.array([c & 1, (c >> 1) & 1], dtype=int)
                tabs.append(t)
            ws = [0.5 ** (i + 1) for i in range(L)]  # distinct binary fractions: sums are exact and identify their members
            ms = MixedStabilizer([(w, t) for w, t in zip(ws, tabs)])
            ms.reduce()
            out = ms.mixture
            ids = [next((i for i, t in enumerate(tabs) if t is to), None) for _, to in out]
            okc = all(i is not None for i in ids) and ids == sorted(set(ids)) and abs(sum(w for w, _ in out) - sum(ws)) == 0
            okw = okc
            if okc:
                owner = {}
                for j, (W, _) in enumerate(out):
                    members = [i for i in range(L) if int(round(W * 2 ** L)) >> (L - 1 - i) & 1]
                    okc = okc and W == sum(ws[i] for i in members) and all(classes[i] == classes[ids[j]] for i in members)
                    for i in members:
                        owner.setdefault(i, []).append(j)
                    okw = okw and W == ws[ids[j]]
                okc = okc and all(len(owner.get(i, [])) == 1 for i in range(L))
            r["contract_relation_holds"] &= bool(okc)
            r["canary_relation_holds"] &= bool(okw)
            r["inputs"] += 1
    return res


CANARY_NATIVE = {"canary.DepolarizingNoise.apply[mixture].Y-flips-rows-with-x-or-z": "depolarizing.Y-rule",
                 "canary.DepolarizingNoise.apply[mixture].error-weight-p/4": "depolarizing.weights",
                 "canary.PauliError.apply[mixed,Y].acts-as-X": "pauli.Y-as-X", "canary.PhotonLoss.apply[mixed].weights-kept": "loss.weights",
                 "canary.MixedStabilizer.reduce[L=3].weights-not-summed": "reduce.weights",
                 "canary.DepolarizingNoise.apply[dm].kraus-order-IXZY": "dm.kraus-order",
                 "canary.DensityMatrix.apply_channel.K-rho-K-without-dagger": "dm.channel-dagger",
                 "canary._apply_additional_noise[CNOT,ep].control-and-target-index-swapped": "dispatch.cnot-indices"}


def native_obligations(canaries):
    """[F] obligations from native_replay + `replayed` flags of the canaries it contradicts"""
    from vf.core import Obl

    t0 = time.time()
    rep = native_replay()
    out = []
    fn = {"depolarizing.Y-rule": DEPOL, "depolarizing.weights": DEPOL, "pauli.Y-as-X": PAULI, "loss.weights": LOSS, "reduce.weights": REDUCE,
          "dm.kraus-order": DEPOL, "dm.channel-dagger": APPLY_C, "dispatch.cnot-indices": f"{SCOMP}:StabilizerCompiler._apply_additional_noise"}
    for key, r in rep.items():
        ok = r["contract_relation_holds"]
        if key == "dm.channel-dagger":
            cl = "REAL DensityMatrix.apply_channel / apply_unitary on concrete complex operators: sum K rho K^dagger / U rho U^dagger, to 1e-12"
        elif key == "dm.kraus-order":
            cl = "REAL apply() with a recording DensityMatrix, p = 1/2, n <= 2: Kraus list in the order I, X, Y, Z with weights sqrt(f_k), to 1e-12"
        elif key == "dispatch.cnot-indices":
            cl = "REAL StabilizerCompiler._apply_additional_noise on CNOT(e0 -> p0), n_photons = 1: control noise at index 1, then target noise at 0"
        elif key == "reduce.weights":
            cl = f"REAL reduce() on all {r['inputs']} patterns of equal/unequal tableaux of <= 4 branches (every set partition): the contract's " \
                 "relation holds (exact binary-fraction weights)"
        else:
            cl = f"REAL apply() on {r['inputs']} concrete mixtures (every 1-qubit bit table x sign vector; 2-qubit tables within two gates " \
                 "of the identity; strengths 0, 0.3, 1; reduce switched off by the module's own flag): result == the contract's list " \
                 "(signs exact, weights to 1e-12)"
        # kind B: concrete inputs (complete for the 1-qubit tables / the partitions, sampled strengths) - a cross-check of the contracts
        # on the real code and the replay of the canaries, not a proof
        out.append(Obl(name=f"native.{key}.contract-relation-on-all-small-inputs", function=fn[key], kind="B", backend="native-replay",
                       status="discharged" if ok else "refuted", ms=(time.time() - t0) * 1000 / len(rep), detail="" if ok else str(r),
                       clause=cl, witness=None if ok else r, replayed=not ok))
    for c in canaries:
        k = CANARY_NATIVE.get(c["name"])
        if k is not None:
            c["replayed"] = bool(rep[k]["contract_relation_holds"] and not rep[k]["canary_relation_holds"])
            c["native_replay"] = rep[k]
    return out


def tasks():
    Cs, Cd = stab_contracts(), dm_contracts()
    return depol_tasks(Cs, Cd) + pauli_tasks(Cs, Cd) + loss_tasks(Cs, Cd) + other_tasks(Cs, Cd) + constructor_tasks(Cd) + dispatch_tasks() \
        + reduce_tasks() + dm_algebra_tasks()


def group(name):
    Cs, Cd = stab_contracts(), dm_contracts()
    if name == "all":
        return tasks()
    return {"depol": lambda: depol_tasks(Cs, Cd), "pauli": lambda: pauli_tasks(Cs, Cd), "loss": lambda: loss_tasks(Cs, Cd),
            "other": lambda: other_tasks(Cs, Cd), "ctor": lambda: constructor_tasks(Cd), "dispatch": dispatch_tasks, "canary": canary_tasks, "reduce": reduce_tasks, "dmalg": dm_algebra_tasks}[name]()


# =============================================================================================================
# mixtures of ANY length: the per-branch proofs above + independence of the outer loop body (syntactic frame of the real AST)
# =============================================================================================================
def loop_independence_obligations():
    """`for p_i, tableau_i in state_rep.mixture:` of DepolarizingNoise.apply - the loop body (1) assigns only its own locals,
    (2) reads, besides them, only loop-invariant locals computed before the loop and module-level functions, (3) touches the result
    list only by `mixture.append(..)`, (4) does not mention the state / representation objects.  Then the list built for a mixture
    l ++ [e] is (the list built for l) ++ segment(e) with segment(e) a function of e alone, and the L = 1, 2 tasks (every segment
    exact, order of consecutive segments) extend to every length by induction on the list.  Same for PhotonLoss' index loop."""
    from vf.core import Obl

    out = []

    def add(name, qual, ok, detail, clause, undecided=False):
        out.append(Obl(name=f"frame.{name}", function=qual, kind="P", backend="syntactic", ms=0.0,
                       status="discharged" if ok else ("undecided" if undecided else "refuted"), detail="" if ok else detail, clause=clause))

    t0 = time.time()
    m, node, cls = source.find(DEPOL)
    loops = [n for n in ast.walk(node) if isinstance(n, ast.For) and ast.unparse(n.iter) == "state_rep.mixture"]
    clause = "outer loop body of the mixture branch: assigns only loop locals, reads only loop-invariant names, appends to `mixture` only"
    if len(loops) != 1 or not isinstance(loops[0].target, ast.Tuple) or not all(isinstance(e, ast.Name) for e in loops[0].target.elts):
        add("DepolarizingNoise.apply.mixture-loop-body-independent-of-other-branches", DEPOL, False,
            "loop `for <w>, <t> in state_rep.mixture` not found in this shape", clause, undecided=True)
    else:
        lp = loops[0]
        own = {e.id for e in lp.target.elts}
        stores = {n.id for b in lp.body for n in ast.walk(b) if isinstance(n, ast.Name) and isinstance(n.ctx, ast.Store)}
        loads = {n.id for b in lp.body for n in ast.walk(b) if isinstance(n, ast.Name) and isinstance(n.ctx, ast.Load)}
        # names bound before the loop in the same branch and never re-bound inside it
        before = {"factors", "trans_iter", "reg_list", "mixture", "n_kraus", "depolarizing_prob", "single_qubit_trans", "n_quantum"}
        builtins_ok = {"range", "len", "zip", "enumerate", "list", "tuple"}
        module_level = set(m.funcs) | set(m.imports)
        bad_store = stores & (before | {"state", "state_rep", "self", "original_prob"})
        unknown = loads - own - stores - before - builtins_ok - module_level
        forbidden = loads & {"state", "state_rep", "self", "original_prob"}
        mix_uses = [n for b in lp.body for n in ast.walk(b) if isinstance(n, ast.Name) and n.id == "mixture"]
        appends = [n for b in lp.body for n in ast.walk(b) if isinstance(n, ast.Call) and isinstance(n.func, ast.Attribute)
                   and n.func.attr == "append" and isinstance(n.func.value, ast.Name) and n.func.value.id == "mixture"]
        ok = not bad_store and not unknown and not forbidden and len(mix_uses) == len(appends) and len(appends) >= 1
        add("DepolarizingNoise.apply.mixture-loop-body-independent-of-other-branches", DEPOL, ok,
            f"assigns loop-invariant names {sorted(bad_store)}; reads unknown names {sorted(unknown)}; mentions {sorted(forbidden)}; "
            f"`mixture` used {len(mix_uses)}x, of which append {len(appends)}x", clause)
    m, node, cls = source.find(LOSS)
    loops = [n for n in ast.walk(node) if isinstance(n, ast.For) and ast.unparse(n.iter) == "range(len(mixture))"]
    clause = "photon-loss loop: iteration i writes mixture[i] only, from mixture[i] and the loss rate only"
    if len(loops) != 1 or not isinstance(loops[0].target, ast.Name):
        add("PhotonLoss.apply.mixture-loop-body-independent-of-other-branches", LOSS, False, "loop `for i in range(len(mixture))` not found", clause,
            undecided=True)
    else:
        lp = loops[0]
        iv = lp.target.id
        subs = [n for b in lp.body for n in ast.walk(b) if isinstance(n, ast.Subscript) and isinstance(n.value, ast.Name) and n.value.id == "mixture"]
        stores = {n.id for b in lp.body for n in ast.walk(b) if isinstance(n, ast.Name) and isinstance(n.ctx, ast.Store)}
        loads = {n.id for b in lp.body for n in ast.walk(b) if isinstance(n, ast.Name) and isinstance(n.ctx, ast.Load)}
        ok = all(isinstance(sb.slice, ast.Name) and sb.slice.id == iv for sb in subs) and not stores and loads <= {iv, "mixture", "loss_rate"} \
            and len(lp.body) == 1 and isinstance(lp.body[0], ast.Assign)
        add("PhotonLoss.apply.mixture-loop-body-independent-of-other-branches", LOSS, ok,
            f"subscripts {[ast.unparse(sb) for sb in subs]}, stores {sorted(stores)}, loads {sorted(loads)}", clause)
    for o in out:
        o.ms = (time.time() - t0) * 1000 / max(1, len(out))
    return out


INLINED = sorted(INLINE_STAB | INLINE_DM | {f"{SSTATE}:MixedStabilizer.* (reduce's own task)", "graphiq.backends.state_base:* (DepolarizingNoise.apply[pure])"}
                 | set(CS.INLINE))


def deductive_part():
    """everything this module contributes to props/C06.deductive: tasks, [F] obligations, canaries (with their native replay)"""
    from pyvc.driver import run_tasks

    d = run_tasks(tasks())
    t0 = time.time()
    d.obligations.extend(loop_independence_obligations())
    try:
        d.obligations.extend(numeric_obligations())
    except Exception as e:  # noqa: BLE001 - the native evaluation itself failed: a checker problem, never a silent pass
        d.errors.append(f"noise_models.numeric_obligations: {type(e).__name__}: {e}")
    can = run_tasks(canary_tasks())
    d.errors.extend(can.errors)
    d.canaries = canary_summary(can)
    try:
        d.obligations.extend(native_obligations(d.canaries))
    except Exception as e:  # noqa: BLE001
        d.errors.append(f"noise_models.native_obligations: {type(e).__name__}: {e}")
    for c in d.canaries:
        if c["refuted"] and not c["replayed"]:
            d.notes.append(f"canary {c['name']} refuted (dispatch/trace contract: no input-dependent counter-model to replay)")
    d.inlined = list(INLINED)
    d.trusted_base += [
        "[C07] gate contracts of transformation.py (x_gate / y_gate / z_gate / identity, run_circuit on concrete lists): used modularly "
        "at the call sites inside the noise models (their own proofs: ./check C07, C11)",
        "[A] CliffordTableau.__eq__ is content equality (an equivalence relation) - abstract predicate in the proof of MixedStabilizer.reduce",
        "[A] Python's list iterator is index based and live (pop while enumerating skips the next element) - loop rule of reduce's task",
        "[A] np.sqrt / np.isclose / np.count_nonzero on real scalars (exact reals, S3); itertools.product order",
        "[T-cptp] a Kraus list with sum K^dagger K = c I is completely positive and scales the trace by c",
        "[B-only] the float matrix arithmetic behind DensityMatrix.apply_unitary / apply_channel (`@`, conjugate, transpose on 2^n x 2^n "
        "arrays; their FORMULAS rho' = herm(U rho U^dagger) / herm(sum K rho K^dagger) are proved as operator-algebra expressions, <= 4 "
        "Kraus operators); get_one_qubit_gate / get_multi_qubit_gate for n > 3 ([F] exact for n <= 3 only)",
        "[B-only] depolarizing on more than 2 registers, MixedStabilizer.reduce on more than 4 branches; LocalCliffordError, TwoQubitControlledGateReplacement, GeneralKrausError, the controlled / measuring branches of "
        "compile_one_noisy_gate (replacement noise is outside the property statement; its one-qubit branch is under contract)",
    ]
    d.not_applicable_clauses += ["floating-point rounding inside np.isclose / np.sqrt and in the Kraus sums (S3)"]
    return d
