"""C05 - contracts for tableau / state equality and for the metric.py wrappers.

  StabilizerTableau.__eq__(self, other)   [P, relational, both directions]
        other is a StabilizerTableau of the same size:  result  <->  every sign bit and every table entry agree
        (True: proved for a skolem entry;  False: the implementation's own witness entry differs);  other is not a
        StabilizerTableau: False.  Neither operand is modified.
  Stabilizer.__eq__(self, other)           [P, trace]  the comparison is exactly
        canonical_form(self.data.to_stabilizer()) == canonical_form(other.data.to_stabilizer())
        (StabilizerTableau.__eq__ of the two canonical forms, in this order; the operands' own tableaux are only read:
        to_stabilizer builds new tableaux).  That canonical forms are equal iff the STATES are equal needs
        canonical_form's functional contract (group preservation + shape + T-rref): [B-only], see stab_inverse.py.
  metric.fidelity(t1, t2)                  [P, trace]  = |inner_product(t1, t2)|^2, one call, arguments in order.
  metric.inner_product                     dispatch prefix [P, trace]: asserts equal sizes; S1 = tableau1.to_stabilizer();
        (S1', circ) = inverse_circuit(S1); T2' = run_circuit(CliffordTableau(tableau2), circ) with reverse defaulted to
        False and with the very list inverse_circuit returned; C2 = canonical_form(T2'.to_stabilizer()).  The VALUE computed
        by the loop that follows (counter of X-rows, sign test through row_sum) is [B-only]: it presupposes clause (b) of
        C11 (S1' = |0..0>), which is false on the unchanged tree for some states with n >= 5 (bounded/C11.findings.md F1),
        and T-overlap is [T].
"""
from __future__ import annotations

import z3

from pyvc import schema as S
from pyvc.contract import Contract, Task
from pyvc.trace import recorder, TraceTask, Token
from pyvc.values import Obj, NDArr, FuncRef, Opaque, to_z3, as_int_term
from pyvc import source
from .common import TAB, CTAB, STABF, TRANS, TABLEAU_ACCESSORS
from .stab_gates import _and, _tab_parts

SSTATE = "graphiq.backends.stabilizer.state"
METRIC = "graphiq.backends.stabilizer.functions.metric"
TEQ = f"{TAB}:StabilizerTableau.__eq__"
SEQ = f"{SSTATE}:Stabilizer.__eq__"
FID = f"{METRIC}:fidelity"
IP = f"{METRIC}:inner_product"
C = {}


# ------------------------------------------------------------------------------------------ StabilizerTableau.__eq__
def _is_stab(o):
    return isinstance(o, Obj) and (o.cls.module, o.cls.name) == (TAB, "StabilizerTableau")


def _teq_req(I, a, b):
    if not _is_stab(b):
        return True
    return _and(to_z3(a.fields["n_qubits"]) == to_z3(b.fields["n_qubits"]))


def _teq_extract(I, ret):
    if I is None:  # concrete replay: the real result is a bool; the witness of a False answer is recomputed by the spec
        return dict(ret=bool(ret), w=None, wt=None)
    if isinstance(ret, bool):
        return dict(ret=ret, w=None, wt=None)
    g = I.path.ghost  # witnesses of a False answer, where the body produced them ("sym": symbolic run)
    alls, aeq = g.get("np_all_calls"), g.get("array_equal_calls")
    return dict(ret=ret, w=alls[-1]["witness"] if alls else False, wt=aeq[-1]["witness"] if aeq else False)


def _first_diff(n, m, differs):
    for i in range(n):
        for j in range(m):
            if z3.is_true(z3.simplify(differs(z3.IntVal(i), z3.IntVal(j)))):
                return i, j
    return None


def _teq_spec(I, a, b):
    if not _is_stab(b):
        return False
    ta, pa, n = _tab_parts(a)
    tb, pb, _ = _tab_parts(b)
    ra, rb, qa, qb = ta.reader(), tb.reader(), pa.reader(), pb.reader()
    n_ = to_z3(n)
    from pyvc.values import concrete_int

    nc = concrete_int(n_)
    if nc is not None and I.choice is not None and I.choice.get("w") is None:
        # concrete evaluation (replay): the contract's value is computed
        d1 = _first_diff(nc, 1, lambda i, j: as_int_term(qa(i)) != as_int_term(qb(i)))
        d2 = _first_diff(nc, 2 * nc, lambda i, j: as_int_term(ra(i, j)) != as_int_term(rb(i, j)))
        return d1 is None and d2 is None
    if I.choice is not None:
        r, w, wt = I.choice["ret"], I.choice["w"], I.choice["wt"]
    else:
        r, w, wt = I.path.fresh("tab_eq", "bool"), I.path.fresh("eqw"), [I.path.fresh("eqw"), I.path.fresh("eqw")]
    r = to_z3(r)
    c = I.path.counter.get("teqq", 0)
    I.path.counter["teqq"] = c + 1
    j = z3.Int(f"teqj!{c}")
    I.claim_forall("true-means-all-signs-agree", 0, n_, lambda i: z3.Implies(r, as_int_term(qa(i)) == as_int_term(qb(i))))
    I.claim_forall("true-means-all-entries-agree", 0, n_,
                   lambda i: z3.Implies(r, z3.ForAll([j], z3.Implies(z3.And(j >= 0, j < 2 * n_), as_int_term(ra(i, j)) == as_int_term(rb(i, j))))))
    sign_differs = z3.BoolVal(False) if w is False else z3.And(w >= 0, w < n_, as_int_term(qa(w)) != as_int_term(qb(w)))
    entry_differs = z3.BoolVal(False) if wt is False else z3.And(wt[0] >= 0, wt[0] < n_, wt[1] >= 0, wt[1] < 2 * n_,
                                                                   as_int_term(ra(wt[0], wt[1])) != as_int_term(rb(wt[0], wt[1])))
    I.claim("false-means-some-sign-or-entry-differs", z3.Implies(z3.Not(r), z3.Or(sign_differs, entry_differs)))
    return r


C[TEQ] = Contract(TEQ, requires=_teq_req, spec=_teq_spec, extract=_teq_extract,
                  clause="tableau equality: True iff all n sign bits and all n x 2n table entries agree (both directions); a "
                         "non-tableau operand gives False")


def eq_tasks(Call):
    T = [Task(TEQ, C[TEQ], [S.Stabilizer("A"), S.Stabilizer("B", n=z3.Int("n_A"))], Call, inline=TABLEAU_ACCESSORS),
         Task(TEQ, C[TEQ], [S.Stabilizer("A"), S.Const("other", None)], Call, inline=TABLEAU_ACCESSORS, label="StabilizerTableau.__eq__[non-tableau]")]
    return T


def eq_canaries(Call):
    def bad(I, a, b):  # ignores the signs: the property statement demands that sign-only differences are distinguished
        ta, pa, n = _tab_parts(a)
        tb, pb, _ = _tab_parts(b)
        ra, rb = ta.reader(), tb.reader()
        n_ = to_z3(n)
        from pyvc.values import concrete_int

        nc = concrete_int(n_)
        if nc is not None:
            return _first_diff(nc, 2 * nc, lambda i, j: as_int_term(ra(i, j)) != as_int_term(rb(i, j))) is None
        r, wt = to_z3(I.choice["ret"]), I.choice["wt"]
        I.claim("false-means-some-ENTRY-differs",
                z3.Implies(z3.Not(r), z3.And(wt[0] >= 0, wt[0] < n_, wt[1] >= 0, wt[1] < 2 * n_,
                                             as_int_term(ra(wt[0], wt[1])) != as_int_term(rb(wt[0], wt[1])))))
        return r

    return [Task(TEQ, C[TEQ], [S.Stabilizer("A"), S.Stabilizer("B", n=z3.Int("n_A"))], Call, inline=TABLEAU_ACCESSORS,
                 label="canary.StabilizerTableau.__eq__.ignores-signs", spec_override=bad)]


# ------------------------------------------------------------------------------------------ dispatch-level (trace) contracts
def _fresh_stab(I, tag):
    from .common import mk_stabilizer

    k = I.path.counter.get("fs", 0)
    I.path.counter["fs"] = k + 1
    return mk_stabilizer(I, f"{tag}{k}", z3.Int("n_T"))


def _rec(qual, name, result=None):
    return recorder(qual, name, result=result)


def dispatch_contracts():
    R = {}
    R[f"{CTAB}:CliffordTableau.to_stabilizer"] = _rec(f"{CTAB}:CliffordTableau.to_stabilizer", "to_stabilizer",
                                                      result=lambda I, self: Opaque("stabilizer_part", self))
    R[f"{STABF}:canonical_form"] = _rec(f"{STABF}:canonical_form", "canonical_form", result=lambda I, t: Opaque("canonical", t))
    R[TEQ] = _rec(TEQ, "tableau_eq", result=lambda I, a, b: I.path.fresh("eq_result", "bool"))
    R[IP] = _rec(IP, "inner_product", result=lambda I, a, b: I.path.fresh("ip", "real"))
    return R


INLINE_STATE = {f"{SSTATE}:Stabilizer.data", f"{SSTATE}:Stabilizer.tableau"}


def dispatch_tasks():
    R = dispatch_contracts()
    T = []

    # ---- Stabilizer.__eq__
    def mk_states(I):
        from .common import mk_clifford

        a, b = Obj(I.get_class(SSTATE, "Stabilizer")), Obj(I.get_class(SSTATE, "Stabilizer"))
        a.fields["_tableau"] = mk_clifford(I, "A")
        b.fields["_tableau"] = mk_clifford(I, "B")
        return [a, b]

    def spec_seq(I, cur, a, b):
        ta, tb = a.fields["_tableau"], b.fields["_tableau"]
        s1 = expect_on(cur, "to_stabilizer", ta)
        c1 = cur.expect("canonical_form", s1)
        s2 = expect_on(cur, "to_stabilizer", tb)
        c2 = cur.expect("canonical_form", s2)
        return expect_on(cur, "tableau_eq", c1, c2)

    T.append(TraceTask(SEQ, mk_states, spec_seq, R, inline=INLINE_STATE | set(TABLEAU_ACCESSORS), hooks={"compare": _obj_eq_hook},
                       clause="Stabilizer.__eq__ = StabilizerTableau.__eq__(canonical_form(self stabilizer part), canonical_form(other "
                              "stabilizer part)); operands only read"))

    # ---- fidelity
    def mk_two(I):
        from .common import mk_clifford

        return [mk_clifford(I, "A"), mk_clifford(I, "B")]

    def spec_fid(I, cur, a, b):
        ip = cur.expect("inner_product", a, b)
        return z3.If(ip >= 0, ip, -ip) * z3.If(ip >= 0, ip, -ip)

    T.append(TraceTask(FID, mk_two, spec_fid, R, inline=set(TABLEAU_ACCESSORS), clause="fidelity = |inner_product(tableau1, tableau2)|^2"))
    return T


def expect_on(cur, name, self_obj, *args):
    """cur.expect for a recorded METHOD call: also the receiver must be the given object"""
    if cur.pos < len(cur.trace):
        cur._ob(f"{name}.receiver", cur.trace[cur.pos]["self"] is self_obj)
    return cur.expect(name, *args)


def _obj_eq_hook(interp, op, a, b):
    """Python data model: `x == y` calls type(x).__eq__(x, y) when the class defines it (here: recorded tableaux)"""
    import ast

    if isinstance(op, (ast.Eq, ast.NotEq)) and isinstance(a, Opaque) and a.tag == "canonical":
        ev = {"name": "tableau_eq", "args": [b], "self": a, "ret": interp.path.fresh("eq_result", "bool")}
        interp.path.trace.append(ev)
        return ev["ret"] if isinstance(op, ast.Eq) else z3.Not(ev["ret"])
    return NotImplemented


# ------------------------------------------------------------------------------------------ CliffordTableau.to_stabilizer
TOSTAB = f"{CTAB}:CliffordTableau.to_stabilizer"


def _tostab_spec(I, T):
    from pyvc.values import new_array

    tab, ph, n = _tab_parts(T)
    rt, rp = tab.reader(), ph.reader()
    n_ = to_z3(n)
    o = Obj(I.get_class(TAB, "StabilizerTableau"))
    o.fields["_table"] = new_array((n_, 2 * n_), lambda i, j: rt(i + n_, j), "table")
    o.fields["n_qubits"] = n
    o.fields["_phase"] = new_array((n_,), lambda i: rp(i + n_), "phase")
    o.fields["shape"] = (n_, 2 * n_)
    return o


C[TOSTAB] = Contract(TOSTAB, requires=lambda I, T: to_z3(T.fields["n_qubits"]) >= 1, spec=_tostab_spec,
                     clause="to_stabilizer: a NEW StabilizerTableau holding rows n..2n-1 of the table and signs n..2n-1 (copies); the "
                            "Clifford tableau is not modified")


def tostab_tasks(Call):
    return [Task(TOSTAB, C[TOSTAB], [S.Clifford("T")], Call, inline=set(TABLEAU_ACCESSORS) | {f"{TAB}:StabilizerTableau.__init__"})]


def tostab_canaries(Call):
    def bad(I, T):  # the DEstabilizer half
        o = _tostab_spec(I, T)
        tab, ph, n = _tab_parts(T)
        rt = tab.reader()
        from pyvc.values import new_array

        n_ = to_z3(n)
        o.fields["_table"] = new_array((n_, 2 * n_), lambda i, j: rt(i, j), "table")
        return o

    return [Task(TOSTAB, C[TOSTAB], [S.Clifford("T")], Call, inline=set(TABLEAU_ACCESSORS) | {f"{TAB}:StabilizerTableau.__init__"},
                 label="canary.to_stabilizer.destabilizer-half", spec_override=bad)]


# ------------------------------------------------------------------------------------------ inner_product
def _ip_contracts(Call):
    """callees of inner_product for its dispatch task: real contracts where they exist (to_stabilizer, canonical_form frame,
    row_sum), recorded; inverse_circuit / run_circuit / CliffordTableau(...) as recorders with abstract results"""
    from . import stab_inverse as SI
    from pyvc.interp import RaiseEx

    R = dict(Call)

    def wrap(qual, name, real_spec, is_method):
        def spec(I, *a):
            ev = {"name": name, "args": list(a[1:] if is_method else a), "self": a[0] if is_method else None, "ret": None}
            I.path.trace.append(ev)
            ev["ret"] = real_spec(I, *a)
            return ev["ret"]

        return Contract(qual, requires=Call[qual].requires if qual in Call else None, spec=spec)

    R[TOSTAB] = wrap(TOSTAB, "to_stabilizer", _tostab_spec, True)
    R[SI.CANON] = wrap(SI.CANON, "canonical_form", lambda I, T: SI.havoc_tableau(I, T), False)

    def invc(I, T):  # inverse_circuit: trace contract of stab_inverse.py - returns its (overwritten) argument and a list
        SI.havoc_tableau(I, T)
        return (T, Opaque("circuit_list", T))

    R[SI.INVC] = wrap(SI.INVC, "inverse_circuit", invc, False)

    def runc(I, tab, circ, reverse):
        return Opaque("ran", (tab, circ, reverse))

    R[f"{TRANS}:run_circuit"] = Contract(f"{TRANS}:run_circuit", spec=lambda I, tab, circ, reverse: _record(I, "run_circuit", [tab, circ, reverse],
                                                                                                          Opaque("ran", (tab, circ, reverse))))
    return R


def _record(I, name, args, ret, self_obj=None):
    I.path.trace.append({"name": name, "args": list(args), "self": self_obj, "ret": ret})
    return ret


def _ip_hooks():
    from pyvc.invloop import InvLoop, make_hook
    from pyvc.symlist import comprehension_hook
    from pyvc.values import Builtin
    from .common import mk_stabilizer
    import ast

    def instantiate(I, cls, args, kwargs):
        if cls.name == "CliffordTableau":
            return _record(I, "CliffordTableau", args, Opaque("clifford_copy", args[0] if args else None))
        return NotImplemented

    def getattr_hook(I, obj, attr):
        if isinstance(obj, Opaque) and obj.tag == "ran" and attr == "to_stabilizer":
            def ts(i):
                n = i.path.ghost["ip_n"]
                k = i.path.counter.get("ran_ts", 0)
                i.path.counter["ran_ts"] = k + 1
                return _record(i, "to_stabilizer", [], mk_stabilizer(i, f"T2s{k}", n), self_obj=obj)
            return Builtin("to_stabilizer", ts)
        return NotImplemented

    def binop(I, op, a, b):
        # 2 ** (real exponent): an uninterpreted real power (its value is not part of what is proved here)
        if isinstance(op, ast.Pow) and a == 2 and isinstance(b, z3.ExprRef) and z3.is_real(b):
            return z3.Function("pow2r", z3.RealSort(), z3.RealSort())(b)
        return NotImplemented

    def _bits_inplace(I, arr, tag):
        k = I.path.counter.get("hvA", 0)
        I.path.counter["hvA"] = k + 1
        B = z3.Function(f"{tag}!{k}", *([z3.IntSort()] * arr.ndim), z3.BoolSort())
        arr.store.f = (lambda *s, _B=B: z3.If(_B(*s), z3.IntVal(1), z3.IntVal(0)))

    def havoc_outer(I, env):
        env["counter"] = I.path.fresh("counter")
        I.path.ghost["ip_counter"] = env["counter"]
        return []

    def inv_outer(I, k, env):
        c = to_z3(env["counter"])
        return [("counter-counts-rows-seen", z3.And(c >= 0, c <= k))]

    def havoc_inner(I, env):
        out = []
        for nm in ("x_matrix", "z_matrix", "r_vector", "iphase_vector"):
            _bits_inplace(I, env[nm], nm)
            out.append(env[nm])
        return out

    outer = InvLoop("inner_product", "i", None, modifies={"counter"}, havoc=havoc_outer, inv=inv_outer,
                    locals={"identity_x", "identity_z", "x_matrix", "z_matrix", "r_vector", "z_list", "iphase_vector", "index", "j"},
                    allow_return=True)
    inner = InvLoop("inner_product", "index", None, modifies={"x_matrix", "z_matrix", "r_vector", "iphase_vector"}, havoc=havoc_inner)
    return {"loop": make_hook([outer, inner]), "instantiate": instantiate, "getattr": getattr_hook, "binop": binop,
            "comprehension": comprehension_hook}


def ip_tasks(Call):
    from .common import mk_clifford

    R = _ip_contracts(Call)

    def mk(I):
        a = mk_clifford(I, "A")
        b = mk_clifford(I, "B", n=a.fields["n_qubits"])
        I.path.ghost["ip_n"] = a.fields["n_qubits"]
        return [a, b]

    def spec(I, cur, t1, t2):
        s1 = expect_on(cur, "to_stabilizer", t1)
        ret = cur.expect("inverse_circuit", s1)
        cur._ob("inverse_circuit.returns-its-argument", ret[0] is s1)
        circ = ret[1]
        c2 = cur.expect("CliffordTableau", t2)
        ran = cur.expect("run_circuit", c2, circ, False)
        s2 = expect_on(cur, "to_stabilizer", ran)
        cur.expect("canonical_form", s2)
        early = I.path.ghost.get("early_returns")
        if early:
            cur._ob("early-exit-returns-0", early[-1]["value"] == 0)
            return early[-1]["value"]
        c = to_z3(I.path.ghost["ip_counter"])
        cur._ob("counter-in-range", z3.And(c >= 0, c <= to_z3(I.path.ghost["ip_n"])))
        return z3.Function("pow2r", z3.RealSort(), z3.RealSort())(-z3.ToReal(c) / 2)

    hooks = _ip_hooks()

    class _T(TraceTask):
        pass

    t = TraceTask(IP, mk, spec, R, inline=set(TABLEAU_ACCESSORS) | {f"{TAB}:StabilizerTableau.__init__"}, hooks=hooks,
                  label="inner_product[dispatch + loop safety]",
                  clause="inner_product: asserts equal sizes; inverse_circuit of tableau1's stabilizer part; that circuit run FORWARD on a "
                         "copy of tableau2; canonical form of the result; every row_sum / array access of the overlap loop within "
                         "bounds with its precondition; returns 0 from the sign test or 2**(-counter/2), 0 <= counter <= n")
    return [t]


def dispatch_canaries(Call):
    out = []
    seq, fid = dispatch_tasks()
    seq.label = "canary.Stabilizer.__eq__.compares-raw-tableaux"

    def spec_seq(I, cur, a, b):  # WRONG: no canonical forms
        ta, tb = a.fields["_tableau"], b.fields["_tableau"]
        s1 = expect_on(cur, "to_stabilizer", ta)
        s2 = expect_on(cur, "to_stabilizer", tb)
        return expect_on(cur, "tableau_eq", s1, s2)

    seq.spec = spec_seq
    fid.label = "canary.fidelity.no-square"
    fid.spec = lambda I, cur, a, b: (lambda ip: z3.If(ip >= 0, ip, -ip))(cur.expect("inner_product", a, b))
    ip = ip_tasks(Call)[0]
    ip.label = "canary.inner_product.circuit-run-backwards"
    good = ip.spec

    def spec_ip(I, cur, t1, t2):  # WRONG: expects reverse=True
        s1 = expect_on(cur, "to_stabilizer", t1)
        ret = cur.expect("inverse_circuit", s1)
        c2 = cur.expect("CliffordTableau", t2)
        cur.expect("run_circuit", c2, ret[1], True)
        raise __import__("pyvc.interp", fromlist=["PathEnd"]).PathEnd()

    ip.spec = spec_ip
    return [seq, fid, ip]
