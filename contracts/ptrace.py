"""C17 - density_matrix/functions.py `partial_trace`: contract on the einsum subscripts the REAL code builds.

[F] for every number of subsystems ndim <= 8 and every NON-EMPTY subset `keep` (502 cases; the subset given in ascending
order, plus every 2-element subset also in descending order) the real body is interpreted by pyvc with
   rho          an abstract array whose `.reshape(shape)` is a recorder,
   np.einsum    a recorder capturing (subscripts, operand),
   np.asarray / dims.size / dims[keep] / np.prod / np.tile / string.ascii_*   concrete models,
and the recorded effect trace must be exactly
   t1 = rho.reshape(dims ++ dims) ; t2 = np.einsum("L->R", t1) ; return t2.reshape(prod dims[keep], prod dims[keep])
where, writing row_i = L[i], col_i = L[ndim+i]:
   * the row letters are pairwise distinct letters;
   * kept i   : col_i is a letter different from every other letter of L; row_i and col_i both occur in R;
   * traced i : col_i == row_i (the SAME letter twice: einsum takes the diagonal and sums it) and it does not occur in R;
   * R = rows of the kept subsystems in ascending order ++ their columns in ascending order.
With np.einsum's letter semantics [A] that is Tr_{not keep}(rho), indexed (kept rows ; kept columns).
The same subscripts are captured NATIVELY (np.einsum patched inside the checker process) and compared with the interpreted
ones (exact) - so the interpreter's reading of the string-building code is cross-checked against CPython.
`keep=[]` (python list) is outside the contract's domain: np.asarray([]) is a float array and dims[keep] raises IndexError
natively (recorded as an observation in props/C17.findings.md; the bounded stand-in excludes it as well).
Numerical content (the einsum contraction itself, reshape order) is [A]/[B]: bounded stand-in C17 compares with the textbook
reduced state for n <= 4.
"""
from __future__ import annotations

import itertools

import z3

from pyvc import source, models
from pyvc.interp import Interp, Engine, Path, RaiseEx, Undecided, Frame
from pyvc.values import NDArr, Opaque, Builtin, FuncRef, concrete_int, new_array, to_z3
from .metrics import HarnessTask, rec

DMF = "graphiq.backends.density_matrix.functions"
QUAL = f"{DMF}:partial_trace"


# ---------------------------------------------------------------------------------------------
# models (additive; np.einsum only acts as a recorder for tasks that install the 'np.einsum' hook)
# ---------------------------------------------------------------------------------------------

def _np_prod(interp, a, *args, **kw):
    models.used("np.prod of a 1-D array of concrete length (empty product = 1)")
    if args or kw:
        raise Undecided("np.prod with axis/dtype")
    vals = interp.iterate(a)
    r = 1
    for v in vals:
        r = models.binop(interp, __import__("ast").Mult(), r, v)
    c = concrete_int(r)
    return c if c is not None else r


def _np_tile(interp, a, reps):
    models.used("np.tile(1-D array, k) = k concatenated copies")
    k = concrete_int(reps)
    if k is None or not isinstance(a, NDArr) or a.ndim != 1 or concrete_int(a.shape[0]) is None:
        raise Undecided("np.tile outside the modelled form")
    vals = [a.get(j) for j in range(concrete_int(a.shape[0]))] * k
    return models._np_array(interp, vals)


def _np_einsum(interp, subscripts, *operands, **kw):
    h = interp.hooks.get("np.einsum")
    if h is None:
        raise Undecided("numpy.einsum has no [A] model outside the partial_trace subscript contract")
    return h(interp, subscripts, *operands, **kw)


models.NUMPY.setdefault("prod", _np_prod)
models.NUMPY.setdefault("tile", _np_tile)
models.NUMPY.setdefault("einsum", _np_einsum)


def _external(I, name, attr):
    if name == "string" and attr in ("ascii_lowercase", "ascii_uppercase"):
        import string

        return getattr(string, attr)
    return NotImplemented


def _ints(I, v):
    if isinstance(v, NDArr):
        v = [v.get(k) for k in range(concrete_int(v.shape[0]))]
    out = [concrete_int(x) for x in (v if isinstance(v, (list, tuple)) else [v])]
    if any(x is None for x in out):
        raise Undecided("symbolic shape")
    return out


def _getattr(I, obj, attr):
    if isinstance(obj, Opaque) and obj.tag in ("rho", "reshaped", "einsum") and attr == "reshape":
        def reshape(i, *shape):
            sh = _ints(i, shape[0]) if len(shape) == 1 else _ints(i, list(shape))
            r = Opaque("reshaped", (obj, tuple(sh)))
            i.path.trace.append({"name": "reshape", "args": [tuple(sh)], "self": obj, "ret": r})
            return r
        return Builtin("reshape", reshape)
    return NotImplemented


def _einsum(I, subscripts, *operands, **kw):
    models.used("np.einsum letter semantics: repeated letter on one operand = diagonal; letters absent on the right are summed")
    r = Opaque("einsum", (subscripts, operands))
    I.path.trace.append({"name": "einsum", "args": [subscripts, list(operands), dict(kw)], "self": None, "ret": r})
    return r


HOOKS = {"external": _external, "getattr": _getattr, "np.einsum": _einsum}


# ---------------------------------------------------------------------------------------------
# the contract on one (dims, keep)
# ---------------------------------------------------------------------------------------------

def subscript_violations(sub, ndim, keep, wrong=None):
    """-> list of violated clauses (strings); `wrong='two-letters'` is the canary's wrong contract for traced subsystems"""
    bad = []
    if sub.count("->") != 1:
        return ["subscripts are not of the form L->R"]
    L, R = sub.split("->")
    ks = sorted(set(keep))
    if len(L) != 2 * ndim:
        return [f"left side has {len(L)} indices, operand has {2 * ndim} axes"]
    if not all(ch.isalpha() and ch.isascii() for ch in L + R):
        bad.append("non-letter index")
    rows, cols = L[:ndim], L[ndim:]
    if len(set(rows)) != ndim:
        bad.append("row letters are not pairwise distinct")
    for i in range(ndim):
        if i in ks:
            if cols[i] == rows[i] or L.count(cols[i]) != 1 or L.count(rows[i]) != 1:
                bad.append(f"kept subsystem {i}: row/column letters {rows[i]!r}/{cols[i]!r} are not two letters used once each")
            if rows[i] not in R or cols[i] not in R:
                bad.append(f"kept subsystem {i}: a letter is missing on the right")
        else:
            if wrong == "two-letters":
                if cols[i] == rows[i]:
                    bad.append(f"(canary) traced subsystem {i} repeats its letter")
            elif cols[i] != rows[i]:
                bad.append(f"traced subsystem {i}: letters {rows[i]!r}/{cols[i]!r} differ - einsum would SUM the whole block, not its diagonal")
            if rows[i] in R or cols[i] in R:
                bad.append(f"traced subsystem {i}: its letter occurs on the right")
    want = "".join(rows[i] for i in ks) + "".join(cols[i] for i in ks)
    if R != want:
        bad.append(f"right side {R!r} is not kept rows then kept columns in ascending order ({want!r})")
    return bad


def interpret_case(dims, keep):
    """run the REAL partial_trace body on abstract rho; -> (trace, returned value)"""
    m, node, _ = source.find(QUAL)
    path = Path(Engine(2000), [])
    I = Interp(path, {}, set(), dict(HOOKS))
    I.task_name = QUAL
    I.stack.append(Frame(DMF, {}, "partial_trace"))
    rho = Opaque("rho", "rho")
    path.trace = []
    ret = I.call_function(FuncRef(DMF, node, QUAL), [rho, list(keep), list(dims)], {}, force_body=True)
    return rho, path.trace, ret, path


def native_subscripts(dims, keep):
    """the subscripts the real function passes to np.einsum, captured natively"""
    import numpy as np
    import graphiq.backends.density_matrix.functions as dmf

    seen = {}
    orig = np.einsum

    def fake(subscripts, *ops, **kw):
        seen["sub"] = subscripts
        seen["shape"] = tuple(ops[0].shape)
        nk = int(np.prod([dims[k] for k in set(keep)])) if len(keep) else 1
        kd = [dims[k] for k in sorted(set(keep))]
        return np.zeros(kd + kd)

    np.einsum = fake
    try:
        d = int(np.prod(dims))
        out = dmf.partial_trace(np.zeros((d, d)), list(keep), list(dims))
        seen["out_shape"] = tuple(out.shape)
    finally:
        np.einsum = orig
    return seen


def cases(ndim):
    out = []
    for r in range(1, ndim + 1):
        for ks in itertools.combinations(range(ndim), r):
            out.append(list(ks))
            if r == 2:
                out.append(list(reversed(ks)))
    return out


def partial_trace_task(ndim, wrong=None, label_prefix="", dim_values=(2,)):
    label = f"{label_prefix}partial_trace[ndim={ndim}]"

    def harness(eng, path):
        n_cases = 0
        fails = {}

        def fail(key, msg, case):
            fails.setdefault(key, (msg, case))

        for dv in dim_values:
            dims = [dv] * ndim if ndim != 3 or dv != 3 else [2, 3, 2]
            for keep in cases(ndim):
                n_cases += 1
                case = {"dims": dims, "keep": keep}
                try:
                    rho, tr, ret, p = interpret_case(dims, keep)
                except RaiseEx as e:
                    fail("no-raise", f"real body raises {e.exc_name}: {e.msg}", case)
                    continue
                if p.engine.results:
                    badnames = [n for n, r in p.engine.results.items() if r.status != "discharged"]
                    if badnames:
                        fail("side-conditions", f"index/shape obligations failed: {badnames}", case)
                names = [e["name"] for e in tr]
                if names != ["reshape", "einsum", "reshape"]:
                    fail("trace.reshape-einsum-reshape", f"effect trace is {names}", case)
                    continue
                e1, e2, e3 = tr
                if not (e1["self"] is rho and list(e1["args"][0]) == dims + dims):
                    fail("trace.first-reshape-is-rho-to-dims++dims", f"reshape {e1['args']} of {e1['self']}", case)
                if not (len(e2["args"][1]) == 1 and e2["args"][1][0] is e1["ret"] and not e2["args"][2]):
                    fail("trace.einsum-operand-is-the-reshaped-rho", "einsum operand/kwargs differ", case)
                nk = 1
                for k in set(keep):
                    nk *= dims[k]
                if not (e3["self"] is e2["ret"] and tuple(e3["args"][0]) == (nk, nk) and ret is e3["ret"]):
                    fail("trace.result-is-einsum-reshaped-to-(nkeep,nkeep)", f"final reshape {e3['args']}, nkeep={nk}", case)
                sub = e2["args"][0]
                if not isinstance(sub, str):
                    fail("subscripts.is-a-string", repr(sub), case)
                    continue
                for v in subscript_violations(sub, ndim, keep, wrong):
                    key = "subscripts." + ("kept" if v.startswith("kept") else "traced" if "traced" in v else
                                           "right-side" if v.startswith("right") else "shape")
                    fail(key, f"{sub!r}: {v}", case)
                if wrong is None:
                    try:
                        nat = native_subscripts(dims, keep)
                    except Exception as e:  # noqa: BLE001 - the real function raises on this input
                        nat = {"raises": f"{type(e).__name__}: {e}"}
                    if nat.get("sub") != sub or nat.get("shape") != tuple(dims + dims) or nat.get("out_shape") != (nk, nk):
                        fail("native.same-subscripts-as-interpreted", f"native {nat} vs interpreted {sub!r}", case)
        keys = ["no-raise", "side-conditions", "trace.reshape-einsum-reshape", "trace.first-reshape-is-rho-to-dims++dims",
                "trace.einsum-operand-is-the-reshaped-rho", "trace.result-is-einsum-reshaped-to-(nkeep,nkeep)",
                "subscripts.is-a-string", "subscripts.shape", "subscripts.kept", "subscripts.traced", "subscripts.right-side"]
        if wrong is None:
            keys.append("native.same-subscripts-as-interpreted")
        for k in keys:
            if k in fails:
                msg, case = fails[k]
                wit, rep = replay_case(case, wrong)
                rec(eng, f"{label}:{k}", False, f"{msg} (first failing case {case}; {n_cases} cases)", wit, rep)
            else:
                rec(eng, f"{label}:{k}", True)
        for r in eng.results.values():
            r.backend = "exact"

    t = HarnessTask(QUAL, label, harness,
                    clause="partial_trace: kept subsystems have distinct row/column letters, both on the right in order; "
                           "traced subsystems repeat one letter, absent on the right")
    return t


def replay_case(case, wrong=None):
    """native replay: the real partial_trace against the textbook reduced state of a correlated state"""
    import numpy as np
    import graphiq.backends.density_matrix.functions as dmf

    dims, keep = case["dims"], case["keep"]
    try:
        d = int(np.prod(dims))
        rng = np.random.default_rng(7)
        v = rng.normal(size=d) + 1j * rng.normal(size=d)
        v /= np.linalg.norm(v)
        rho = np.outer(v, v.conj())
        got = dmf.partial_trace(rho, list(keep), list(dims))
        n = len(dims)
        t = rho.reshape(list(dims) + list(dims))
        ks = sorted(set(keep))
        tr = [i for i in range(n) if i not in ks]
        # textbook: sum over equal row/col index of traced subsystems
        want = np.einsum(t, list(range(n)) + [i if i in tr else n + i for i in range(n)], ks + [n + i for i in ks])
        nk = int(np.prod([dims[i] for i in ks]))
        want = want.reshape(nk, nk)
        differs = got.shape != want.shape or not np.allclose(got, want, atol=1e-12)
        wit = {"function": QUAL, "dims": dims, "keep": keep, "state": "random pure state, default_rng(7)",
               "max |real - textbook|": float(np.max(np.abs(got - want))) if got.shape == want.shape else "shape differs"}
        if wrong is not None:  # canary: its wrong contract describes a function that differs from the textbook one; the real code agrees with the textbook
            wit["note"] = "real code equals the textbook reduced state, i.e. violates the canary's (wrong) contract"
            return wit, not differs
        return wit, differs
    except Exception as e:  # noqa: BLE001
        return {"function": QUAL, "dims": dims, "keep": keep, "actual": f"raises {type(e).__name__}: {e}"}, wrong is None


def tasks(max_ndim=8):
    import graphiq.backends.density_matrix.functions  # noqa: F401  (imported once in the parent; workers are forked)

    T = [partial_trace_task(n) for n in range(1, max_ndim + 1)]
    T.append(partial_trace_task(3, dim_values=(3,), label_prefix="dims=[2,3,2]."))
    return T


def canary_tasks():
    return [partial_trace_task(2, wrong="two-letters", label_prefix="canary.traced-subsystem-has-two-letters.")]
