"""Sidecar contracts for graphiq/utils/relabel_module.py (C16): `_perm2matrix`, `relabel`, `automorph_check`,
`check_isomorphism`, `_equal_graphs`, `get_relabel_map` (identity branch).

Statement taken from the property: relabelling by a permutation p yields the graph that has edge (p(u),p(v)) exactly
when the original has (u,v):   relabel(A, p)[p(u), p(v)] = A[u, v]  for all u, v   (integer entries).

How the matrix product is handled.  `relabel` computes `P.T @ A @ P` with P = _perm2matrix(p).  numpy's `@` is read as
the finite sum (pyvc.models.matmul [A]); P has a single non-zero entry per row (contract of `_perm2matrix`, proved with a
loop invariant over the symbolic-length `enumerate`), and - p being a permutation - a single one per column, at row
INV(c).  The L2 lemma SUM_SUPPORT2 (lemmas/matsum.py, proved by induction) collapses both sums; its premise ("the summand
vanishes off the support point") is an obligation of relabel's own task (`relabel:matmul.support#1/#2`).

Permutations.  "p is a permutation of range(n)" is `0 <= p[j] < n` and the existence of a two-sided inverse INV:
INV(p[j]) = j, p[INV(i)] = i, 0 <= INV(i) < n  (two quantified assumptions of relabel's task - the only quantified
assumptions in this module).  At call sites the precondition is proved in the skolem form range + injectivity and the
inverse is introduced by [T-pigeonhole]: an injective map of {0..n-1} into itself has a two-sided inverse.
For concrete inputs (replay of counter-models) the precondition is the finite conjunction range + pairwise distinct.

Outside the engine (stated, not proved): `automorph_check` builds a Python `set` of flattened tuples - set semantics and
iteration order (S8) are not modelled; it is covered by an [F] evaluation of the real code over a complete small domain
(all simple graphs on <= 4 vertices x every list of <= 3 permutations is NOT complete for the property, so it is reported
as [F] on that domain only and [B-only] beyond).  `iso_finder`, `_label_finder`, `_add_labels` (rng, while loops over
float heuristics), the LC-orbit explorers (networkx traversal) and `get_relabel_map`'s GraphMatcher branch: [B-only].
"""
from __future__ import annotations

import numpy as np
import z3

from pyvc.contract import Contract
from pyvc.loops import SeqLoop
from pyvc.schema import Item, _ev, _rand_eval, const_nd
from pyvc.values import NDArr, new_array, as_int_term, to_z3, concrete_int

RELABEL = "graphiq.utils.relabel_module"
C = {}


def contract(qual, **kw):
    def deco(spec):
        C[qual] = Contract(qual, spec=spec, **kw)
        return spec

    return deco


def _and(*xs):
    return z3.And(*[to_z3(x) if not isinstance(x, bool) else z3.BoolVal(x) for x in xs])


# ------------------------------------------------------------------------------------------ schema items
class IndexVec(Item):
    """1-D integer array of symbolic length n whose entries lie in [0, bound) *by construction*
    (entry j = F(j) if 0 <= F(j) < bound else 0): every in-range vector is represented, no quantifier needed"""

    def __init__(self, name, n, bound):
        self.name, self.n, self.bound = name, n, bound

    def _term(self, j):
        F = z3.Function(self.name, z3.IntSort(), z3.IntSort())
        b = to_z3(self.bound)
        return z3.If(z3.And(F(j) >= 0, F(j) < b), F(j), z3.IntVal(0))

    def symbolic(self, I):
        return new_array((self.n,), lambda j: self._term(j), self.name)

    def concrete(self, model, env):
        n = _ev(model, self.n)
        if n > 24:
            raise ValueError("witness too large")
        return np.array([_ev(model, self._term(z3.IntVal(j))) for j in range(n)], dtype=int)

    def random(self, rng, env):
        n = _rand_eval(self.n, rng, env)
        b = _rand_eval(self.bound, rng, env)
        return rng.integers(0, max(b, 1), size=(n,))

    def const(self, I, conc):
        return const_nd(conc)

    def jsonable(self, conc):
        return np.asarray(conc).tolist()


def PERM(name):
    return z3.Function(name, z3.IntSort(), z3.IntSort())


def INV(name):
    return z3.Function(name + "_inv", z3.IntSort(), z3.IntSort())


def perm_axioms(p, inv, n, tag):
    """p restricted to [0,n) is a bijection onto [0,n) with two-sided inverse inv (p, inv: callables on Int terms)"""
    j, i = z3.Int(f"pj_{tag}"), z3.Int(f"pi_{tag}")
    n = to_z3(n)
    return [
        z3.ForAll([j], z3.Implies(z3.And(j >= 0, j < n), z3.And(p(j) >= 0, p(j) < n, inv(p(j)) == j))),
        z3.ForAll([i], z3.Implies(z3.And(i >= 0, i < n), z3.And(inv(i) >= 0, inv(i) < n, p(inv(i)) == i))),
    ]


class Perm(Item):
    """1-D integer array of symbolic length n that is a permutation of range(n): entries PERM(j), inverse INV (axioms
    assumed in the task; the inverse is registered on the array's store for the contracts)"""

    def __init__(self, name, n):
        self.name, self.n = name, n

    def symbolic(self, I):
        P, Q = PERM(self.name), INV(self.name)
        for a in perm_axioms(P, Q, self.n, self.name):
            I.path.assume(a)
        arr = new_array((self.n,), lambda j: P(j), self.name)
        arr.store.perm_inverse = Q
        return arr

    def concrete(self, model, env):
        n = _ev(model, self.n)
        if n > 24:
            raise ValueError("witness too large")
        return np.array([_ev(model, PERM(self.name)(z3.IntVal(j))) for j in range(n)], dtype=int)

    def random(self, rng, env):
        n = _rand_eval(self.n, rng, env)
        return rng.permutation(n)

    def const(self, I, conc):
        return const_nd(conc)

    def jsonable(self, conc):
        return np.asarray(conc).tolist()


# ------------------------------------------------------------------------------------------ _perm2matrix
P2M = f"{RELABEL}:_perm2matrix"


def _in_range_skolem(I, seq, bound):
    j = I.path.fresh("rq")
    return z3.Implies(z3.And(j >= 0, j < to_z3(seq.shape[0])), z3.And(seq.get(j) >= 0, seq.get(j) < to_z3(bound)))


def _seq_requires(I, sequence):
    if not (isinstance(sequence, NDArr) and sequence.ndim == 1):
        return False
    return _in_range_skolem(I, sequence, sequence.shape[0])


def perm_matrix(seq_rd, n):
    """P[i, j] = 1 if seq[i] == j else 0"""
    return new_array((n, n), lambda i, j: z3.If(as_int_term(seq_rd(i)) == j, z3.IntVal(1), z3.IntVal(0)), "permute_matrix")


@contract(P2M, requires=_seq_requires,
          clause="P[i, seq[i]] = 1 and every other entry of the fresh n x n matrix is 0; the argument is not written")
def _perm2matrix(I, sequence):
    return perm_matrix(sequence.reader(), sequence.shape[0])


def _p2m_state(I, k, entry):
    """after k iterations rows < k are filled (row i carries its single 1 at column seq[i]); rows >= k are still zero"""
    seq = entry.rd("sequence")
    return {entry["permute_matrix"]: lambda i, j: z3.If(z3.And(i < k, as_int_term(seq(i)) == j), z3.IntVal(1), z3.IntVal(0))}


P2M_LOOPS = [SeqLoop("_perm2matrix", "(i, label)", "enumerate(sequence)", state=_p2m_state)]


# ------------------------------------------------------------------------------------------ relabel
REL = f"{RELABEL}:relabel"


def _is_perm_requires(I, adj_matrix, new_labels):
    """precondition of relabel: square matrix, labels a permutation of range(n).
    concrete length: finite conjunction (range + pairwise distinct); symbolic: skolem range + skolem injectivity"""
    if not (isinstance(new_labels, NDArr) and new_labels.ndim == 1 and isinstance(adj_matrix, NDArr) and adj_matrix.ndim == 2):
        return False
    n = new_labels.shape[0]
    shape_ok = _and(to_z3(adj_matrix.shape[0]) == to_z3(n), to_z3(adj_matrix.shape[1]) == to_z3(n))
    nc = concrete_int(n)
    if nc is not None:
        vals = [as_int_term(new_labels.get(z3.IntVal(j))) for j in range(nc)]
        rng = [z3.And(v >= 0, v < nc) for v in vals]
        return _and(shape_ok, *rng, *( [z3.Distinct(*vals)] if nc > 1 else []))
    a, b = I.path.fresh("rq"), I.path.fresh("rq")
    inr = z3.And(a >= 0, a < to_z3(n), b >= 0, b < to_z3(n))
    inj = z3.Implies(z3.And(inr, a != b), new_labels.get(a) != new_labels.get(b))
    return _and(shape_ok, _in_range_skolem(I, new_labels, n), inj)


def inverse_of(I, labels):
    """the two-sided inverse of a permutation array: the registered symbol (task inputs), an explicit table (concrete
    arrays), or - at call sites - a fresh function with its axioms assumed [T-pigeonhole]"""
    q = getattr(labels.store, "perm_inverse", None)
    if q is not None:
        return q
    n = concrete_int(labels.shape[0])
    if n is not None:
        vals = [as_int_term(labels.get(z3.IntVal(j))) for j in range(n)]

        def inv(i):
            t = z3.IntVal(0)
            for j in range(n - 1, -1, -1):
                t = z3.If(vals[j] == i, z3.IntVal(j), t)
            return t

        return inv
    c = I.path.counter.get("INVcall", 0)
    I.path.counter["INVcall"] = c + 1
    Q = z3.Function(f"INV@{c}", z3.IntSort(), z3.IntSort())
    rd = labels.reader()
    for a in perm_axioms(lambda j: as_int_term(rd(j)), Q, labels.shape[0], f"c{c}"):
        I.path.assume(a)
    return Q


@contract(REL, requires=_is_perm_requires,
          clause="relabel(A,p)[p(u),p(v)] = A[u,v] for all u,v (p a permutation): a fresh integer matrix; A and p are not written")
def _relabel(I, adj_matrix, new_labels):
    inv = inverse_of(I, new_labels)
    ra = adj_matrix.reader()
    n = new_labels.shape[0]
    out = new_array((n, n), lambda i, k: ra(inv(i), inv(k)), "relabelled")
    # the property's own formulation, as a corollary obligation of the closed form above (proved in relabel's task)
    if I.claim_label:
        u, v = I.path.fresh("u"), I.path.fresh("v")
        p = new_labels.reader()
        I.path.oblige(f"{I.claim_label}:post.property-form result[p(u),p(v)]==A[u,v]",
                      as_int_term(out.get(as_int_term(p(u)), as_int_term(p(v)))) == as_int_term(ra(u, v)),
                      extra=[u >= 0, u < to_z3(n), v >= 0, v < to_z3(n)])
    return out


def relabel_support_hook(interp, a, b):
    """support hints for the two products of `p_matrix.T @ adj_matrix @ p_matrix` (evaluation order: P.T @ A first):
       (P.T @ A)[i,k] = sum_j [p(j)=i] A[j,k]      -> only j = INV(i)
       (X   @ P)[i,k] = sum_j X[i,j] [p(j)=k]      -> only j = INV(k)"""
    fr = interp.stack[-1]
    if fr.func_name != "relabel":
        return None
    labels = fr.env.get("new_labels")
    if labels is None:
        return None
    inv = inverse_of(interp, labels)
    c = interp.path.counter.get("relabel.matmul", 0)
    interp.path.counter["relabel.matmul"] = c + 1
    if c % 2 == 0:
        return lambda i, k: [inv(i)]
    return lambda i, k: [inv(k)]


# ------------------------------------------------------------------------------------------ tasks
def tasks():
    from pyvc.contract import Task
    from pyvc import schema as S, loops

    n = z3.Int("n")
    T = []
    T.append(Task(P2M, C[P2M], [S.Assume(n >= 0), IndexVec("seq", n, n)], C,
                  hooks={"loop": loops.make_hook(P2M_LOOPS)}))
    T.append(Task(REL, C[REL], [S.Assume(n >= 0), S.Matrix("A", n, n), Perm("perm", n)], C,
                  hooks={"matmul_support": relabel_support_hook}))
    return T
