"""Sidecar contracts for graphiq/utils/relabel_module.py (C16): `_perm2matrix`, `relabel`, `automorph_check`,
`check_isomorphism`, `_equal_graphs`, `get_relabel_map` (identity branch).

Statement taken from the property: relabelling by a permutation p yields the graph that has edge (p(u),p(v)) exactly
when the original has (u,v):   relabel(A, p)[p(u), p(v)] = A[u, v]  for all u, v   (integer entries).

How the matrix product is handled.  `relabel` computes `P.T @ A @ P` with P = _perm2matrix(p).  numpy's `@` is read as
the finite sum (pyvc.models.matmul [A]); P has a single non-zero entry per row (contract of `_perm2matrix`, proved with a
loop invariant over the symbolic-length `enumerate`), and - p being a permutation - a single one per column, at row
INV(c).  The L2 lemma SUM_SUPPORT2 (lemmas/matsum.py, proved by induction) collapses both sums; its premise ("the summand
vanishes off the support point") is an obligation of relabel's own task (`relabel:matmul.support#1/#2`).

Permutations.  "p is a permutation of range(n)" is `0 <= p[j] < n` and the existence of a two-sided inverse INV:
INV(p[j]) = j, p[INV(i)] = i, 0 <= INV(i) < n  (two quantified assumptions of relabel's task - the only quantified
assumptions in this module).  At call sites the precondition is proved in the skolem form range + injectivity and the
inverse is introduced by [T-pigeonhole]: an injective map of {0..n-1} into itself has a two-sided inverse.
For concrete inputs (replay of counter-models) the precondition is the finite conjunction range + pairwise distinct.

Outside the engine (stated, not proved): `automorph_check` builds a Python `set` of flattened tuples - set semantics and
iteration order (S8) are not modelled; it is covered by an [F] evaluation of the real code over a complete small domain
(all simple graphs on <= 4 vertices x every list of <= 3 permutations is NOT complete for the property, so it is reported
as [F] on that domain only and [B-only] beyond).  `iso_finder`, `_label_finder`, `_add_labels` (rng, while loops over
float heuristics), the LC-orbit explorers (networkx traversal) and `get_relabel_map`'s GraphMatcher branch: [B-only].
"""
from __future__ import annotations

import numpy as np
import z3

from pyvc.contract import Contract
from pyvc.loops import SeqLoop
from pyvc.schema import Item, _ev, _rand_eval, const_nd
from pyvc.values import NDArr, new_array, as_int_term, to_z3, concrete_int

RELABEL = "graphiq.utils.relabel_module"
C = {}


def contract(qual, **kw):
    def deco(spec):
        C[qual] = Contract(qual, spec=spec, **kw)
        return spec

    return deco


def _and(*xs):
    return z3.And(*[to_z3(x) if not isinstance(x, bool) else z3.BoolVal(x) for x in xs])


# ------------------------------------------------------------------------------------------ schema items
class IndexVec(Item):
    """1-D integer array of symbolic length n whose entries lie in [0, bound) *by construction*
    (entry j = F(j) if 0 <= F(j) < bound else 0): every in-range vector is represented, no quantifier needed"""

    def __init__(self, name, n, bound):
        self.name, self.n, self.bound = name, n, bound

    def _term(self, j):
        F = z3.Function(self.name, z3.IntSort(), z3.IntSort())
        b = to_z3(self.bound)
        return z3.If(z3.And(F(j) >= 0, F(j) < b), F(j), z3.IntVal(0))

    def symbolic(self, I):
        return new_array((self.n,), lambda j: self._term(j), self.name)

    def concrete(self, model, env):
        n = _ev(model, self.n)
        if n > 24:
            raise ValueError("witness too large")
        return np.array([_ev(model, self._term(z3.IntVal(j))) for j in range(n)], dtype=int)

    def random(self, rng, env):
        n = _rand_eval(self.n, rng, env)
        b = _rand_eval(self.bound, rng, env)
        return rng.integers(0, max(b, 1), size=(n,))

    def const(self, I, conc):
        return const_nd(conc)

    def jsonable(self, conc):
        return np.asarray(conc).tolist()


def PERM(name):
    return z3.Function(name, z3.IntSort(), z3.IntSort())


def INV(name):
    return z3.Function(name + "_inv", z3.IntSort(), z3.IntSort())


def perm_axioms(p, inv, n, tag):
    """p restricted to [0,n) is a bijection onto [0,n) with two-sided inverse inv (p, inv: callables on Int terms)"""
    j, i = z3.Int(f"pj_{tag}"), z3.Int(f"pi_{tag}")
    n = to_z3(n)
    return [
        z3.ForAll([j], z3.Implies(z3.And(j >= 0, j < n), z3.And(p(j) >= 0, p(j) < n, inv(p(j)) == j))),
        z3.ForAll([i], z3.Implies(z3.And(i >= 0, i < n), z3.And(inv(i) >= 0, inv(i) < n, p(inv(i)) == i))),
    ]


class Perm(Item):
    """1-D integer array of symbolic length n that is a permutation of range(n): entries PERM(j), inverse INV (axioms
    assumed in the task; the inverse is registered on the array's store for the contracts)"""

    def __init__(self, name, n):
        self.name, self.n = name, n

    def symbolic(self, I):
        P, Q = PERM(self.name), INV(self.name)
        for a in perm_axioms(P, Q, self.n, self.name):
            I.path.assume(a)
        arr = new_array((self.n,), lambda j: P(j), self.name)
        arr.store.perm_inverse = Q
        return arr

    def concrete(self, model, env):
        n = _ev(model, self.n)
        if n > 24:
            raise ValueError("witness too large")
        return np.array([_ev(model, PERM(self.name)(z3.IntVal(j))) for j in range(n)], dtype=int)

    def random(self, rng, env):
        n = _rand_eval(self.n, rng, env)
        return rng.permutation(n)

    def const(self, I, conc):
        return const_nd(conc)

    def jsonable(self, conc):
        return np.asarray(conc).tolist()


# ------------------------------------------------------------------------------------------ _perm2matrix
P2M = f"{RELABEL}:_perm2matrix"


def _in_range_skolem(I, seq, bound):
    j = I.path.fresh("rq")
    return z3.Implies(z3.And(j >= 0, j < to_z3(seq.shape[0])), z3.And(seq.get(j) >= 0, seq.get(j) < to_z3(bound)))


def _seq_requires(I, sequence):
    if not (isinstance(sequence, NDArr) and sequence.ndim == 1):
        return False
    return _in_range_skolem(I, sequence, sequence.shape[0])


def perm_matrix(seq_rd, n):
    """P[i, j] = 1 if seq[i] == j else 0"""
    return new_array((n, n), lambda i, j: z3.If(as_int_term(seq_rd(i)) == j, z3.IntVal(1), z3.IntVal(0)), "permute_matrix")


@contract(P2M, requires=_seq_requires,
          clause="P[i, seq[i]] = 1 and every other entry of the fresh n x n matrix is 0; the argument is not written")
def _perm2matrix(I, sequence):
    return perm_matrix(sequence.reader(), sequence.shape[0])


def _p2m_state(I, k, entry):
    """after k iterations rows < k are filled (row i carries its single 1 at column seq[i]); rows >= k are still zero"""
    seq = entry.rd("sequence")
    return {entry["permute_matrix"]: lambda i, j: z3.If(z3.And(i < k, as_int_term(seq(i)) == j), z3.IntVal(1), z3.IntVal(0))}


P2M_LOOPS = [SeqLoop("_perm2matrix", "(i, label)", "enumerate(sequence)", state=_p2m_state)]


# ------------------------------------------------------------------------------------------ relabel
REL = f"{RELABEL}:relabel"


def _is_perm_requires(I, adj_matrix, new_labels):
    """precondition of relabel: square matrix, labels a permutation of range(n).
    concrete length: finite conjunction (range + pairwise distinct); symbolic: skolem range + skolem injectivity"""
    if not (isinstance(new_labels, NDArr) and new_labels.ndim == 1 and isinstance(adj_matrix, NDArr) and adj_matrix.ndim == 2):
        return False
    n = new_labels.shape[0]
    shape_ok = _and(to_z3(adj_matrix.shape[0]) == to_z3(n), to_z3(adj_matrix.shape[1]) == to_z3(n))
    nc = concrete_int(n)
    if nc is not None:
        vals = [as_int_term(new_labels.get(z3.IntVal(j))) for j in range(nc)]
        rng = [z3.And(v >= 0, v < nc) for v in vals]
        return _and(shape_ok, *rng, *( [z3.Distinct(*vals)] if nc > 1 else []))
    a, b = I.path.fresh("rq"), I.path.fresh("rq")
    inr = z3.And(a >= 0, a < to_z3(n), b >= 0, b < to_z3(n))
    inj = z3.Implies(z3.And(inr, a != b), new_labels.get(a) != new_labels.get(b))
    return _and(shape_ok, _in_range_skolem(I, new_labels, n), inj)


def inverse_of(I, labels):
    """the two-sided inverse of a permutation array: the registered symbol (task inputs), an explicit table (concrete
    arrays), or - at call sites - a fresh function with its axioms assumed [T-pigeonhole]"""
    q = getattr(labels.store, "perm_inverse", None)
    if q is not None:
        return q
    n = concrete_int(labels.shape[0])
    if n is not None:
        vals = [as_int_term(labels.get(z3.IntVal(j))) for j in range(n)]

        def inv(i):
            t = z3.IntVal(0)
            for j in range(n - 1, -1, -1):
                t = z3.If(vals[j] == i, z3.IntVal(j), t)
            return t

        return inv
    c = I.path.counter.get("INVcall", 0)
    I.path.counter["INVcall"] = c + 1
    Q = z3.Function(f"INV@{c}", z3.IntSort(), z3.IntSort())
    rd = labels.reader()
    for a in perm_axioms(lambda j: as_int_term(rd(j)), Q, labels.shape[0], f"c{c}"):
        I.path.assume(a)
    return Q


@contract(REL, requires=_is_perm_requires,
          clause="relabel(A,p)[p(u),p(v)] = A[u,v] for all u,v (p a permutation): a fresh integer matrix; A and p are not written")
def _relabel(I, adj_matrix, new_labels):
    inv = inverse_of(I, new_labels)
    ra = adj_matrix.reader()
    n = new_labels.shape[0]
    out = new_array((n, n), lambda i, k: ra(inv(i), inv(k)), "relabelled")
    # the property's own formulation, as a corollary obligation of the closed form above (proved in relabel's task)
    if I.claim_label:
        u, v = I.path.fresh("u"), I.path.fresh("v")
        p = new_labels.reader()
        I.path.oblige(f"{I.claim_label}:post.property-form result[p(u),p(v)]==A[u,v]",
                      as_int_term(out.get(as_int_term(p(u)), as_int_term(p(v)))) == as_int_term(ra(u, v)),
                      extra=[u >= 0, u < to_z3(n), v >= 0, v < to_z3(n)])
    return out


def relabel_support_hook(interp, a, b):
    """support hints for the two products of `p_matrix.T @ adj_matrix @ p_matrix` (evaluation order: P.T @ A first):
       (P.T @ A)[i,k] = sum_j [p(j)=i] A[j,k]      -> only j = INV(i)
       (X   @ P)[i,k] = sum_j X[i,j] [p(j)=k]      -> only j = INV(k)"""
    fr = interp.stack[-1]
    if fr.func_name != "relabel":
        return None
    labels = fr.env.get("new_labels")
    if labels is None:
        return None
    inv = inverse_of(interp, labels)
    c = interp.path.counter.get("relabel.matmul", 0)
    interp.path.counter["relabel.matmul"] = c + 1
    if c % 2 == 0:
        return lambda i, k: [inv(i)]
    return lambda i, k: [inv(k)]


# ------------------------------------------------------------------------------------------ _equal_graphs
from . import nxmodel as NX  # noqa: E402

EQGQ = f"{RELABEL}:_equal_graphs"


def EQG():
    return z3.Function("equal_graphs", z3.IntSort(), z3.IntSort(), z3.BoolSort())


def _eqg_extract(I, ret):
    if I is None:
        return dict(ret=bool(ret), witness=None)
    calls = I.path.ghost.get("array_equal_calls")
    return dict(ret=ret, witness=calls[-1]["witness"] if calls and calls[-1]["result"] is ret else None)


def _eqg_spec(I, g1, g2):
    """r <=> same number of nodes and identical edge sets (adjacency compared as booleans)
    own task: r is the body's value, both directions are claims; call sites: r = equal_graphs(id1, id2), characterisation assumed"""
    path = I.path
    n1, n2 = to_z3(g1.payload["n"]), to_z3(g2.payload["n"])
    a1, a2 = g1.payload["adj"], g2.payload["adj"]

    def same(i, j):
        return (as_int_term(a1(i, j)) != 0) == (as_int_term(a2(i, j)) != 0)

    if I.choice is not None:
        r, w = I.choice["ret"], I.choice["witness"]
    else:
        r, w = EQG()(g1.payload["id"], g2.payload["id"]), None
    rt = to_z3(r)
    if I.choice is not None:
        i, j = path.fresh("csk"), path.fresh("csk")
        path.oblige(f"{I.claim_label}:choice.true-only-if-same-graph", z3.Implies(rt, z3.And(n1 == n2, same(i, j))),
                    extra=[i >= 0, i < n1, j >= 0, j < n1])
    c = path.counter.get("cq", 0)
    path.counter["cq"] = c + 1
    qi, qj = z3.Int(f"cq!{c}i"), z3.Int(f"cq!{c}j")
    path.assume(z3.Implies(rt, z3.And(n1 == n2, z3.ForAll([qi, qj], z3.Implies(z3.And(qi >= 0, qi < n1, qj >= 0, qj < n1), same(qi, qj))))))
    nc = concrete_int(n1)
    if w is None and nc is not None and concrete_int(n2) == nc:
        ex = z3.Or(*[z3.Not(same(z3.IntVal(x), z3.IntVal(y))) for x in range(nc) for y in range(nc)]) if nc else z3.BoolVal(False)
    else:
        if w is None:
            w = [path.fresh("ew"), path.fresh("ew")]
        ex = z3.And(w[0] >= 0, w[0] < n1, w[1] >= 0, w[1] < n1, z3.Not(same(w[0], w[1])))
    I.claim("false-only-if-graphs-differ", z3.Implies(z3.Not(rt), z3.Or(n1 != n2, ex)))
    return r


C[EQGQ] = Contract(EQGQ, requires=lambda I, g1, g2: NX.is_graph(g1) and NX.is_graph(g2), spec=_eqg_spec, extract=_eqg_extract,
                   clause="_equal_graphs(g1,g2) is True exactly when the two graphs have the same adjacency matrix (as booleans)")


# ------------------------------------------------------------------------------------------ check_isomorphism
CHK = f"{RELABEL}:check_isomorphism"


def first_match_list_hook(interp, node, it):
    """Rule for   for x in <list of symbolic length>:  if C(x): <stmts>; break      (no else)
    where C is PURE (here: a call of a function under a side-effect-free contract or of an [A]-pure networkx predicate):
         either  exists s: 0<=s<N, C(l[s]), forall k<s: not C(l[k]), and the loop's effect is <stmts> with x = l[s]
         or      forall k<N: not C(l[k]) and the loop has no effect.
    Same argument as pyvc.loops.first_match_hook; the test is evaluated once at a skolem position with obligations on
    (callee preconditions), afterwards quietly."""
    import ast
    from pyvc.symlist import SymList

    if not isinstance(it, SymList):
        return False
    if len(node.body) != 1 or not isinstance(node.body[0], ast.If) or node.orelse or not isinstance(node.target, ast.Name):
        return False
    iff = node.body[0]
    if iff.orelse or not iff.body or not isinstance(iff.body[-1], ast.Break):
        return False
    for n_ in ast.walk(iff.test):
        if isinstance(n_, (ast.NamedExpr, ast.Lambda, ast.ListComp, ast.IfExp, ast.BoolOp)):
            return False
    path, fr = interp.path, interp.stack[-1]
    N = to_z3(it.length)
    tname = node.target.id
    tag = f"{fr.func_name}:search({tname})"
    saved = len(path.pc)
    k0 = path.fresh("sk_it")
    path.assume(z3.And(k0 >= 0, k0 < N))
    fr.env[tname] = it.get(k0)
    interp.truth_term(interp.eval(iff.test))
    del path.pc[saved:]

    def Cterm(kterm):
        old = fr.env.get(tname)
        fr.env[tname] = it.get(kterm)
        path.quiet += 1
        try:
            return interp.truth_term(interp.eval(iff.test))
        finally:
            path.quiet -= 1
            if old is None:
                fr.env.pop(tname, None)
            else:
                fr.env[tname] = old

    s_ = path.fresh("first")
    kq = z3.Int(f"kq!{path.counter.get('kq', 0)}")
    path.counter["kq"] = path.counter.get("kq", 0) + 1
    found = z3.And(s_ >= 0, s_ < N, Cterm(s_), z3.ForAll([kq], z3.Implies(z3.And(kq >= 0, kq < s_), z3.Not(Cterm(kq)))))
    notfound = z3.ForAll([kq], z3.Implies(z3.And(kq >= 0, kq < N), z3.Not(Cterm(kq))))
    b = path.fresh("found", "bool")
    path.ghost.setdefault("searches", []).append(dict(found=b, first=s_, C=Cterm, N=N))
    if path.decide(b):
        path.assume(found)
        fr.env[tname] = it.get(s_)
        interp.exec_block(iff.body[:-1])
    else:
        path.assume(notfound)
    path.engine.record(f"{tag}.pattern", "discharged", 0, "", None)
    return True


def _chk_extract(I, ret):
    if I is None:
        raise ValueError("check_isomorphism over an abstract list of graphs is not replayed concretely")
    return dict(ret=ret, first=I.path.ghost["searches"][-1]["first"])


def _chk_spec(I, graph, g_list, _only_auto):
    """True  <=>  some graph of the list matches `graph` under the selected test (same adjacency / nx.is_isomorphic)"""
    path = I.path
    N = to_z3(g_list.length)
    gid = graph.payload["id"]
    P = EQG() if _only_auto else NX.ISO()

    def Ck(k):
        return P(gid, g_list.get(k).payload["id"])

    if I.choice is not None:
        ret, s_ = I.choice["ret"], I.choice["first"]
    else:
        ret, s_ = path.decide(path.fresh("iso", "bool")), path.fresh("first")
    if ret:
        I.claim("some-listed-graph-matches", z3.And(s_ >= 0, s_ < N, Ck(s_)))
        return True
    I.claim_forall("no-listed-graph-matches", 0, N, lambda k: z3.Not(Ck(k)))
    return False


def _chk_requires(I, graph, g_list, _only_auto):
    from pyvc.symlist import SymList

    return NX.is_graph(graph) and isinstance(g_list, SymList) and isinstance(_only_auto, bool)


C[CHK] = Contract(CHK, requires=_chk_requires, spec=_chk_spec, extract=_chk_extract,
                  clause="check_isomorphism(graph, g_list) is True exactly when some element of g_list matches graph "
                         "(equal adjacency if _only_auto, else nx.is_isomorphic)")


# ------------------------------------------------------------------------------------------ get_relabel_map
GRM = f"{RELABEL}:get_relabel_map"


def _as_graph_view(I, g):
    if NX.is_graph(g):
        return g.payload["n"], g.payload["adj"], g.payload["id"]
    return g.shape[0], g.reader(), NX.array_graph_id(g)


def _grm_requires(I, g1, g2):
    ok = []
    for g in (g1, g2):
        if NX.is_graph(g):
            continue
        if not (isinstance(g, NDArr) and g.ndim == 2 and concrete_int(g.shape[0]) is not None and concrete_int(g.shape[0]) == concrete_int(g.shape[1])):
            return False
    return True


def _grm_spec(I, g1, g2):
    """equal adjacency matrices -> {-1: 'self', k: k for every node}; otherwise the GraphMatcher's mapping (an isomorphism
    by [A]); the assertion failure for non-isomorphic graphs is the documented abrupt exit (permitted assert)"""
    n1, a1, id1 = _as_graph_view(I, g1)
    n2, a2, id2 = _as_graph_view(I, g2)
    c1, c2 = concrete_int(n1), concrete_int(n2)
    if c1 == c2:
        eq = z3.And(*[as_int_term(a1(z3.IntVal(i), z3.IntVal(j))) == as_int_term(a2(z3.IntVal(i), z3.IntVal(j)))
                      for i in range(c1) for j in range(c1)]) if c1 else z3.BoolVal(True)
        if I.path.decide(eq):
            d = {-1: "self"}
            d.update({k: k for k in range(c1)})
            return d
    if id1 is None or id2 is None:
        from pyvc.interp import Undecided

        raise Undecided("matcher branch on an adjacency array without a graph id")
    I.path.assume(NX.ISO()(id1, id2))  # normal return only when the (permitted) assert held
    return NX.MAPPING()(id1, id2)


C[GRM] = Contract(GRM, requires=_grm_requires, spec=_grm_spec,
                  clause="get_relabel_map: identical adjacency -> identity map on the nodes plus the sentinel key -1:'self'; "
                         "otherwise the GraphMatcher mapping (raises AssertionError if the graphs are not isomorphic)")


def _grm_permitted_asserts(interp, name, node):
    import ast

    return ast.unparse(node.test) == "GM.is_isomorphic()"


# ------------------------------------------------------------------------------------------ tasks
def tasks():
    from pyvc.contract import Task
    from pyvc import schema as S, loops

    n = z3.Int("n")
    T = []
    T.append(Task(P2M, C[P2M], [S.Assume(n >= 0), IndexVec("seq", n, n)], C,
                  hooks={"loop": loops.make_hook(P2M_LOOPS)}))
    T.append(Task(REL, C[REL], [S.Assume(n >= 0), S.Matrix("A", n, n), Perm("perm", n)], C,
                  hooks={"matmul_support": relabel_support_hook}))
    n1, n2, L = z3.Int("n1"), z3.Int("n2"), z3.Int("L")
    T.append(Task(EQGQ, C[EQGQ], [S.Assume(z3.And(n1 >= 1, n2 >= 1)), NX.SimpleGraph("G1", n1), NX.SimpleGraph("G2", n2)], C,
                  hooks=dict(NX.HOOKS)))
    hk = dict(NX.HOOKS)
    hk["loop"] = first_match_list_hook
    for auto in (True, False):
        T.append(Task(CHK, C[CHK], [S.Assume(z3.And(n >= 1, L >= 0)), NX.SimpleGraph("G", n), NX.GraphList("GL", L), S.Const("_only_auto", auto)],
                      C, hooks=hk, label=f"check_isomorphism[_only_auto={auto}]"))
    hg = dict(NX.HOOKS)
    hg["permitted_asserts"] = _grm_permitted_asserts
    for k in (1, 2, 3, 4):
        T.append(Task(GRM, C[GRM], [NX.SimpleGraph("G1", k), NX.SimpleGraph("G2", k)], C, hooks=hg,
                      label=f"get_relabel_map[nx.Graph,n={k}]"))
    T.append(Task(GRM, C[GRM], [NX.SimpleAdj("A1", 3), NX.SimpleGraph("G2", 3)], C, hooks=hg, label="get_relabel_map[ndarray+nx.Graph,n=3]"))
    return T


def canary_tasks():
    """deliberately wrong postconditions: must be refuted, counter-model must replay on the real code"""
    from pyvc.contract import Task
    from pyvc import schema as S, loops

    n = z3.Int("n")

    def bad_p2m(I, sequence):  # transposed permutation matrix
        rd = sequence.reader()
        m = sequence.shape[0]
        return new_array((m, m), lambda i, j: z3.If(as_int_term(rd(j)) == i, z3.IntVal(1), z3.IntVal(0)), "permute_matrix")

    def bad_rel(I, adj_matrix, new_labels):  # relabelling by the inverse permutation: result[u,v] = A[p(u),p(v)]
        ra, p = adj_matrix.reader(), new_labels.reader()
        m = new_labels.shape[0]
        return new_array((m, m), lambda i, k: ra(as_int_term(p(i)), as_int_term(p(k))), "relabelled")

    return [
        Task(P2M, C[P2M], [S.Assume(n >= 0), IndexVec("seq", n, n)], C, hooks={"loop": loops.make_hook(P2M_LOOPS)},
             label="canary._perm2matrix.transposed", spec_override=bad_p2m),
        Task(REL, C[REL], [S.Assume(n >= 0), S.Matrix("A", n, n), Perm("perm", n)], C,
             hooks={"matmul_support": relabel_support_hook}, label="canary.relabel.inverse-permutation", spec_override=bad_rel,
             timeout_ms=3000),
    ] + _canaries2()


def _canaries2():
    from pyvc.contract import Task
    from pyvc import schema as S

    n, n1, n2, L = z3.Int("n"), z3.Int("n1"), z3.Int("n2"), z3.Int("L")

    def bad_eqg(I, g1, g2):  # "equal" as soon as the node counts agree
        r = I.choice["ret"] if I.choice is not None else I.path.fresh("eq", "bool")
        I.claim("false-only-if-sizes-differ", z3.Implies(z3.Not(to_z3(r)), to_z3(g1.payload["n"]) != to_z3(g2.payload["n"])))
        return r

    def bad_chk(I, graph, g_list, _only_auto):  # True only if EVERY listed graph matches
        N = to_z3(g_list.length)
        gid = graph.payload["id"]
        P = EQG() if _only_auto else NX.ISO()
        ret = I.choice["ret"]
        if ret:
            I.claim_forall("all-listed-graphs-match", 0, N, lambda k: P(gid, g_list.get(k).payload["id"]))
        return ret

    def bad_grm(I, g1, g2):  # identity map without the sentinel key
        d = _grm_spec(I, g1, g2)
        if isinstance(d, dict):
            d = dict(d)
            d.pop(-1, None)
        return d

    hk = dict(NX.HOOKS)
    hk["loop"] = first_match_list_hook
    hg = dict(NX.HOOKS)
    hg["permitted_asserts"] = _grm_permitted_asserts
    return [
        Task(EQGQ, C[EQGQ], [S.Assume(z3.And(n1 >= 1, n2 >= 1)), NX.SimpleGraph("G1", n1), NX.SimpleGraph("G2", n2)], C,
             hooks=dict(NX.HOOKS), label="canary._equal_graphs.sizes-only", spec_override=bad_eqg),
        Task(CHK, C[CHK], [S.Assume(z3.And(n >= 1, L >= 0)), NX.SimpleGraph("G", n), NX.GraphList("GL", L), S.Const("_only_auto", True)],
             C, hooks=hk, label="canary.check_isomorphism.forall-instead-of-exists", spec_override=bad_chk),
        Task(GRM, C[GRM], [NX.SimpleGraph("G1", 2), NX.SimpleGraph("G2", 2)], C, hooks=hg,
             label="canary.get_relabel_map.no-sentinel", spec_override=bad_grm),
    ]
