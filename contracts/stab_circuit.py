"""C11 / C05 - contracts for transformation.run_circuit(tableau, circuit_list, reverse).

Specification (property statement: "reverse execution with P <-> P_dag"):
  forward:  for every element (name, indices...) of circuit_list, in list order, the gate named by GATES[name][0] is applied
            to the tableau;  "I" applies nothing;  a name outside the table raises ValueError (gates of earlier elements
            have been applied by then).
  reverse:  circuit_list is reversed IN PLACE first (the caller's list object is mutated - frame clause), then the same
            with GATES[name][1]: P and P_dag exchanged, every other gate is its own inverse.
  The same tableau object is returned (every gate returns its argument).

Two layers:
  * `C[RUNC]` - state-level contract for lists of CONCRETE length and concrete names with symbolic indices (composition of
    the gate contracts of contracts/stab_gates.py).  Verified for every gate name as a one-element list x reverse x both
    tableau classes [F over names x P over indices, n], for two-element lists (order / reversal) and for an unknown name.
  * the general list, of symbolic length, by the trace-loop induction rule (pyvc/trace.py: AbstractSeq + trace_loop_hook):
    the loop body, run on an ARBITRARY element, calls exactly GATES[name][reverse] on the working tableau with the element's
    indices (recorder contracts that keep the gates' preconditions as obligations), leaves `tableau` bound to the same
    object, and the function returns it.
"""
from __future__ import annotations

import z3

from pyvc.contract import Contract, Task
from pyvc.interp import RaiseEx
from pyvc import schema as S
from pyvc.trace import recorder, TraceTask, AbstractSeq, trace_loop_hook
from pyvc.values import Builtin, to_z3
from .common import TRANS, TABLEAU_ACCESSORS, idx_in
from .stab_gates import C as GC, _and

RUNC = f"{TRANS}:run_circuit"
C = {}

# name -> (gate applied when reverse=False, gate applied when reverse=True); None = nothing is applied
GATES = {
    "H": ("hadamard_gate", "hadamard_gate"), "P": ("phase_gate", "phase_dagger_gate"), "P_dag": ("phase_dagger_gate", "phase_gate"),
    "X": ("x_gate", "x_gate"), "Y": ("y_gate", "y_gate"), "Z": ("z_gate", "z_gate"), "I": (None, None),
    "CNOT": ("cnot_gate", "cnot_gate"), "CZ": ("control_z_gate", "control_z_gate"),
}
ARITY = {k: (2 if k in ("CNOT", "CZ") else 1) for k in GATES}
UNKNOWN = "CY"  # a name run_circuit does not dispatch (control_y_gate exists in the module but is not reachable from it)


def _op_ok(n, op):
    """index validity of one element = the precondition of its gate"""
    if not (isinstance(op, tuple) and op and isinstance(op[0], str)):
        return False
    name = op[0]
    if name not in GATES:
        return True
    if len(op) < 1 + ARITY[name]:
        return False
    if GATES[name][0] is None:
        return True
    if ARITY[name] == 1:
        return idx_in(op[1], n)
    return z3.And(idx_in(op[1], n), idx_in(op[2], n), to_z3(op[1]) != to_z3(op[2]))


def _runc_req(I, T, circuit_list, reverse):
    if not isinstance(circuit_list, list) or not isinstance(reverse, bool):
        return False
    n = T.fields["n_qubits"]
    return _and(*[_op_ok(n, op) for op in circuit_list]) if circuit_list else True


def _runc_spec(I, T, circuit_list, reverse):
    if reverse:
        circuit_list.reverse()  # the caller's list is reversed in place
    for op in circuit_list:
        if op[0] not in GATES:
            raise RaiseEx("ValueError", "unsupported operation in the circuit list")
        g = GATES[op[0]][1 if reverse else 0]
        if g is not None:
            T = GC[f"{TRANS}:{g}"].spec(I, T, *op[1:1 + ARITY[op[0]]])
    return T


C[RUNC] = Contract(RUNC, requires=_runc_req, spec=_runc_spec,
                   clause="run_circuit applies, in list order (after reversing the caller's list in place when reverse=True), the gate "
                          "named by every element; reverse exchanges P and P_dag; unknown name: ValueError")


class GateList(S.Item):
    """a list of (name, indices...) with concrete names and symbolic indices"""

    def __init__(self, name, names):
        self.name, self.names = name, list(names)

    def _syms(self):
        return [[z3.Int(f"{self.name}{k}_{i}") for i in range(ARITY.get(nm, 1))] for k, nm in enumerate(self.names)]

    def symbolic(self, I):
        return [tuple([nm] + ss) for nm, ss in zip(self.names, self._syms())]

    def concrete(self, model, env):
        return [tuple([nm] + [S._ev(model, s) for s in ss]) for nm, ss in zip(self.names, self._syms())]

    def random(self, rng, env):
        return [tuple([nm] + [int(rng.integers(0, 3)) for _ in ss]) for nm, ss in zip(self.names, self._syms())]

    def real(self, conc):
        return [tuple(t) for t in conc]

    def const(self, I, conc):
        return [tuple(t) for t in conc]

    def jsonable(self, conc):
        return [list(t) for t in conc]


def concrete_tasks(Call):
    T = []
    for nm in list(GATES) + [UNKNOWN]:
        for rev in (False, True):
            for cls, item in (("CliffordTableau", S.Clifford("T")), ("StabilizerTableau", S.Stabilizer("S"))):
                T.append(Task(RUNC, C[RUNC], [item, GateList("g", [nm]), S.Const("reverse", rev)], Call, inline=TABLEAU_ACCESSORS,
                              label=f"run_circuit[[{nm}],reverse={rev},{cls}]"))
    for names in (["P", "H"], ["CNOT", "P_dag"], ["H", "CZ", "X"]):
        for rev in (False, True):
            T.append(Task(RUNC, C[RUNC], [S.Stabilizer("S"), GateList("g", names), S.Const("reverse", rev)], Call,
                          inline=TABLEAU_ACCESSORS, label=f"run_circuit[[{','.join(names)}],reverse={rev}]"))
    return T


def canary_tasks(Call):
    def bad_reverse(I, T, circuit_list, reverse):  # reverse execution WITHOUT exchanging P and P_dag
        if reverse:
            circuit_list.reverse()
        for op in circuit_list:
            g = GATES[op[0]][0]
            if g is not None:
                T = GC[f"{TRANS}:{g}"].spec(I, T, *op[1:1 + ARITY[op[0]]])
        return T

    def bad_order(I, T, circuit_list, reverse):  # reverse execution in the original order
        for op in circuit_list:
            g = GATES[op[0]][1 if reverse else 0]
            if g is not None:
                T = GC[f"{TRANS}:{g}"].spec(I, T, *op[1:1 + ARITY[op[0]]])
        if reverse:
            circuit_list.reverse()
        return T

    return [
        Task(RUNC, C[RUNC], [S.Stabilizer("S"), GateList("g", ["P"]), S.Const("reverse", True)], Call, inline=TABLEAU_ACCESSORS,
             label="canary.run_circuit.reverse-keeps-P", spec_override=bad_reverse),
        Task(RUNC, C[RUNC], [S.Stabilizer("S"), GateList("g", ["H", "P"]), S.Const("reverse", True)], Call, inline=TABLEAU_ACCESSORS,
             label="canary.run_circuit.reverse-keeps-order", spec_override=bad_order),
    ]


# ------------------------------------------------------------------------------------------ the general list (trace induction)
def gate_recorders():
    """recorder contracts for the gate functions: the call is recorded, the gate's real precondition stays an obligation,
    the argument tableau is returned (as the gate contracts prove: `return.identity`)"""
    R = {}
    for names in GATES.values():
        for g in names:
            if g is None:
                continue
            q = f"{TRANS}:{g}"
            R[q] = recorder(q, g, result=lambda I, T, *a: T, requires=GC[q].requires)
    return R


def _element(I, k):
    names = list(GATES) + [UNKNOWN]
    name = names[-1]
    for j, nm in enumerate(names[:-1]):
        if I.path.decide(I.path.fresh(f"name_is_{nm}", "bool")):
            name = nm
            break
    idx = [I.path.fresh("qidx") for _ in range(ARITY.get(name, 2))]
    op = tuple([name] + idx)
    n = I.path.ghost["runc_n"]
    ok = _op_ok(n, op)  # run_circuit's precondition: every element's indices are valid for its gate
    I.path.assume(ok if not isinstance(ok, bool) else z3.BoolVal(ok))
    return op


def _expected(reverse):
    def expected(I, op):
        if op[0] not in GATES:
            return ("raises", ["ValueError"])
        g = GATES[op[0]][1 if reverse else 0]
        if g is None:
            return []
        return [(g, [I.path.ghost["runc_T"]] + list(op[1:1 + ARITY[op[0]]]))]

    return expected


def _seq_getattr(interp, obj, attr):
    if isinstance(obj, AbstractSeq) and attr == "reverse":
        def rev(i):
            i.path.trace.append({"name": "list.reverse", "args": [obj], "self": None, "ret": None})
        return Builtin("reverse", rev)
    return NotImplemented


def trace_tasks():
    T = []
    R = gate_recorders()
    for rev in (False, True):
        for cls, item in (("CliffordTableau", S.Clifford("T")), ("StabilizerTableau", S.Stabilizer("S"))):
            def mk(I, _item=item, _rev=rev):
                tab = _item.symbolic(I)
                I.path.ghost["runc_T"] = tab
                I.path.ghost["runc_n"] = tab.fields["n_qubits"]
                I.path.assume(z3.Int("n_ops") >= 0)
                return [tab, AbstractSeq(z3.Int("n_ops"), _element, "circuit_list"), _rev]

            def spec(I, cur, tab, seq, reverse):
                if reverse:
                    cur.expect("list.reverse", seq)
                cur.expect("foreach", seq)
                return tab

            hooks = {"loop": trace_loop_hook(_expected(rev), locals_=(), stable=("tableau",)), "getattr": _seq_getattr}
            T.append(TraceTask(RUNC, mk, spec, R, inline=TABLEAU_ACCESSORS, label=f"run_circuit[any list,reverse={rev},{cls}]", hooks=hooks,
                               clause="for every element of the list, in order, exactly the gate GATES[name][reverse] is applied to the "
                                      "working tableau with the element's indices (gate preconditions follow from index validity); "
                                      "an unsupported name raises ValueError; the tableau passed in is returned"))
    return T


def trace_canaries():
    """the general-list contract with a WRONG dispatch table (reverse execution keeps P / P_dag): must be refuted"""
    def wrong(I, op):
        if op[0] not in GATES:
            return ("raises", ["ValueError"])
        g = GATES[op[0]][0]
        return [] if g is None else [(g, [I.path.ghost["runc_T"]] + list(op[1:1 + ARITY[op[0]]]))]

    base = [t for t in trace_tasks() if "reverse=True,StabilizerTableau" in t.label][0]
    base.label = "canary.run_circuit.any-list.reverse-keeps-P"
    base.hooks = dict(base.hooks)
    base.hooks["loop"] = trace_loop_hook(wrong, locals_=(), stable=("tableau",))
    return [base]
