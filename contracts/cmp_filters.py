"""C15 - the redundancy filters of graphiq/utils/circuit_comparison.py over an ARBITRARY comparison verdict.

Circuits are abstract values (only `copy()`, `unwrap_nodes()`, `remove_identity()` are modelled: a copy remembers its original and
which of the two rewrites it has received; calling a rewrite on an ORIGINAL is a violation - the caller's circuits must not be
changed); the comparison (`circuit_is_isomorphic` / `compare_circuits` / a user check function) is an uninterpreted predicate
EQ(first argument's original, second argument's original) - no symmetry, reflexivity or transitivity is assumed - and its contract
requires both arguments to be unwrapped, identity-free COPIES where the real code prepares them so.

  remove_redundant_circuits(L)        [P over EQ, F over len(L) = 0..4]
        the result is a sub-list of L (same objects, same order) starting with L[0];
        every dropped circuit L[i] was reported equal to a kept circuit that precedes it: EQ(kept, L[i]) - arguments in this order;
        kept circuits are pairwise reported different: not EQ(earlier kept, later kept);
        every comparison was made on unwrapped, identity-free copies; the input circuits and the input list are untouched.
  check_redundant_circuit(c1, c2)     = compare_circuits(copy of c1, copy of c2) (default method) on unwrapped, identity-free copies.
  CircuitStorage.add_new_circuit / is_redundant   [P over EQ, F over the number of stored circuits 0..3, both values of
        disable_circuit_comparison]: is_redundant(new) <=> some stored circuit c has check(c, new) (stored circuit FIRST);
        add_new_circuit appends `new` and returns True iff comparison is disabled or not is_redundant(new); otherwise the list is
        unchanged and False is returned; stored circuits are never replaced or reordered.
  compare_circuits(c1, c2, method)    [F over the five documented methods + an unknown one] one call of the documented function with
        (c1, c2) in this order (GED_full / GED_approximate: ged(.., full=True / False)), its verdict returned; unknown: ValueError.
  CircuitDAG.compare(self, other, m)  = compare_circuits(self, other, method=m).
  circuit_is_isomorphic(c1, c2)       annotates c1 AND c2 (add_control_target_to_dag, once each) before the match and returns networkx's
        is_isomorphic(c1.dag, c2.dag, node_match=<its node_match>, edge_match=<its edge_match>) (callbacks: contracts/cmp_callbacks.py).
Hence, with soundness of the comparison ("reported equal => equivalent"), nothing inequivalent to every kept circuit is dropped.
Soundness of the comparison itself: `direct` by contracts/cmp_walk.py + T-wire; `is_isomorphic` is NOT sound (bounded/C15.findings.md).
"""
from __future__ import annotations

import itertools

import z3

from pyvc import source
from pyvc.interp import Interp, Engine, explore, RaiseEx, Undecided, Frame
from pyvc.values import FuncRef, Opaque, Builtin, Obj
from pyvc.contract import Contract

CMP = "graphiq.utils.circuit_comparison"
RRC = f"{CMP}:remove_redundant_circuits"
CRC = f"{CMP}:check_redundant_circuit"
ISO = f"{CMP}:circuit_is_isomorphic"
CC = f"{CMP}:compare_circuits"
ADD = f"{CMP}:CircuitStorage.add_new_circuit"
ISR = f"{CMP}:CircuitStorage.is_redundant"


def EQ():
    return z3.Function("REPORTED_EQUAL", z3.IntSort(), z3.IntSort(), z3.BoolSort())


def circ(k):
    return Opaque("circuit", {"id": k, "of": None, "unwrapped": False, "noid": False})


def _orig(c):
    return c.payload["of"] if c.payload["of"] is not None else c


def make_hooks(path, log):
    def getattr_(interp, obj, attr):
        if isinstance(obj, Opaque) and obj.tag == "circuit":
            P = obj.payload
            if attr == "copy":
                return Builtin("copy", lambda i: Opaque("circuit", {"id": P["id"], "of": _orig(obj), "unwrapped": P["unwrapped"], "noid": P["noid"]}))
            if attr in ("unwrap_nodes", "remove_identity"):
                def rewrite(i, _a=attr):
                    if P["of"] is None:
                        log.append(("input-mutated", P["id"], _a))
                    P["unwrapped" if _a == "unwrap_nodes" else "noid"] = True
                return Builtin(attr, rewrite)
            raise Undecided(f"circuit.{attr} is not part of the abstract circuit of contracts/cmp_filters.py")
        return NotImplemented

    return {"getattr": getattr_}


def _cmp_contract(qual, log, name, need_prepared=True):
    def spec(I, a, b, *rest, **kw):
        ok = all(isinstance(x, Opaque) and x.tag == "circuit" for x in (a, b))
        prepared = ok and all(x.payload["of"] is not None and x.payload["unwrapped"] and x.payload["noid"] for x in (a, b))
        log.append((name, _orig(a).payload["id"] if ok else None, _orig(b).payload["id"] if ok else None, prepared, rest, kw))
        if not ok:
            raise Undecided("comparison of something that is not an abstract circuit")
        return EQ()(_orig(a).payload["id"], _orig(b).payload["id"])

    return Contract(qual, spec=spec)


class RemoveRedundantTask:
    def __init__(self, n, label=None, wrong=None):
        self.n, self.wrong = n, wrong
        self.qual = RRC
        self.label = label or f"remove_redundant_circuits[len={n}]"
        self.contract = Contract(RRC, clause="sub-list in order starting with the first circuit; every dropped circuit was reported equal to an earlier "
                                              "kept one; kept ones pairwise reported different; comparisons on prepared copies; inputs untouched")

    def run(self):
        eng = Engine(10000)
        L = self.label
        m, node, _ = source.find(RRC)
        n = self.n

        def harness(path):
            log = []
            I = Interp(path, {ISO: _cmp_contract(ISO, log, "circuit_is_isomorphic")}, set(), make_hooks(path, log))
            I.task_name = RRC
            I.stack.append(Frame(m.name, {}, L))
            cs = [circ(k) for k in range(n)]
            arg = list(cs)
            try:
                ret = I.call_function(FuncRef(m.name, node, RRC, None), [arg], {}, force_body=True)
            except RaiseEx as e:
                eng.record(f"{L}:no-raise", "refuted", 0, f"raises {e.exc_name}: {e.msg}", None)
                return
            eng.record(f"{L}:no-raise", "discharged", 0, "", None)

            def ob(name, ok, detail=""):
                eng.record(f"{L}:post.{name}", "discharged" if ok else "refuted", 0, "" if ok else detail, None)
                return ok

            ob("input-list-untouched", len(arg) == n and all(a is b for a, b in zip(arg, cs)))
            ob("input-circuits-untouched", not [e for e in log if e[0] == "input-mutated"] and
               all(not c.payload["unwrapped"] and not c.payload["noid"] for c in cs), repr([e for e in log if e[0] == "input-mutated"]))
            if not ob("result-is-a-list-of-input-circuits", isinstance(ret, list) and all(any(r is c for c in cs) for r in ret), repr(ret)):
                return
            kept = [next(k for k, c in enumerate(cs) if r is c) for r in ret]
            ob("result-keeps-the-input-order-without-repetition", kept == sorted(set(kept)) and len(kept) == len(ret), repr(kept))
            ob("first-circuit-is-kept", n == 0 or (kept[:1] == [0]), repr(kept))
            cmps = [e for e in log if e[0] == "circuit_is_isomorphic"]
            ob("every-comparison-on-unwrapped-identity-free-copies", all(e[3] for e in cmps), repr([e for e in cmps if not e[3]]))
            for i in range(n):
                if i not in kept:
                    earlier = [k for k in kept if k < i]
                    if self.wrong == "args-swapped":
                        goal = z3.Or(*[EQ()(i, k) for k in earlier]) if earlier else z3.BoolVal(False)
                    else:
                        goal = z3.Or(*[EQ()(k, i) for k in earlier]) if earlier else z3.BoolVal(False)
                    path.oblige(f"{L}:post.every-dropped-circuit-was-reported-equal-to-an-earlier-kept-one", goal)
            for a, b in itertools.combinations(kept, 2):
                path.oblige(f"{L}:post.kept-circuits-are-pairwise-reported-different", z3.Not(EQ()(a, b)))
            if len(kept) < 2:
                path.oblige(f"{L}:post.kept-circuits-are-pairwise-reported-different", z3.BoolVal(True))
            if len(kept) == n:
                path.oblige(f"{L}:post.every-dropped-circuit-was-reported-equal-to-an-earlier-kept-one", z3.BoolVal(True))

        try:
            explore(eng, harness)
        except Undecided as u:
            eng.record(f"{L}:supported-subset", "undecided", 0, f"{u}", None)
        for r in eng.results.values():
            r.witness, r.replayed = None, False
        return eng


class CheckRedundantTask:
    def __init__(self):
        self.qual = CRC
        self.label = "check_redundant_circuit[dispatch]"
        self.contract = Contract(CRC, clause="= compare_circuits(copy of circuit1, copy of circuit2) with the default method, both copies unwrapped and "
                                              "identity-free, arguments in this order; the caller's circuits are untouched")

    def run(self):
        eng = Engine(10000)
        L = self.label
        m, node, _ = source.find(CRC)

        def harness(path):
            log = []
            I = Interp(path, {CC: _cmp_contract(CC, log, "compare_circuits")}, set(), make_hooks(path, log))
            I.task_name = CRC
            I.stack.append(Frame(m.name, {}, L))
            c1, c2 = circ(1), circ(2)
            try:
                ret = I.call_function(FuncRef(m.name, node, CRC, None), [c1, c2], {}, force_body=True)
            except RaiseEx as e:
                eng.record(f"{L}:no-raise", "refuted", 0, f"raises {e.exc_name}: {e.msg}", None)
                return
            eng.record(f"{L}:no-raise", "discharged", 0, "", None)
            cmps = [e for e in log if e[0] == "compare_circuits"]
            ok = len(cmps) == 1 and cmps[0][1:4] == (1, 2, True) and tuple(cmps[0][4]) in ((), ("direct",)) and not cmps[0][5]
            eng.record(f"{L}:post.one-default-method-comparison-of-(copy1, copy2)-on-prepared-copies", "discharged" if ok else "refuted", 0,
                       "" if ok else repr(cmps), None)
            eng.record(f"{L}:post.input-circuits-untouched", "discharged" if not [e for e in log if e[0] == "input-mutated"] else "refuted", 0, "", None)
            path.oblige(f"{L}:post.returns-the-comparison-verdict", ret == EQ()(1, 2) if z3.is_expr(ret) else z3.BoolVal(False))

        try:
            explore(eng, harness)
        except Undecided as u:
            eng.record(f"{L}:supported-subset", "undecided", 0, f"{u}", None)
        for r in eng.results.values():
            r.witness, r.replayed = None, False
        return eng


class StorageTask:
    def __init__(self, k, disabled, label=None, wrong=None):
        self.k, self.disabled, self.wrong = k, disabled, wrong
        self.qual = ADD
        self.label = label or f"CircuitStorage.add_new_circuit[stored={k},disable_circuit_comparison={disabled}]"
        self.contract = Contract(ADD, clause="appends the new circuit and returns True iff comparison is disabled or no stored circuit c has "
                                              "check(c, new); otherwise list unchanged and False; stored circuits keep their places")

    def run(self):
        eng = Engine(10000)
        L = self.label
        m, node, cls = source.find(ADD)
        k = self.k

        def harness(path):
            log = []

            def check(i, a, b):
                log.append(("check", a.payload["id"], b.payload["id"]))
                return EQ()(a.payload["id"], b.payload["id"])

            I = Interp(path, {}, {ISR}, make_hooks(path, log))
            I.task_name = ADD
            I.stack.append(Frame(m.name, {}, L))
            st = Obj(I.get_class(m.name, "CircuitStorage"))
            stored = [circ(j) for j in range(k)]
            lst = list(stored)
            st.fields.update(circuit_list=lst, disable_circuit_comparison=self.disabled, _check_func=Builtin("check", check))
            new = circ(99)
            f = FuncRef(m.name, node, ADD, I.get_class(m.name, cls.name))
            try:
                ret = I.call_function(f, [st, new], {}, force_body=True)
            except RaiseEx as e:
                eng.record(f"{L}:no-raise", "refuted", 0, f"raises {e.exc_name}: {e.msg}", None)
                return
            eng.record(f"{L}:no-raise", "discharged", 0, "", None)
            same_list = st.fields["circuit_list"] is lst
            prefix_ok = len(lst) >= k and all(a is b for a, b in zip(lst, stored))
            eng.record(f"{L}:post.stored-circuits-keep-their-places", "discharged" if same_list and prefix_ok else "refuted", 0, "", None)
            if self.wrong == "new-first":
                red = z3.Or(*[EQ()(99, j) for j in range(k)]) if k else z3.BoolVal(False)
            else:
                red = z3.Or(*[EQ()(j, 99) for j in range(k)]) if k else z3.BoolVal(False)
            want_add = z3.BoolVal(True) if self.disabled else z3.Not(red)
            added = len(lst) == k + 1 and lst[-1] is new
            unchanged = len(lst) == k
            eng.record(f"{L}:post.list-is-unchanged-or-extended-by-the-new-circuit", "discharged" if added or unchanged else "refuted", 0, "", None)
            eng.record(f"{L}:post.returns-a-bool", "discharged" if isinstance(ret, bool) else "refuted", 0, repr(ret), None)
            path.oblige(f"{L}:post.appended-iff-disabled-or-no-stored-circuit-is-reported-equal-to-the-new-one", z3.BoolVal(added) == want_add)
            path.oblige(f"{L}:post.returns-True-iff-appended", z3.BoolVal(ret is True) == z3.BoolVal(added))
            if self.disabled:
                eng.record(f"{L}:post.no-comparison-when-disabled", "discharged" if not log else "refuted", 0, "", None)

        try:
            explore(eng, harness)
        except Undecided as u:
            eng.record(f"{L}:supported-subset", "undecided", 0, f"{u}", None)
        for r in eng.results.values():
            r.witness, r.replayed = None, False
        return eng


# ------------------------------------------------------------------------------------------ dispatch of the comparison entry points
DIRECT = f"{CMP}:direct"
GED = f"{CMP}:ged"
GEDA = f"{CMP}:ged_adaptive"
ANNOT = f"{CMP}:add_control_target_to_dag"
CDAG = "graphiq.circuit.circuit_dag"
COMPARE = f"{CDAG}:CircuitDAG.compare"
METHODS = {"direct": ("direct", {}), "GED_full": ("ged", {"full": True}), "GED_approximate": ("ged", {"full": False}),
           "GED_adaptive": ("ged_adaptive", {}), "is_isomorphic": ("circuit_is_isomorphic", {})}


class DispatchTask:
    """compare_circuits(c1, c2, method) [F over the five documented method strings + an unknown one]: exactly one call of the documented
    comparison function with (c1, c2) IN THIS ORDER (and the documented `full` flag), its verdict is returned unchanged; an unknown
    method raises ValueError.  CircuitDAG.compare(self, other, method) = compare_circuits(self, other, method=method)."""

    def __init__(self, method, via_dag=False, label=None, wrong=None):
        self.method, self.via_dag, self.wrong = method, via_dag, wrong
        self.qual = COMPARE if via_dag else CC
        self.label = label or f"{'CircuitDAG.compare' if via_dag else 'compare_circuits'}[method={method}]"
        self.contract = Contract(self.qual, clause="dispatches to the documented comparison function with (circuit1, circuit2) in this order and "
                                                    "returns its verdict; unknown method: ValueError")

    def run(self):
        eng = Engine(10000)
        L = self.label
        m, node, cls = source.find(self.qual)

        def harness(path):
            log = []

            def rec(name):
                def spec(I, a, b, *rest, **kw):
                    v = path.fresh("verdict", "bool")
                    log.append((name, a, b, rest, kw, v))
                    return v
                return spec

            contracts = {DIRECT: Contract(DIRECT, spec=rec("direct")), GED: Contract(GED, spec=rec("ged")), GEDA: Contract(GEDA, spec=rec("ged_adaptive")),
                         ISO: Contract(ISO, spec=rec("circuit_is_isomorphic"))}
            if self.via_dag:
                contracts[CC] = Contract(CC, spec=rec("compare_circuits"))
            I = Interp(path, contracts, set(), make_hooks(path, log))
            I.task_name = self.qual
            I.stack.append(Frame(m.name, {}, L))
            c1, c2 = circ(1), circ(2)
            raised = None
            try:
                if self.via_dag:
                    f = FuncRef(m.name, node, self.qual, I.get_class(m.name, cls.name))
                    ret = I.call_function(f, [c1, c2], {"method": self.method}, force_body=True)
                else:
                    ret = I.call_function(FuncRef(m.name, node, self.qual, None), [c1, c2, self.method], {}, force_body=True)
            except RaiseEx as e:
                raised = e
            calls = [e for e in log if e[0] != "input-mutated"]
            if self.via_dag:
                ok = raised is None and len(calls) == 1 and calls[0][0] == "compare_circuits" and calls[0][1] is c1 and calls[0][2] is c2 \
                    and tuple(calls[0][3]) == (self.method,) and ret is calls[0][5]
                eng.record(f"{L}:post.is-compare_circuits(self, circuit, method)", "discharged" if ok else "refuted", 0, "" if ok else repr(calls), None)
                return
            if self.method not in METHODS:
                ok = raised is not None and raised.exc_name == "ValueError" and not calls
                eng.record(f"{L}:post.unknown-method-raises-ValueError-without-comparing", "discharged" if ok else "refuted", 0, "", None)
                return
            want, kw = METHODS[self.method]
            first, second = (c1, c2) if self.wrong != "swapped" else (c2, c1)
            ok = raised is None and len(calls) == 1 and calls[0][0] == want and calls[0][1] is first and calls[0][2] is second
            if ok and kw:
                bound = dict(zip(["full"], calls[0][3]))
                bound.update(calls[0][4])
                ok = bound == kw
            eng.record(f"{L}:post.one-call-of-the-documented-function-with-(circuit1, circuit2)", "discharged" if ok else "refuted", 0,
                       "" if ok else repr([(e[0], e[1], e[2], e[3], e[4]) for e in calls]) + (f" raised {raised.exc_name}" if raised else ""), None)
            if ok:
                eng.record(f"{L}:post.returns-its-verdict", "discharged" if ret is calls[0][5] else "refuted", 0, "", None)
            eng.record(f"{L}:post.input-circuits-untouched", "discharged" if not [e for e in log if e[0] == "input-mutated"] else "refuted", 0, "", None)

        try:
            explore(eng, harness)
        except Undecided as u:
            eng.record(f"{L}:supported-subset", "undecided", 0, f"{u}", None)
        for r in eng.results.values():
            r.witness, r.replayed = None, False
        return eng


class DirectPrefixTask:
    """direct(c1, c2), everything AROUND the wire walk (the walk itself: contracts/cmp_walk.py), on abstract circuits without wires
    (node_dict['Input'] empty, so the walk has nothing to do): only COPIES are rewritten (unwrap_nodes + remove_identity on both), the
    registers / node counts / node_dict are read from the prepared copies, and the verdict is True only if the copies' registers are
    equal and their DAGs have the same number of nodes; otherwise False."""

    def __init__(self, label=None, wrong=None):
        self.qual = DIRECT
        self.wrong = wrong
        self.label = label or "direct[prefix - copies, registers, node counts]"
        self.contract = Contract(DIRECT, clause="works on unwrapped, identity-free copies (caller's circuits untouched); True only if registers and "
                                                "node counts of the copies agree (then the wire walk decides), else False")

    def run(self):
        eng = Engine(10000)
        L = self.label
        m, node, _ = source.find(DIRECT)

        def harness(path):
            log = []
            hooks = make_hooks(path, log)
            g0 = hooks["getattr"]
            REG = z3.Function("REGISTERS_EQUAL", z3.IntSort(), z3.IntSort(), z3.BoolSort())
            NODES = z3.Function("NUMBER_OF_NODES", z3.IntSort(), z3.IntSort())

            def prepared(c):
                return c.payload["of"] is not None and c.payload["unwrapped"] and c.payload["noid"]

            def getattr_(interp, obj, attr):
                if isinstance(obj, Opaque) and obj.tag == "circuit" and attr in ("register", "dag", "node_dict"):
                    log.append(("read", attr, obj.payload["id"], prepared(obj)))
                    if attr == "register":
                        return Opaque("register-of", obj)
                    if attr == "dag":
                        return Opaque("dag-of", obj)
                    return {"Input": [], "Output": []}
                if isinstance(obj, Opaque) and obj.tag == "dag-of" and attr == "number_of_nodes":
                    return Builtin("number_of_nodes", lambda i: NODES(obj.payload.payload["id"]))
                return g0(interp, obj, attr)

            def compare(interp, op, a, b):
                import ast as _ast

                if isinstance(a, Opaque) and isinstance(b, Opaque) and a.tag == b.tag == "register-of" and isinstance(op, (_ast.Eq, _ast.NotEq)):
                    e = REG(a.payload.payload["id"], b.payload.payload["id"])
                    return e if isinstance(op, _ast.Eq) else z3.Not(e)
                return NotImplemented

            hooks["getattr"] = getattr_
            hooks["compare"] = compare
            I = Interp(path, {}, set(), hooks)
            I.task_name = DIRECT
            I.stack.append(Frame(m.name, {}, L))
            c1, c2 = circ(1), circ(2)
            try:
                ret = I.call_function(FuncRef(m.name, node, DIRECT, None), [c1, c2], {}, force_body=True)
            except RaiseEx as e:
                eng.record(f"{L}:no-raise", "refuted", 0, f"raises {e.exc_name}: {e.msg}", None)
                return
            eng.record(f"{L}:no-raise", "discharged", 0, "", None)
            eng.record(f"{L}:post.input-circuits-untouched", "discharged" if not [e for e in log if e[0] == "input-mutated"] and
                       not any(c.payload["unwrapped"] or c.payload["noid"] for c in (c1, c2)) else "refuted", 0, "", None)
            reads = [e for e in log if e[0] == "read"]
            ok = bool(reads) and all(e[3] for e in reads) and {e[2] for e in reads} == {1, 2}
            eng.record(f"{L}:post.registers-and-dags-are-read-from-unwrapped-identity-free-copies-of-both", "discharged" if ok else "refuted", 0,
                       "" if ok else repr(reads), None)
            agree = z3.And(REG(1, 2), NODES(1) == NODES(2))
            if self.wrong == "ignores-node-count":
                agree = REG(1, 2)
            eng.record(f"{L}:post.returns-a-bool", "discharged" if isinstance(ret, bool) else "refuted", 0, repr(ret), None)
            if isinstance(ret, bool):
                path.oblige(f"{L}:post.True-iff-registers-and-node-counts-agree-(no-wires)", z3.BoolVal(ret) == agree)

        try:
            explore(eng, harness)
        except Undecided as u:
            eng.record(f"{L}:supported-subset", "undecided", 0, f"{u}", None)
        for r in eng.results.values():
            r.witness, r.replayed = None, False
        return eng


class IsoDispatchTask:
    """circuit_is_isomorphic(c1, c2): add_control_target_to_dag(c1) and add_control_target_to_dag(c2) - each exactly once, BEFORE the match -
    then the verdict of networkx's is_isomorphic(c1.dag, c2.dag, node_match=<its node_match>, edge_match=<its edge_match>) is returned."""

    def __init__(self):
        self.qual = ISO
        self.label = "circuit_is_isomorphic[dispatch]"
        self.contract = Contract(ISO, clause="annotates BOTH circuits, then returns nx is_isomorphic(circuit1.dag, circuit2.dag) with its own "
                                             "node_match and edge_match callbacks")

    def run(self):
        eng = Engine(10000)
        L = self.label
        m, node, _ = source.find(ISO)

        def harness(path):
            log = []

            def ann(I, c):
                log.append(("annotate", c))

            def nx_iso(i, g1, g2, node_match=None, edge_match=None, **kw):
                v = path.fresh("verdict", "bool")
                log.append(("is_isomorphic", g1, g2, node_match, edge_match, kw, v))
                return v

            hooks = make_hooks(path, log)
            g0 = hooks["getattr"]

            def getattr_(interp, obj, attr):
                if isinstance(obj, Opaque) and obj.tag == "circuit" and attr == "dag":
                    return Opaque("dag-of", obj)
                return g0(interp, obj, attr)

            def external(interp, name, attr):
                if attr == "is_isomorphic":
                    return Builtin("is_isomorphic", nx_iso)
                return NotImplemented

            hooks["getattr"] = getattr_
            hooks["external"] = external
            I = Interp(path, {ANNOT: Contract(ANNOT, spec=ann)}, set(), hooks)
            I.task_name = ISO
            I.stack.append(Frame(m.name, {}, L))
            c1, c2 = circ(1), circ(2)
            try:
                ret = I.call_function(FuncRef(m.name, node, ISO, None), [c1, c2], {}, force_body=True)
            except RaiseEx as e:
                eng.record(f"{L}:no-raise", "refuted", 0, f"raises {e.exc_name}: {e.msg}", None)
                return
            eng.record(f"{L}:no-raise", "discharged", 0, "", None)
            names = [e[0] for e in log]
            anns = [e[1] for e in log if e[0] == "annotate"]
            ok = names[-1:] == ["is_isomorphic"] and names.count("is_isomorphic") == 1 and len(anns) == 2 and anns[0] is c1 and anns[1] is c2
            eng.record(f"{L}:post.both-circuits-annotated-once-before-the-match", "discharged" if ok else "refuted", 0, "" if ok else repr(names), None)
            if names.count("is_isomorphic") == 1:
                e = [x for x in log if x[0] == "is_isomorphic"][0]
                from pyvc.values import Closure

                good = (isinstance(e[1], Opaque) and e[1].payload is c1 and isinstance(e[2], Opaque) and e[2].payload is c2 and
                        isinstance(e[3], Closure) and e[3].node.name == "node_match" and isinstance(e[4], Closure) and e[4].node.name == "edge_match"
                        and not e[5])
                eng.record(f"{L}:post.match-of-(circuit1.dag, circuit2.dag)-with-node_match-and-edge_match", "discharged" if good else "refuted", 0, "", None)
                eng.record(f"{L}:post.returns-the-matcher's-verdict", "discharged" if ret is e[6] else "refuted", 0, "", None)

        try:
            explore(eng, harness)
        except Undecided as u:
            eng.record(f"{L}:supported-subset", "undecided", 0, f"{u}", None)
        for r in eng.results.values():
            r.witness, r.replayed = None, False
        return eng


def tasks():
    return ([DispatchTask(mth) for mth in list(METHODS) + ["no-such-method"]] + [DispatchTask("is_isomorphic", via_dag=True), IsoDispatchTask(), DirectPrefixTask()] +
            [RemoveRedundantTask(n) for n in (0, 1, 2, 3, 4)] + [CheckRedundantTask()] +
            [StorageTask(k, dis) for k in (0, 1, 2, 3) for dis in (False, True)])


def canary_tasks():
    return [RemoveRedundantTask(3, label="canary.remove_redundant_circuits.comparison-arguments-swapped", wrong="args-swapped"),
            StorageTask(2, False, label="canary.CircuitStorage.add_new_circuit.new-circuit-first", wrong="new-first"),
            DispatchTask("direct", label="canary.compare_circuits.arguments-swapped", wrong="swapped"),
            DirectPrefixTask(label="canary.direct.prefix.node-count-ignored", wrong="ignores-node-count")]
