"""Shared builders for symbolic inputs and small spec helpers used by the sidecar contracts."""
from __future__ import annotations

import z3

from pyvc.values import NDArr, Store, Obj, new_array, as_int_term, to_z3, is_sym, concrete_int

LINALG = "graphiq.backends.stabilizer.functions.linalg"
TRANS = "graphiq.backends.stabilizer.functions.transformation"
CLIFF = "graphiq.backends.stabilizer.functions.clifford"
TAB = "graphiq.backends.stabilizer.tableau"
CTAB = "graphiq.backends.stabilizer.clifford_tableau"
STABF = "graphiq.backends.stabilizer.functions.stabilizer"
HEIGHT = "graphiq.backends.stabilizer.functions.height"

# accessors of the tableau classes that are inlined from the real source (listed in the evidence)
TABLEAU_ACCESSORS = {
    f"{TAB}:TableauBase.table", f"{TAB}:TableauBase.table.setter", f"{TAB}:TableauBase.phase",
    f"{TAB}:TableauBase.phase.setter",
    f"{TAB}:StabilizerTableau.x_matrix", f"{TAB}:StabilizerTableau.x_matrix.setter",
    f"{TAB}:StabilizerTableau.z_matrix", f"{TAB}:StabilizerTableau.z_matrix.setter",
    f"{CTAB}:CliffordTableau.table_x", f"{CTAB}:CliffordTableau.table_x.setter",
    f"{CTAB}:CliffordTableau.table_z", f"{CTAB}:CliffordTableau.table_z.setter",
    f"{CTAB}:CliffordTableau.destabilizer", f"{CTAB}:CliffordTableau.destabilizer.setter",
    f"{CTAB}:CliffordTableau.destabilizer_x", f"{CTAB}:CliffordTableau.destabilizer_x.setter",
    f"{CTAB}:CliffordTableau.destabilizer_z", f"{CTAB}:CliffordTableau.destabilizer_z.setter",
    f"{CTAB}:CliffordTableau.stabilizer", f"{CTAB}:CliffordTableau.stabilizer_x", f"{CTAB}:CliffordTableau.stabilizer_x.setter",
    f"{CTAB}:CliffordTableau.stabilizer_z", f"{CTAB}:CliffordTableau.stabilizer_z.setter",
    f"{CTAB}:CliffordTableau.iphase", f"{CTAB}:CliffordTableau.iphase.setter",
    f"{CTAB}:CliffordTableau.expand", f"{CTAB}:CliffordTableau.shrink", f"{CTAB}:CliffordTableau._reset",
    f"{TAB}:StabilizerTableau.expand", f"{TAB}:StabilizerTableau.shrink", f"{TAB}:StabilizerTableau._reset",
}


def bit_matrix(I, name, rows, cols):
    """a fresh matrix whose entries are bits *by construction* (If(B(i,j),1,0)): the `Bits` precondition needs no quantifier"""
    B = z3.Function(name, z3.IntSort(), z3.IntSort(), z3.BoolSort())
    return new_array((rows, cols), lambda i, j: z3.If(B(i, j), z3.IntVal(1), z3.IntVal(0)), name)


def bit_vector(I, name, n):
    B = z3.Function(name, z3.IntSort(), z3.BoolSort())
    return new_array((n,), lambda i: z3.If(B(i), z3.IntVal(1), z3.IntVal(0)), name)


def int_matrix(I, name, rows, cols):
    F = z3.Function(name, z3.IntSort(), z3.IntSort(), z3.IntSort())
    return new_array((rows, cols), lambda i, j: F(i, j), name)


def int_vector(I, name, n):
    F = z3.Function(name, z3.IntSort(), z3.IntSort())
    return new_array((n,), lambda i: F(i), name)


def sym_nat(I, name, lo=0):
    v = z3.Int(name)
    I.path.assume(v >= lo)
    return v


def mk_clifford(I, tag="T", n=None):
    n = sym_nat(I, f"n_{tag}", 1) if n is None else n
    cls = I.get_class(CTAB, "CliffordTableau")
    o = Obj(cls)
    o.fields["_table"] = bit_matrix(I, f"{tag}_tab", 2 * n, 2 * n)
    o.fields["_phase"] = bit_vector(I, f"{tag}_r", 2 * n)
    o.fields["_iphase"] = bit_vector(I, f"{tag}_i", 2 * n)
    o.fields["n_qubits"] = n
    o.fields["shape"] = (2 * n, 2 * n)
    return o


def mk_stabilizer(I, tag="S", n=None):
    n = sym_nat(I, f"n_{tag}", 1) if n is None else n
    cls = I.get_class(TAB, "StabilizerTableau")
    o = Obj(cls)
    o.fields["_table"] = bit_matrix(I, f"{tag}_tab", n, 2 * n)
    o.fields["_phase"] = bit_vector(I, f"{tag}_r", n)
    o.fields["n_qubits"] = n
    o.fields["shape"] = (n, 2 * n)
    return o


def idx_in(i, n):
    return z3.And(to_z3(i) >= 0, to_z3(i) < to_z3(n))


def xor(a, b):
    return (as_int_term(a) + as_int_term(b)) % 2


def write_full(arr: NDArr, fn):
    """arr[...] = fn(*local_idx) over the whole view (fn must be built from snapshot readers)"""
    arr.assign_from(fn)


def rebind_field(obj, field, shape, fn, label=None):
    obj.fields[field] = new_array(shape, fn, label or field)
    return obj.fields[field]
