"""Sidecar contracts for the graph -> stabilizer conversions and the conversion dispatch (C08, deductive part).

  rep_conversion.get_stabilizer_tableau_from_graph(G)      [P]  fresh StabilizerTableau with X = I, Z = adjacency(G), signs 0
  state_rep_conversion._graph_to_stabilizer_pure(G | adj)  [P]  the same tableau, through the REAL constructor
                                                                StabilizerTableau([I, adj]) (interpreted from source)
  state_rep_conversion.graph_to_stabilizer                 [P]  [(1.0, tableau)] / one (p_i, tableau_i) per list entry
  state_rep_conversion.stabilizer_to_density               [P, trace]  every accepted input form returns the matrix built by
                                                                _stabilizer_to_density_pure (mixture: sum_i p_i rho_i); other
                                                                inputs raise ValueError
  state.QuantumState.convert_representation                [F over the 9 ordered pairs, mixed=False, trace]  the dispatch
                                                                table calls the right converter with the right payload,
                                                                wraps the result in the right representation class and sets
                                                                `_rep_type`; the payload types each callee ACCEPTS are
                                                                preconditions of its recorder contract (read off the
                                                                callee's own isinstance dispatch).
X = I, Z = adjacency, signs + is the definition of the graph state's stabilizer generators K_i = X_i prod_{j~i} Z_j
(property statement; the link "these n commuting independent generators determine |G>" is [T-stab]).

[A] networkx conversions (contracts/nxmodel.py); np.sqrt on a perfect square n*n (below).
Not here (see props/C08.py): _graph_to_density_pure / _stabilizer_to_density_pure (dense 2^n matrices, [B-only]),
density_to_graph (negativity via eigh, [N]), _graph_finder / state_to_graph (float GF(2) inverse, [N] + certificate, [B]).
"""
from __future__ import annotations

import z3

from pyvc import models
from pyvc.contract import Contract, Task
from pyvc.trace import recorder, TraceTask, Token, same
from pyvc.values import NDArr, Obj, Opaque, new_array, as_int_term, to_z3, concrete_int, is_sym
from pyvc import schema as S
from . import nxmodel as NX
from .common import TAB, CTAB, TABLEAU_ACCESSORS, mk_clifford, mk_stabilizer

RC = "graphiq.backends.stabilizer.functions.rep_conversion"
SRC = "graphiq.backends.state_rep_conversion"
STATE = "graphiq.state"
GSTATE = "graphiq.backends.graph.state"
SSTATE = "graphiq.backends.stabilizer.state"
DSTATE = "graphiq.backends.density_matrix.state"
SBASE = "graphiq.backends.state_base"

C = {}


def contract(qual, **kw):
    def deco(spec):
        C[qual] = Contract(qual, spec=spec, **kw)
        return spec

    return deco


# ------------------------------------------------------------------------------------------ np.sqrt [A]
def _np_sqrt(interp, x):
    """[A] np.sqrt: concrete -> math.sqrt; the symbolic perfect square t*t (t >= 0: obligation) -> t, exactly (IEEE sqrt is
    correctly rounded, so sqrt(float(t*t)) == t for t*t < 2**53); anything else -> a fresh real s >= 0 with s*s == x"""
    import math

    if not is_sym(x):
        return math.sqrt(x)
    if z3.is_mul(x) and x.num_args() == 2 and x.arg(0).eq(x.arg(1)):
        models.used("np.sqrt(t*t) = t for t >= 0 (exact)")
        t = x.arg(0)
        nm = interp.ob_name("sqrt.nonneg")
        interp.path.oblige(nm, t >= 0)
        interp.path.assume(t >= 0)
        return t
    models.used("np.sqrt(x) = real s >= 0 with s*s = x")
    s = interp.path.fresh("sqrt", "real")
    interp.path.assume(z3.And(s >= 0, s * s == z3.ToReal(x) if z3.is_int(x) else s * s == x))
    return s


models.NUMPY.setdefault("sqrt", _np_sqrt)


# ------------------------------------------------------------------------------------------ graph -> StabilizerTableau
GST = f"{RC}:get_stabilizer_tableau_from_graph"
G2SP = f"{SRC}:_graph_to_stabilizer_pure"
G2S = f"{SRC}:graph_to_stabilizer"


def graph_tableau(I, n, adj):
    """the stabilizer tableau of the graph state: row i = X_i prod_j Z_j^{adj[i,j]}, sign +"""
    o = Obj(I.get_class(TAB, "StabilizerTableau"))
    n_ = to_z3(n)
    o.fields["_table"] = new_array((n, 2 * n_), lambda i, j: z3.If(j < n_, z3.If(i == j, z3.IntVal(1), z3.IntVal(0)), as_int_term(adj(i, j - n_))), "table")
    o.fields["n_qubits"] = n
    o.fields["_phase"] = new_array((n,), lambda i: z3.IntVal(0), "phase")
    o.fields["shape"] = (n, 2 * n_)
    return o


def _adj_of(I, g):
    """(n, adjacency closure) of an abstract graph or of a square array"""
    if NX.is_graph(g):
        return g.payload["n"], g.payload["adj"]
    rd = g.reader()
    return g.shape[0], rd


def _graph_arg_ok(I, g):
    if NX.is_graph(g):
        return True
    if isinstance(g, NDArr) and g.ndim == 2:
        return to_z3(g.shape[0]) == to_z3(g.shape[1])
    return False


@contract(GST, requires=lambda I, graph: NX.is_graph(graph),
          clause="graph -> stabilizer tableau: X = I, Z = adjacency, signs 0 (the generators K_i of the graph state); fresh object")
def _gst(I, graph):
    n, adj = _adj_of(I, graph)
    return graph_tableau(I, n, adj)


@contract(G2SP, requires=_graph_arg_ok,
          clause="graph or adjacency matrix -> StabilizerTableau([I, adjacency]): X = I, Z = adjacency, signs 0; the input is not written")
def _g2sp(I, input_graph):
    n, adj = _adj_of(I, input_graph)
    return graph_tableau(I, n, adj)


def _g2s_requires(I, input_graph):
    if isinstance(input_graph, list):
        return z3.And(*[to_z3(_graph_arg_ok(I, g)) if not isinstance(_graph_arg_ok(I, g), bool) else z3.BoolVal(_graph_arg_ok(I, g))
                        for (_p, g) in input_graph]) if input_graph else True
    return _graph_arg_ok(I, input_graph)


@contract(G2S, requires=_g2s_requires,
          clause="graph_to_stabilizer: [(1.0, tableau(G))] for a single graph, [(p_i, tableau(G_i))] in order for a mixture")
def _g2s(I, input_graph):
    if isinstance(input_graph, list):
        return [(p, _g2sp(I, g)) for (p, g) in input_graph]
    return [(1.0, _g2sp(I, input_graph))]


INLINE_TAB = set(TABLEAU_ACCESSORS) | {f"{TAB}:StabilizerTableau.__init__"}


def graph_tasks():
    n = z3.Int("n")
    T = []
    hooks = dict(NX.HOOKS)
    T.append(Task(GST, C[GST], [S.Assume(n >= 1), NX.SimpleGraph("G", n)], C, inline=INLINE_TAB, hooks=hooks))
    T.append(Task(G2SP, C[G2SP], [S.Assume(n >= 1), NX.SimpleGraph("G", n)], C, inline=INLINE_TAB, hooks=hooks,
                  label="_graph_to_stabilizer_pure[nx.Graph]"))
    T.append(Task(G2SP, C[G2SP], [S.Assume(n >= 1), NX.SimpleAdj("A", n)], C, inline=INLINE_TAB, hooks=hooks,
                  label="_graph_to_stabilizer_pure[ndarray]"))
    T.append(Task(G2S, C[G2S], [S.Assume(n >= 1), NX.SimpleGraph("G", n)], C, inline=INLINE_TAB, hooks=hooks,
                  label="graph_to_stabilizer[single]"))
    m = z3.Int("m")
    T.append(Task(G2S, C[G2S], [S.Assume(z3.And(n >= 1, m >= 1)),
                                MixList([("p0", NX.SimpleGraph("G0", n)), ("p1", NX.SimpleAdj("A1", m))])], C,
                  inline=INLINE_TAB, hooks=hooks, label="graph_to_stabilizer[mixture of 2]"))
    return T


class MixList(S.Item):
    """a Python list [(p_k, item_k)] with real-valued symbolic weights (a mixed-state representation of fixed length)"""

    name = "mixture"

    def __init__(self, parts):
        self.parts = parts

    def symbolic(self, I):
        return [(z3.Real(p), it.symbolic(I)) for p, it in self.parts]

    def concrete(self, model, env):
        return [(S._ev(model, z3.Real(p)), it.concrete(model, env)) for p, it in self.parts]

    def random(self, rng, env):
        return [(float(rng.integers(0, 5)) / 4, it.random(rng, env)) for p, it in self.parts]

    def real(self, conc):
        return [(float(p), it.real(c)) for (p, c), (_n, it) in zip(conc, self.parts)]

    def const(self, I, conc):
        return [(float(p), it.const(I, c)) for (p, c), (_n, it) in zip(conc, self.parts)]

    def jsonable(self, conc):
        return [[float(p), it.jsonable(c)] for (p, c), (_n, it) in zip(conc, self.parts)]


# ------------------------------------------------------------------------------------------ stabilizer_to_density (trace)
S2D = f"{SRC}:stabilizer_to_density"
S2DP = f"{SRC}:_stabilizer_to_density_pure"
SFU = "graphiq.backends.stabilizer.functions.utils"


def token_binop(interp, op, a, b):
    """hook `binop`: arithmetic on abstract matrices (Tokens) stays symbolic: p * rho -> scale(p, rho), x + rho -> add(x, rho)"""
    import ast

    if not (isinstance(a, Token) or isinstance(b, Token)):
        return NotImplemented
    if isinstance(op, ast.Mult):
        return Token("scale", a, b)
    if isinstance(op, ast.Add):
        return Token("add", a, b)
    return NotImplemented


def _is_stab(v):
    return isinstance(v, Obj) and v.cls.name == "StabilizerTableau"


def _is_cliff(v):
    return isinstance(v, Obj) and v.cls.name == "CliffordTableau"


def s2d_contracts():
    D = {}
    D[S2DP] = recorder(S2DP, "pure", result=lambda I, t: Token("rho", t), requires=lambda I, t: _is_stab(t),
                       clause="recorded: density matrix of one StabilizerTableau")

    def s2s_result(I, labels):
        r, n = len(labels), len(labels[0])
        from .common import bit_matrix

        return (bit_matrix(I, "Xs", r, n), bit_matrix(I, "Zs", r, n))

    q = f"{SFU}:string_to_symplectic"
    D[q] = recorder(q, "string_to_symplectic", result=s2s_result)
    return D


def _same_tableau(I, label, got, want):
    from pyvc.contract import Equiv

    E = Equiv(I.path, label, {})
    E.same_identity = lambda *a, **k: None
    E.eq("payload", got, want)


def s2d_tasks():
    D = s2d_contracts()
    T = []
    hooks = {"binop": token_binop}
    clause = "stabilizer_to_density returns, for every accepted input form, the matrix built by _stabilizer_to_density_pure " \
             "(mixture: sum_i p_i rho_i); it never falls off the end"

    # (c) a single StabilizerTableau
    def spec_single(I, cur, t):
        return cur.expect("pure", t)

    T.append(TraceTask(S2D, lambda I: [mk_stabilizer(I, "S")], spec_single, D, inline=INLINE_TAB, hooks=hooks,
                       label="stabilizer_to_density[StabilizerTableau]", clause=clause))

    # (b) mixture of two
    def mk_mix(I):
        return [[(z3.Real("p0"), mk_stabilizer(I, "S0")), (z3.Real("p1"), mk_stabilizer(I, "S1"))]]

    def spec_mix(I, cur, lst):
        r0 = cur.expect("pure", lst[0][1])
        r1 = cur.expect("pure", lst[1][1])
        return Token("add", Token("add", 0, Token("scale", lst[0][0], r0)), Token("scale", lst[1][0], r1))

    T.append(TraceTask(S2D, mk_mix, spec_mix, D, inline=INLINE_TAB, hooks=hooks,
                       label="stabilizer_to_density[mixture of 2]", clause=clause))

    # (a) list of generator strings
    def spec_str(I, cur, lst):
        X, Z = cur.expect("string_to_symplectic", lst)
        if cur.pos >= len(cur.trace):
            return cur.expect("pure", None)
        got = cur.trace[cur.pos]["args"][0]
        rho = cur.expect("pure", got)
        n = X.shape[1]
        rx, rz = X.reader(), Z.reader()
        want = Obj(I.get_class(TAB, "StabilizerTableau"))
        want.fields["_table"] = new_array((X.shape[0], 2 * n), lambda i, j: rx(i, j) if isinstance(j, int) and j < n else
                                          z3.If(to_z3(j) < n, rx(i, j), rz(i, to_z3(j) - n)), "table")
        want.fields["n_qubits"] = n
        want.fields["_phase"] = new_array((n,), lambda i: z3.IntVal(0), "phase")
        want.fields["shape"] = (n, 2 * n)
        _same_tableau(I, cur.label + ":post.tableau-from-strings", got, want)
        return rho

    T.append(TraceTask(S2D, lambda I: [["XZ", "ZX"]], spec_str, D, inline=INLINE_TAB, hooks=hooks,
                       label="stabilizer_to_density[strings]", clause=clause))

    # (d) anything else must raise ValueError
    for lab, mk in [("CliffordTableau", lambda I: [mk_clifford(I, "T")]), ("int", lambda I: [3]),
                    ("list of int", lambda I: [[1, 2]])]:
        T.append(TraceTask(S2D, mk, lambda I, cur, x: None, D, inline=INLINE_TAB, hooks=hooks,
                           label=f"stabilizer_to_density[{lab} -> ValueError]", clause=clause, expect_raise=("ValueError",)))
    return T


# ------------------------------------------------------------------------------------------ QuantumState.convert_representation
CONV = f"{STATE}:QuantumState.convert_representation"
REP_CLASSES = {"DensityMatrix": DSTATE, "Graph": GSTATE, "MixedGraph": GSTATE, "Stabilizer": SSTATE, "MixedStabilizer": SSTATE}


def _is_rep(v, name):
    return isinstance(v, Obj) and v.cls.name == name


def _is_real(p):
    return isinstance(p, float) or (is_sym(p) and z3.is_real(p))


def _ctor_accepts(name, data):
    """payload types the REAL constructors accept (their own isinstance dispatch; anything else raises TypeError /
    AssertionError): the preconditions of the recorded constructor calls"""
    is_int = isinstance(data, int) and not isinstance(data, bool)
    if name == "DensityMatrix":  # abstract matrices (Tokens built from converter results) stand for ndarrays
        return isinstance(data, (NDArr, Token)) or is_int
    if name == "Graph":
        return NX.is_graph(data)
    if name == "MixedGraph":
        return _is_rep(data, "Graph") or (isinstance(data, list) and all(
            isinstance(e, tuple) and len(e) == 2 and _is_real(e[0]) and _is_rep(e[1], "Graph") for e in data))
    if name == "Stabilizer":
        return is_int or _is_cliff(data)
    if name == "MixedStabilizer":
        return is_int or _is_cliff(data) or (isinstance(data, list) and all(
            isinstance(e, tuple) and len(e) == 2 and _is_real(e[0]) and _is_cliff(e[1]) for e in data))
    if name == "CliffordTableau":
        return is_int or isinstance(data, NDArr) or _is_cliff(data) or _is_stab(data)
    return False


def rep_instantiate(I, cls, args, kwargs):
    """hook `instantiate`: constructor calls of the representation classes (and CliffordTableau) are recorded events with
    the constructor's accepted payload types as precondition; the object returned is an abstract instance of the real class"""
    if not (REP_CLASSES.get(cls.name) == cls.module or (cls.name == "CliffordTableau" and cls.module == CTAB)):
        return NotImplemented
    if len(args) != 1 or kwargs:
        from pyvc.interp import Undecided

        raise Undecided(f"{cls.name}(...) with other than one positional argument")
    data = args[0]
    ok = _ctor_accepts(cls.name, data)
    nm = I.ob_name(f"pre({cls.name})")
    I.path.oblige(nm, z3.BoolVal(bool(ok)))
    o = Obj(cls)
    if cls.name == "CliffordTableau":
        o.fields["__from__"] = data
    elif cls.name in ("MixedGraph", "MixedStabilizer"):
        o.fields["_mixture"] = data if isinstance(data, list) else [(1.0, data)]
    elif cls.name == "Stabilizer":
        o.fields["_data"] = data
        o.fields["_tableau"] = data
    else:
        o.fields["_data"] = data
    I.path.trace.append({"name": cls.name, "args": [data], "self": None, "ret": o})
    return o


def conv_contracts():
    """recorder contracts of the six converters in state_rep_conversion; `requires` = the input forms the callee accepts
    (its own dispatch), `result` = an abstract value of the documented result type"""
    D = {}

    def sym_adj(I, tag):
        m = I.path.fresh("nn")
        I.path.assume(m >= 1)
        return NX.mk_graph(m, NX.simple_adj(f"{tag}{I.path.counter.get('nn', 0)}"), tag)

    # the held density matrix is that of a graph state, hence pure: rc.density_to_graph / density_to_stabilizer take their
    # `dmf.is_pure` branch and return an adjacency ndarray / a one-element list (their documented result for pure input)
    def r_density_to_graph(I, rho, *a):
        m = I.path.fresh("nn")
        I.path.assume(m >= 1)
        return new_array((m, m), NX.simple_adj(f"d2g{I.path.counter.get('nn', 0)}"), "adjacency")

    def r_density_to_stabilizer(I, rho):
        return [(1.0, mk_stabilizer(I, "d2s"))]

    def r_stabilizer_to_graph(I, inp, *a):
        if isinstance(inp, list):
            return [(e[0], sym_adj(I, "s2g")) for e in inp]
        return [(1.0, sym_adj(I, "s2g"))]

    def r_graph_to_stabilizer(I, g):
        if isinstance(g, list):
            return [(e[0], mk_stabilizer(I, f"g2s{k}")) for k, e in enumerate(g)]
        return [(1.0, mk_stabilizer(I, "g2s"))]

    def stab_input(I, x, *a):  # stabilizer_to_graph / stabilizer_to_density: list or StabilizerTableau, else ValueError
        return isinstance(x, list) or _is_stab(x)

    def graph_input(I, x, *a):  # graph_to_density / graph_to_stabilizer: list, nx.Graph or ndarray, else TypeError
        return isinstance(x, list) or NX.is_graph(x) or isinstance(x, NDArr)

    def dm_input(I, x, *a):
        return isinstance(x, NDArr)

    for name, req, res in [
        ("density_to_graph", dm_input, r_density_to_graph),
        ("density_to_stabilizer", dm_input, r_density_to_stabilizer),
        ("stabilizer_to_density", stab_input, lambda I, x: Token("rho_of_stabilizer", x)),
        ("stabilizer_to_graph", stab_input, r_stabilizer_to_graph),
        ("graph_to_density", graph_input, lambda I, x: Token("rho_of_graph", x)),
        ("graph_to_stabilizer", graph_input, r_graph_to_stabilizer),
    ]:
        q = f"{SRC}:{name}"
        D[q] = recorder(q, name, result=res, requires=req, clause=f"recorded call rc.{name}; accepted input forms as precondition")
    return D


CONV_INLINE = set(TABLEAU_ACCESSORS) | {
    f"{TAB}:StabilizerTableau.__init__", f"{CTAB}:CliffordTableau.to_stabilizer",
    f"{STATE}:QuantumState._get_rep_type_name", f"{STATE}:QuantumState._identity_fun",
    f"{STATE}:QuantumState._density_to_graph", f"{STATE}:QuantumState._density_to_stabilizer",
    f"{STATE}:QuantumState._stabilizer_to_density", f"{STATE}:QuantumState._stabilizer_to_graph",
    f"{STATE}:QuantumState._graph_to_density", f"{STATE}:QuantumState._graph_to_stabilizer",
    f"{SBASE}:StateRepresentationBase.data", f"{SSTATE}:Stabilizer.data", f"{SSTATE}:Stabilizer.tableau",
    f"{SSTATE}:MixedStabilizer.mixture", f"{GSTATE}:MixedGraph.mixture", f"{GSTATE}:MixedGraph.data",
}
REPS = ("dm", "s", "g")
FULL = {"dm": "density matrix", "s": "stabilizer", "g": "graph"}


def _mk_state(I, src, mixed):
    qs = Obj(I.get_class(STATE, "QuantumState"))
    n = z3.Int("nq")
    I.path.assume(n >= 1)
    qs.fields["mixed"] = mixed
    qs.fields["_rep_type"] = src
    qs.fields["n_qubits"] = n
    if src == "dm":
        d = z3.Int("dim")
        I.path.assume(d >= 2)
        rep = Obj(I.get_class(DSTATE, "DensityMatrix"))
        rep.fields["_data"] = new_array((d, d), lambda i, j: z3.Function("rho", z3.IntSort(), z3.IntSort(), z3.IntSort())(i, j), "rho")
    elif src == "s":
        if mixed:
            rep = Obj(I.get_class(SSTATE, "MixedStabilizer"))
            rep.fields["_mixture"] = [(z3.Real("q0"), mk_clifford(I, "T0", n)), (z3.Real("q1"), mk_clifford(I, "T1", n))]
        else:
            rep = Obj(I.get_class(SSTATE, "Stabilizer"))
            t = mk_clifford(I, "T", n)
            rep.fields["_data"] = t
            rep.fields["_tableau"] = t
    else:
        def g(tag):
            o = Obj(I.get_class(GSTATE, "Graph"))
            o.fields["_data"] = NX.mk_graph(n, NX.simple_adj(tag), tag)
            return o
        if mixed:
            rep = Obj(I.get_class(GSTATE, "MixedGraph"))
            rep.fields["_mixture"] = [(z3.Real("q0"), g("G0")), (z3.Real("q1"), g("G1"))]
        else:
            rep = g("G")
    qs.fields["_rep_data"] = rep
    return qs, rep


def _stab_part(I, label, got, cliff):
    """`got` must be the StabilizerTableau holding the stabilizer half (rows n..2n-1) and its signs of `cliff`"""
    n = cliff.fields["n_qubits"]
    n_ = to_z3(n)
    rt, rp = cliff.fields["_table"].reader(), cliff.fields["_phase"].reader()
    want = Obj(I.get_class(TAB, "StabilizerTableau"))
    want.fields["_table"] = new_array((n, 2 * n_), lambda i, j: rt(to_z3(i) + n_, j), "table")
    want.fields["n_qubits"] = n
    want.fields["_phase"] = new_array((n,), lambda i: rp(to_z3(i) + n_), "phase")
    want.fields["shape"] = (n, 2 * n_)
    if not _is_stab(got):
        I.path.oblige(f"{label}.is-a-StabilizerTableau", z3.BoolVal(False))
        return
    _same_tableau(I, label, got, want)


def conv_spec(src, dst, mixed):
    """the conversion the property demands for (src -> dst): which converter, on which payload, wrapped in which class"""

    def peek(cur):
        return cur.trace[cur.pos]["args"][0] if cur.pos < len(cur.trace) else None

    def spec(I, cur, qs, new_rep_type):
        rep = spec.rep
        lab = cur.label
        if src == dst:
            new = rep
        elif (src, dst) == ("dm", "g"):
            out = cur.expect("density_to_graph", rep.fields["_data"], 0.1, True)
            got = peek(cur)  # must be the networkx graph whose adjacency matrix is the returned array
            if NX.is_graph(got) and isinstance(out, NDArr):
                i_, j_ = I.path.fresh("sk"), I.path.fresh("sk")
                n_ = to_z3(out.shape[0])
                I.path.oblige(f"{lab}:post.graph-has-the-returned-adjacency.n", to_z3(got.payload["n"]) == n_)
                I.path.oblige(f"{lab}:post.graph-has-the-returned-adjacency", as_int_term(got.payload["adj"](i_, j_)) == as_int_term(out.get(i_, j_)),
                              extra=[i_ >= 0, i_ < n_, j_ >= 0, j_ < n_])
            else:
                I.path.oblige(f"{lab}:post.graph-has-the-returned-adjacency", z3.BoolVal(False))
            new = cur.expect("Graph", got)
        elif (src, dst) == ("dm", "s"):
            out = cur.expect("density_to_stabilizer", rep.fields["_data"])
            if mixed:
                tabs = [(p, cur.expect("CliffordTableau", t)) for p, t in out]
                new = cur.expect("MixedStabilizer", tabs)
            else:
                new = cur.expect("Stabilizer", cur.expect("CliffordTableau", out[0][1]))
        elif (src, dst) in (("s", "dm"), ("s", "g")):
            conv = "stabilizer_to_density" if dst == "dm" else "stabilizer_to_graph"
            got = peek(cur)
            if mixed:
                mix = rep.fields["_mixture"]
                ok = isinstance(got, list) and len(got) == len(mix)
                I.path.oblige(f"{lab}:post.payload-is-the-mixture-of-stabilizer-parts.len", z3.BoolVal(bool(ok)))
                if ok:
                    for k, ((p, t), e) in enumerate(zip(mix, got)):
                        I.path.oblige(f"{lab}:post.payload[{k}].weight", z3.BoolVal(isinstance(e, tuple) and len(e) == 2) if not (isinstance(e, tuple) and len(e) == 2)
                                      else to_z3(same(e[0], p)) if not isinstance(same(e[0], p), bool) else z3.BoolVal(same(e[0], p)))
                        if isinstance(e, tuple) and len(e) == 2:
                            _stab_part(I, f"{lab}:post.payload[{k}]", e[1], t)
            else:
                _stab_part(I, f"{lab}:post.payload-is-the-stabilizer-part", got, rep.fields["_tableau"])
            out = cur.expect(conv, got, *([True] if dst == "g" else []))
            if dst == "dm":
                new = cur.expect("DensityMatrix", out)
            elif mixed:
                # the property needs a MixedGraph over Graph objects built from the returned networkx graphs
                graphs = [(p, cur.expect("Graph", g)) for p, g in out]
                new = cur.expect("MixedGraph", graphs)
            else:
                new = cur.expect("Graph", out[0][1])
        elif (src, dst) == ("g", "dm"):
            if mixed:
                acc = 0
                for p, g in rep.fields["_mixture"]:
                    acc = Token("add", acc, Token("scale", p, cur.expect("graph_to_density", g.fields["_data"])))
                new = cur.expect("DensityMatrix", acc)
            else:
                new = cur.expect("DensityMatrix", cur.expect("graph_to_density", rep.fields["_data"]))
        else:  # g -> s
            if mixed:
                payload = [(p, g.fields["_data"]) for p, g in rep.fields["_mixture"]]
                out = cur.expect("graph_to_stabilizer", payload)
                tabs = [(p, cur.expect("CliffordTableau", t)) for p, t in out]
                new = cur.expect("MixedStabilizer", tabs)
            else:
                out = cur.expect("graph_to_stabilizer", rep.fields["_data"])
                new = cur.expect("Stabilizer", cur.expect("CliffordTableau", out[0][1]))
        I.path.oblige(f"{lab}:post.rep_data-is-the-converted-representation", z3.BoolVal(qs.fields["_rep_data"] is new))
        I.path.oblige(f"{lab}:post.rep_type", z3.BoolVal(qs.fields["_rep_type"] == dst))
        return None

    return spec


def conv_tasks():
    D = conv_contracts()
    T = []
    hooks = dict(NX.HOOKS)
    hooks.update({"instantiate": rep_instantiate, "binop": token_binop})
    for src in REPS:
        for dst in REPS:
            for mixed in (False,):  # the statement ranges over the 9 pairs for a (pure) graph state; holders built with
                # mixed=True are outside it (they fail for s->g / g->s, see props/C08.findings.md D08-3) and are not driven here
                sp = conv_spec(src, dst, mixed)

                def mk(I, src=src, dst=dst, mixed=mixed, sp=sp):
                    qs, rep = _mk_state(I, src, mixed)
                    sp.rep = rep
                    return [qs, FULL[dst]]

                T.append(TraceTask(CONV, mk, sp, D, inline=CONV_INLINE, hooks=hooks,
                                   label=f"convert_representation[{src}->{dst}]",
                                   clause=f"dispatch {src}->{dst}: right converter, right payload, result wrapped in the right "
                                          f"representation class, _rep_type updated"))
    return T


def tasks():
    return graph_tasks() + s2d_tasks() + conv_tasks()


def canary_tasks():
    n = z3.Int("n")
    hooks = dict(NX.HOOKS)

    def bad_gst(I, graph):  # Z = adjacency + identity (a Y instead of an X on the diagonal)
        nn, adj = _adj_of(I, graph)
        return graph_tableau(I, nn, lambda i, j: z3.If(i == j, z3.IntVal(1), adj(i, j)))

    def bad_g2sp(I, input_graph):  # halves exchanged: X = adjacency, Z = I
        nn, adj = _adj_of(I, input_graph)
        o = graph_tableau(I, nn, adj)
        n_ = to_z3(nn)
        o.fields["_table"] = new_array((nn, 2 * n_), lambda i, j: z3.If(j < n_, as_int_term(adj(i, j)), z3.If(i == j - n_, z3.IntVal(1), z3.IntVal(0))), "table")
        return o

    return [
        Task(GST, C[GST], [S.Assume(n >= 1), NX.SimpleGraph("G", n)], C, inline=INLINE_TAB, hooks=hooks,
             label="canary.get_stabilizer_tableau_from_graph.Y-on-the-diagonal", spec_override=bad_gst),
        Task(G2SP, C[G2SP], [S.Assume(n >= 1), NX.SimpleAdj("A", n)], C, inline=INLINE_TAB, hooks=hooks,
             label="canary._graph_to_stabilizer_pure.halves-exchanged", spec_override=bad_g2sp),
    ]
