"""C13 - frame clauses ("library calls do not mutate their inputs") decided on the REAL bodies.

(a) metrics:   `frame.*` obligations of contracts/metrics.py (evaluate writes only self._inc / self.log; mutators only on copies).
(b) compile:   `CompilerBase.compile` restores op.noise after every iteration: proved in contracts/compile_loop.py
               (obligation `...frame.op-noise-restored`, re-run by props/C13.py).
(c) CircuitDAG._noisy_gates(noise_model_map) / assign_noise:   loop `for op in self._slim_seq()` by induction over an
    ABSTRACT sequence (trace loop rule): for an arbitrary operation of every operation class (incl. OneQubitGateWrapper)
    and an arbitrary noise map entry (absent / a noise object / a list of two noise objects):
       * exactly one object is appended to the result per element, in order;
       * the appended object is FRESH (not the circuit's own op, no field object shared except immutable data) and of the
         same class / registers;
       * the original op is not written: its `noise` field is the same object as before and the interpreter's write log has
         no entry for any object reachable from the original op;
       * the fresh op's noise is what the map prescribes (map entry, [entry, entry] for controlled ops, NoNoise() if absent;
         per wrapped gate for wrappers).
    `assign_noise` itself: builds a NEW CircuitDAG with the counts of self and adds exactly the ops `_noisy_gates` returned
    (effect trace), returns it; no write to self.
(d) TimeReversedSolver.__init__(target, ...):   the caller's `target` must not be modified.  The real code calls
    `target.convert_representation("s")` on the argument itself whenever target.rep_type != "s": the frame obligation is
    REFUTED for graph / density-matrix targets (known finding T1; replayed natively) and discharged for stabilizer targets.
    The constructor's other effects (self.target, n_emitter = determine_n_emitters(tableau), n_photon = tableau.n_qubits,
    noise flags) are proved on the same run.
[A] copy.deepcopy = fresh equal object graph (S7); `_slim_seq()` returns the circuit's own operation objects in sequence
order without Input/Output (its contract; C12).
"""
from __future__ import annotations

import ast

import z3

from pyvc import source, models
from pyvc.interp import Interp, Engine, Path, explore, RaiseEx, Undecided, PathEnd, Frame
from pyvc.trace import recorder, TraceTask, Token, AbstractSeq, trace_loop_hook, Cursor
from pyvc.values import Obj, Opaque, Builtin, FuncRef, ClsRef, is_sym, to_z3
from . import compile_stab as CS
from . import metrics as M
from .metrics import HarnessTask, ReplayTraceTask, rec, reachable

CDAG = "graphiq.circuit.circuit_dag"
CIRC = "graphiq.circuit.circuit_base"
OPS = "graphiq.circuit.ops"
NM = "graphiq.noise.noise_models"
TRS = "graphiq.solvers.time_reversed_solver"
SB = "graphiq.solvers.solver_base"
STATE = "graphiq.state"

LOCALS = {"op", "is_controlled", "op_type_seq", "noise_list", "control_type", "target_type", "mapping", "name", "noise_object",
          "gate"}  # `gate` is the comprehension variable of op_type_seq (the executor keeps it in the frame)
GATE_OPS = [o for o in CS.ALL_OPS if o not in ("Input", "Output")] + ["OneQubitGateWrapper"]


def _choose(I, options, what):
    for k, opt in enumerate(options[:-1]):
        if I.path.decide(I.path.fresh(f"{what}_is_{k}", "bool")):
            return opt
    return options[-1]


def _uncontracted(I, f, args, kwargs):
    if f.qual.startswith("graphiq.utils.openqasm_lib:"):
        return Opaque("openqasm_info", f.qual)
    return NotImplemented


def _noise(I, tag):
    o = Obj(I.get_class(NM, "DepolarizingNoise"))
    o.fields["noise_parameters"] = {"After gate": True}
    o.fields["__tag__"] = tag
    return o


def element(I, k):
    """an ARBITRARY operation of the circuit: every gate class, symbolic registers, original noise = its own NoNoise object"""
    opname = _choose(I, GATE_OPS, "opclass")
    syms = dict(n_p=z3.Int("n_p"), n_e=z3.Int("n_e"), n_c=z3.Int("n_c"), r=I.path.fresh("reg"), rt=_choose(I, ["e", "p"], "rt"),
                c=I.path.fresh("ctrl"), ct=_choose(I, ["e", "p"], "ct"), t=I.path.fresh("targ"), tt=_choose(I, ["e", "p"], "tt"),
                creg=I.path.fresh("creg"))
    if opname == "OneQubitGateWrapper":
        cls = I.get_class(OPS, "OneQubitGateWrapper")
        gates = [I.get_class(OPS, "Hadamard"), I.get_class(OPS, _choose(I, ["Phase", "SigmaX"], "wrapped"))]
        op = I.instantiate(cls, [gates], {"register": syms["r"], "reg_type": syms["rt"]})
    else:
        op = CS.make_op(I, opname, syms)
    g = dict(op=op, opname=opname, syms=syms, noise0=op.fields.get("noise"),
             noise0_items=list(op.fields["noise"]) if isinstance(op.fields.get("noise"), list) else None,
             reach=reachable([op]), mark=len(I.writes))
    I.path.ghost["elem"] = g
    return op


class Mapping:
    """noise_model_map[key]: an abstract dict; membership of a gate name is a free boolean, the entry an arbitrary noise
    object or (for controlled ops) possibly a list of two"""

    def __init__(self, key):
        self.key = key


def h_contains(I, container, item):
    if isinstance(container, Opaque) and container.tag == "mapping":
        tab = I.path.ghost.setdefault("in_map", {})
        k = (container.payload, item)
        if k not in tab:
            tab[k] = I.path.decide(I.path.fresh(f"in_map[{container.payload}][{item}]", "bool"))
        return tab[k]
    return None


def h_getitem(I, obj, key):
    if isinstance(obj, Opaque) and obj.tag == "mapping":
        tab = I.path.ghost.setdefault("map_entry", {})
        k = (obj.payload, key)
        if k not in tab:
            if I.path.ghost.get("in_map", {}).get(k) is False:
                raise RaiseEx("KeyError", str(key))
            if len(obj.payload) == 2 and _choose(I, [True, False], "entry_is_list"):
                tab[k] = [_noise(I, f"{obj.payload}.{key}.0"), _noise(I, f"{obj.payload}.{key}.1")]
            else:
                tab[k] = _noise(I, f"{obj.payload}.{key}")
        return tab[k]
    return None


def h_getattr(I, obj, attr):
    if isinstance(obj, Opaque) and obj.tag == "outlist" and attr == "append":
        def app(i, x):
            i.path.trace.append({"name": "noisy_ops.append", "args": [x], "self": obj, "ret": None})
        return Builtin("noisy_ops.append", app)
    return NotImplemented


def instantiate_noise(I, cls, args, kwargs):
    if cls.module == NM:
        o = Obj(cls)
        o.fields["noise_parameters"] = {"After gate": True}
        o.fields["__fresh__"] = True
        return o
    return NotImplemented


def expected(I, op):
    tr = [e for e in I.path.trace if e["name"] == "noisy_ops.append"]
    return [("noisy_ops.append", list(e["args"])) for e in tr[:1]]


def _is_nonoise(x):
    return isinstance(x, Obj) and x.cls.name == "NoNoise" and x.fields.get("__fresh__")


def post_iter(I, op, lab, check_noise=True, wrong=None):
    g = I.path.ghost["elem"]
    eng = I.path.engine
    tr = [e for e in I.path.trace if e["name"] == "noisy_ops.append"]
    rec(eng, f"{lab}.post.one-op-appended-per-element", len(tr) == 1, f"{len(tr)} appends for one element")
    if len(tr) != 1:
        return
    new = tr[0]["args"][0]
    fresh = isinstance(new, Obj) and new is not op and id(new) not in g["reach"]
    rec(eng, f"{lab}.frame.appended-op-is-a-fresh-object", fresh,
        "the op placed in the noisy circuit is the original circuit's own operation object (shared)")
    shared = [f for f, v in (new.fields.items() if isinstance(new, Obj) else []) if isinstance(v, (list, dict, Obj)) and id(v) in g["reach"]
              and f != "noise"]
    rec(eng, f"{lab}.frame.no-mutable-field-shared-with-the-original", not shared, f"fields {shared} alias the original op's objects")
    # the original is untouched
    same_noise = op.fields.get("noise") is g["noise0"] and (g["noise0_items"] is None or (
        len(g["noise0"]) == len(g["noise0_items"]) and all(a is b for a, b in zip(g["noise0"], g["noise0_items"]))))
    rec(eng, f"{lab}.frame.original-op-noise-unchanged", same_noise, "op.noise of the ORIGINAL circuit's operation was rebound/changed")
    bad = [(o.cls.name if isinstance(o, Obj) else type(o).__name__, w) for o, w in I.writes[g["mark"]:] if id(o) in g["reach"]]
    rec(eng, f"{lab}.frame.no-write-to-the-original-op", not bad, f"writes to the original operation: {bad}")
    if not isinstance(new, Obj):
        return
    same_kind = new.cls is op.cls and all(M.same(new.fields.get(f), op.fields.get(f)) is True or
                                          (is_sym(new.fields.get(f)) and new.fields.get(f) is op.fields.get(f))
                                          for f in ("register", "reg_type", "control", "target", "control_type", "target_type",
                                                    "c_registers") if f in op.fields and not isinstance(op.fields.get(f), list))
    rec(eng, f"{lab}.post.same-class-and-registers", bool(same_kind), "class or register fields differ from the original")
    if not check_noise:
        return
    # noise as the map prescribes
    name, s = g["opname"], g["syms"]
    ent = I.path.ghost.get("map_entry", {})
    inm = I.path.ghost.get("in_map", {})
    noise = new.fields.get("noise")
    if name == "OneQubitGateWrapper":
        key = s["rt"]
        ok = isinstance(noise, list) and len(noise) == 2
        if ok:
            for gate_cls, n_ in zip(op.fields["operations"], noise):
                # noise[i] belongs to operations[i] (listed order): that is how OneQubitGateWrapper.unwrap() attaches it
                # (taken from the wrapper's own convention, not from _noisy_gates; a contract that followed unwrap()'s
                #  reversed order would have encoded the defect repaired by 0c39693)
                if inm.get((key, gate_cls.name)):
                    ok = ok and n_ is ent.get((key, gate_cls.name))
                else:
                    ok = ok and _is_nonoise(n_)
        rec(eng, f"{lab}.post.noise-follows-the-map", bool(ok), "wrapper noise list is not [map[g] or NoNoise() for g in op.operations] (listed order)")
        return
    controlled = name in CS.TWO or name in CS.CLASSICAL
    key = (s["ct"] + s["tt"]) if controlled else s["rt"]
    present = inm.get((key, name))
    e = ent.get((key, name)) if present else None
    if controlled:
        if present and isinstance(e, list):
            ok = noise is e
        elif present and wrong == "controlled-single-noise":  # canary: the wrong rule
            ok = noise is e
        elif present:
            ok = isinstance(noise, list) and len(noise) == 2 and noise[0] is e and noise[1] is e
        else:
            ok = isinstance(noise, list) and len(noise) == 2 and _is_nonoise(noise[0]) and noise[0] is noise[1]
    else:
        ok = (noise is e) if present else _is_nonoise(noise)
    rec(eng, f"{lab}.post.noise-follows-the-map", bool(ok), f"noise of the new {name} is not what noise_model_map[{key!r}] prescribes")


def noisy_gates_tasks(label_prefix="", wrong=None):
    qual = f"{CDAG}:CircuitDAG._noisy_gates"
    C = {f"{CDAG}:CircuitDAG._slim_seq": recorder(f"{CDAG}:CircuitDAG._slim_seq", "_slim_seq",
                                                  result=lambda I, self: self.fields["__seq__"])}

    def mk(I):
        circ = Obj(I.get_class(CDAG, "CircuitDAG"))
        n = z3.Int("n_ops")
        I.path.assume(n >= 0)
        circ.fields["__seq__"] = AbstractSeq(n, element)
        nmap = {k: Opaque("mapping", k) for k in ("e", "p", "ee", "ep", "pe", "pp")}
        I.path.ghost["pre"] = reachable([circ])
        return [circ, nmap]

    def loop_hook(interp, node, it):
        if not isinstance(it, AbstractSeq):
            return False
        fr = interp.stack[-1]
        out = fr.env.get("noisy_ops")
        ok = isinstance(out, list) and not out
        interp.path.engine.record(f"{label_prefix}CircuitDAG._noisy_gates:loop.result-list-starts-empty", "discharged" if ok else "refuted", 0,
                                  "" if ok else "noisy_ops is not an empty list at loop entry", None)
        if not ok:
            raise PathEnd()
        interp.path.ghost["outlist"] = fr.env["noisy_ops"] = Opaque("outlist", "noisy_ops")
        return trace_loop_hook(expected, LOCALS, lambda I, op, lab: post_iter(I, op, lab, True, wrong))(interp, node, it)

    def native():
        wit, bad = native_assign_noise()
        if wrong is None:
            return wit, bad
        wit["canary claims"] = "a controlled gate gets the single mapped noise object"
        return wit, any(isinstance(x, list) and len(x) == 2 for x in wit["noisy circuit noise"])

    def spec(I, cur, circ, nmap):
        cur.expect("_slim_seq")
        cur.expect("foreach", circ.fields["__seq__"])
        return I.path.ghost.get("outlist")

    H = {"contains": h_contains, "getitem": h_getitem, "getattr": h_getattr, "instantiate": instantiate_noise,
         "uncontracted_call": _uncontracted, "loop": loop_hook}
    return [ReplayTraceTask(qual, mk, spec, C, inline=CS.INLINE | {f"{CDAG}:CircuitDAG._find_wrapped_noise"},
                            label=f"{label_prefix}CircuitDAG._noisy_gates", hooks=H, native=native,
                            clause="_noisy_gates: per original op one FRESH op with the mapped noise, in order; the original "
                                   "ops (their noise fields) are not written")]


def mc_noisy_gates_tasks(label_prefix=""):
    """MonteCarloNoise._noisy_gates: the same loop with randomly drawn noise objects - frame clauses only"""
    MC = "graphiq.noise.monte_carlo_noise"
    qual = f"{MC}:MonteCarloNoise._noisy_gates"
    C = {f"{CDAG}:CircuitDAG._slim_seq": recorder(f"{CDAG}:CircuitDAG._slim_seq", "_slim_seq",
                                                  result=lambda I, self: self.fields["__seq__"]),
         f"{MC}:MonteCarloNoise._get_rnd_noise_obj": recorder(f"{MC}:MonteCarloNoise._get_rnd_noise_obj", "_get_rnd_noise_obj",
                                                              result=lambda I, self, rt, nm_: _noise(I, f"rnd.{rt}.{nm_}"))}

    def h_getattr2(I, obj, attr):
        if isinstance(obj, Opaque) and obj.tag == "mc_noise_model" and attr == "mapping":
            return obj.payload
        return h_getattr(I, obj, attr)

    def mk(I):
        circ = Obj(I.get_class(CDAG, "CircuitDAG"))
        n = z3.Int("n_ops")
        I.path.assume(n >= 0)
        circ.fields["__seq__"] = AbstractSeq(n, element)
        mc = Obj(I.get_class(MC, "MonteCarloNoise"))
        mc.fields["circuit"] = circ
        mc.fields["mc_noise_model"] = Opaque("mc_noise_model", {k: Opaque("mapping", k) for k in ("e", "p", "ee", "ep", "pe", "pp")})
        return [mc]

    lab0 = f"{label_prefix}MonteCarloNoise._noisy_gates"

    def loop_hook(interp, node, it):
        if not isinstance(it, AbstractSeq):
            return False
        fr = interp.stack[-1]
        out = fr.env.get("noisy_ops")
        ok = isinstance(out, list) and not out
        interp.path.engine.record(f"{lab0}:loop.result-list-starts-empty", "discharged" if ok else "refuted", 0, "", None)
        if not ok:
            raise PathEnd()
        interp.path.ghost["outlist"] = fr.env["noisy_ops"] = Opaque("outlist", "noisy_ops")
        return trace_loop_hook(expected_mc, LOCALS | {"reg_type", "noisy"}, lambda I, op, lab: post_iter(I, op, lab, False))(interp, node, it)

    def expected_mc(I, op):
        tr = [e for e in I.path.trace if e["name"] == "noisy_ops.append"]
        I.path.trace[:] = [e for e in I.path.trace if e["name"] != "_get_rnd_noise_obj"]
        return [("noisy_ops.append", list(e["args"])) for e in tr[:1]]

    def spec(I, cur, mc):
        cur.expect("_slim_seq")
        cur.expect("foreach", mc.fields["circuit"].fields["__seq__"])
        return I.path.ghost.get("outlist")

    H = {"contains": h_contains, "getitem": h_getitem, "getattr": h_getattr2, "instantiate": instantiate_noise,
         "uncontracted_call": _uncontracted, "loop": loop_hook}
    return [TraceTask(qual, mk, spec, C, inline=CS.INLINE | {f"{MC}:MonteCarloNoise._find_wrapped_noise"}, label=lab0, hooks=H,
                      clause="MonteCarloNoise._noisy_gates: per original op one FRESH op, in order; the circuit's own ops are not written")]


def assign_noise_tasks(label_prefix="", wrong=None):
    qual = f"{CDAG}:CircuitDAG.assign_noise"
    C = {}
    for p_ in ("n_emitters", "n_photons", "n_classical"):
        q = f"{CIRC}:CircuitBase.{p_}"
        C[q] = recorder(q, p_, result=(lambda nm_: (lambda I, self: z3.Int(nm_)))(p_))

    def gates_result(I, self, m):
        n = z3.Int("n_gates")
        I.path.assume(n >= 0)
        seq = AbstractSeq(n, lambda I_, k: Opaque("gate", k), label="new_gates")
        I.path.ghost["new_gates"] = seq
        return seq

    C[f"{CDAG}:CircuitDAG._noisy_gates"] = recorder(f"{CDAG}:CircuitDAG._noisy_gates", "_noisy_gates", result=gates_result)
    C[f"{CDAG}:CircuitDAG.add"] = recorder(f"{CDAG}:CircuitDAG.add", "add")

    def inst(I, cls, args, kwargs):
        if cls.name == "CircuitDAG":
            o = Obj(cls)
            I.path.ghost["new_circuit"] = o
            I.path.trace.append({"name": "CircuitDAG", "args": [kwargs.get("n_emitter"), kwargs.get("n_photon"), kwargs.get("n_classical")],
                                 "self": None, "ret": o})
            return o
        return NotImplemented

    def post_iter_add(I, gate, lab):
        evs = [e for e in I.path.trace if e["name"] == "add"]
        ok = len(evs) == 1 and evs[0]["self"] is I.path.ghost.get("new_circuit")
        if wrong == "adds-to-self":  # canary: the wrong claim
            ok = len(evs) == 1 and evs[0]["self"] is I.path.ghost.get("self_circuit")
        I.path.engine.record(f"{lab}.post.added-to-the-NEW-circuit", "discharged" if ok else "refuted", 0,
                             "" if ok else "the gate is not added (exactly once) to the freshly created circuit", None)

    def mk(I):
        circ = Obj(I.get_class(CDAG, "CircuitDAG"))
        nmap = Opaque("noise_model_map", "map")
        I.path.ghost["pre"] = reachable([circ])
        I.path.ghost["mark"] = len(I.writes)
        I.path.ghost["self_circuit"] = circ
        return [circ, nmap]

    def native():
        wit, bad = native_assign_noise()
        if wrong is None:
            return wit, bad
        from graphiq.circuit.circuit_dag import CircuitDAG
        from graphiq.circuit import ops

        c = CircuitDAG(n_emitter=1, n_photon=0, n_classical=0)
        c.add(ops.Hadamard(register=0, reg_type="e"))
        n0 = len(c.sequence())
        c.assign_noise({"e": {}, "p": {}, "ee": {}, "ep": {}})
        return {"call": "c = CircuitDAG(H e0); c.assign_noise(empty map)", "canary claims": "the gates are added to c itself",
                "actual": f"len(c.sequence()) {n0} -> {len(c.sequence())}"}, len(c.sequence()) == n0

    def spec(I, cur, circ, nmap):
        cur.trace[:] = [e for e in cur.trace if e["name"] not in ("n_emitters", "n_photons", "n_classical") or e["self"] is not circ]
        new = cur.expect("CircuitDAG", z3.Int("n_emitters"), z3.Int("n_photons"), z3.Int("n_classical"))
        gates = M.expect_on(cur, circ, "_noisy_gates", nmap)
        cur.expect("foreach", gates)
        bad = [w for o, w in I.writes[I.path.ghost["mark"]:] if id(o) in I.path.ghost["pre"]]
        I.path.engine.record(f"{cur.label}:frame.no-write-to-self", "discharged" if not bad else "refuted", 0,
                             "" if not bad else f"assign_noise writes {bad} on the original circuit", None)
        mut = [e["name"] for e in cur.trace if e["self"] is circ and e["name"] in ("add",) + tuple(M.MUTATORS)]
        I.path.engine.record(f"{cur.label}:frame.no-mutator-called-on-self", "discharged" if not mut else "refuted", 0,
                             "" if not mut else f"mutating calls {mut} on the original circuit", None)
        return new

    H = {"instantiate": inst, "loop": trace_loop_hook(lambda I, g: [("add", [g])], {"gate"}, post_iter_add)}
    return [ReplayTraceTask(qual, mk, spec, C, label=f"{label_prefix}CircuitDAG.assign_noise", hooks=H, native=native,
                            clause="assign_noise: a NEW CircuitDAG(n_emitters, n_photons, n_classical) receives exactly the ops of "
                                   "_noisy_gates(map), in order (induction over the list); self is only read")]


def native_assign_noise():
    """real circuit, real assign_noise: is the original's op.noise changed / is an op object shared?"""
    from graphiq.circuit.circuit_dag import CircuitDAG
    from graphiq.circuit import ops
    import graphiq.noise.noise_models as nm

    c = CircuitDAG(n_emitter=2, n_photon=1, n_classical=1)
    originals = [ops.Hadamard(register=0, reg_type="e"), ops.CNOT(control=0, control_type="e", target=1, target_type="e"),
                 ops.OneQubitGateWrapper([ops.Hadamard, ops.Phase], register=0, reg_type="p")]
    for o in originals:
        c.add(o)
    before = [o.noise if not isinstance(o.noise, list) else list(o.noise) for o in originals]
    dep = nm.DepolarizingNoise(0.1)
    noisy = c.assign_noise({"e": {"Hadamard": dep}, "p": {"Hadamard": dep, "Phase": dep}, "ee": {"CNOT": dep}, "ep": {}, "pe": {}, "pp": {}})
    changed = [type(o).__name__ for o, b in zip(originals, before)
               if (o.noise is not b if not isinstance(b, list) else (len(o.noise) != len(b) or any(x is not y for x, y in zip(o.noise, b))))]
    shared = [type(o).__name__ for o in noisy.sequence() if any(o is x for x in originals)]
    got = [type(o.noise).__name__ if not isinstance(o.noise, list) else [type(x).__name__ for x in o.noise]
           for o in noisy.sequence() if type(o).__name__ not in ("Input", "Output")]
    want = ["DepolarizingNoise", ["DepolarizingNoise", "DepolarizingNoise"], ["DepolarizingNoise", "DepolarizingNoise"]]
    bad = bool(changed or shared) or sorted(map(str, got)) != sorted(map(str, want))
    return {"call": "CircuitDAG(H e0; CNOT e0->e1; wrap[H,P] p0).assign_noise({Hadamard/Phase/CNOT: DepolarizingNoise(0.1)})",
            "original ops whose noise changed": changed, "ops shared with the noisy circuit": shared, "noisy circuit noise": got}, bad


# =============================================================================================
# (d) TimeReversedSolver.__init__
# =============================================================================================

CALL_SITES_NOTE = ("callers that hand their own target object to TimeReversedSolver(...): hybrid_solvers.py "
                   "(population_initialization: target=self.target), alternate_target_solver.py, utils/preprocessing.py, "
                   "benchmarks/alternate_circuits.py, data_collection/correlation_module.py")


def native_trs(rep):
    import networkx as nx
    import numpy as np
    from graphiq.state import QuantumState
    from graphiq.solvers.time_reversed_solver import TimeReversedSolver

    g = nx.Graph()
    g.add_nodes_from([0, 1])
    g.add_edge(0, 1)
    if rep == "g":
        t = QuantumState(g, rep_type="g")
    elif rep == "dm":
        t = QuantumState(g, rep_type="g")
        t.convert_representation("dm")
    else:
        t = QuantumState(2, rep_type="s")
    before = (t.rep_type, type(t.rep_data).__name__)
    TimeReversedSolver(t, None, None)
    after = (t.rep_type, type(t.rep_data).__name__)
    return {"call": f"t = QuantumState(<2-qubit graph state>, rep_type={rep!r}); TimeReversedSolver(t, metric, compiler)",
            "expected": f"t unchanged {before}", "actual": f"t is now {after}"}, before != after


def trs_init_task(rep, kind, label_prefix=""):
    qual = f"{TRS}:TimeReversedSolver.__init__"
    label = f"{label_prefix}TimeReversedSolver.__init__[target.rep_type={rep}]"
    C = dict(M.state_contracts())
    q = f"{TRS}:TimeReversedSolver.determine_n_emitters"

    def det_spec(I, *args):
        ev = {"name": "determine_n_emitters", "args": list(args), "self": None, "ret": z3.Int("n_emitter_min")}
        I.path.trace.append(ev)
        return ev["ret"]

    from pyvc.contract import Contract

    C[q] = Contract(q, spec=det_spec, clause="recorded call determine_n_emitters")

    def h_getattr_(I, obj, attr):
        if isinstance(obj, Token) and obj.tag in ("tableau", "conv-tableau"):
            if attr == "to_stabilizer":
                def to_stab(i):
                    r = Opaque("stabilizer-tableau", obj)
                    i.path.trace.append({"name": "to_stabilizer", "args": [], "self": obj, "ret": r})
                    return r
                return Builtin("to_stabilizer", to_stab)
        if isinstance(obj, Opaque) and obj.tag == "stabilizer-tableau" and attr == "n_qubits":
            return z3.Int("n_qubits")
        return NotImplemented

    H = {"getattr": h_getattr_}
    inline = set(M.INLINE) | {f"{SB}:SolverBase.__init__"}

    def mk(I):
        solver = Obj(I.get_class(TRS, "TimeReversedSolver"))
        target = M.abstract_state(I, "target", rep, kind)
        metric, compiler = Opaque("metric", "m"), Opaque("compiler", "c")
        I.path.ghost["reach_pre"] = reachable([target])
        I.path.ghost["target0"] = (target.fields["_rep_type"], target.fields["_rep_data"])
        I.path.ghost["writes_mark"] = len(I.writes)
        return [solver, target, metric, compiler]

    def spec(I, cur, solver, target, metric, compiler):
        eng = I.path.engine
        rt0, rd0 = I.path.ghost["target0"]
        conv = [e for e in cur.trace if e["name"] in M.MUTATORS and e["self"] is target]
        unchanged = target.fields["_rep_type"] == rt0 and target.fields["_rep_data"] is rd0 and not conv
        eng.record(f"{label}:frame.caller-target-unmodified@__init__.target.convert_representation", "discharged" if unchanged else "refuted", 0,
                   "" if unchanged else f"the constructor converts the CALLER's target in place: rep_type {rt0!r} -> "
                   f"{target.fields['_rep_type']!r}, rep_data replaced ({CALL_SITES_NOTE})", None)
        bad = [(o.cls.name if isinstance(o, Obj) else type(o).__name__, w) for o, w in I.writes[I.path.ghost["writes_mark"]:]
               if id(o) in I.path.ghost["reach_pre"]]
        eng.record(f"{label}:frame.no-field-write-on-the-target", "discharged" if not bad else "refuted", 0,
                   "" if not bad else f"writes {bad}", None)
        # functional part (what the constructor must establish), walking the trace.  The solver may work on the caller's
        # object or on a copy it makes (the repair): T is whatever it keeps as self.target
        T = solver.fields.get("target")
        copies = [e["ret"] for e in cur.trace if e["name"] == "copy" and e["self"] is target]
        cur.trace[:] = [e for e in cur.trace if not (e["name"] == "copy" and e["self"] is target)]
        okT = T is target or any(T is c for c in copies)
        eng.record(f"{label}:post.self.target-is-the-target-or-its-copy", "discharged" if okT else "refuted", 0,
                   "" if okT else "self.target is neither the argument nor a copy of it", None)
        if not okT:
            raise PathEnd()
        if rep != "s":
            M.expect_on(cur, T, "convert_representation", "s")
        tab = T.fields["_rep_data"].fields["_tableau"]
        st = M.expect_on(cur, tab, "to_stabilizer")
        n_e = cur.expect("determine_n_emitters", st)
        I.path.oblige(f"{label}:post.n_emitter", to_z3(solver.fields.get("n_emitter", -1)) == to_z3(n_e))
        I.path.oblige(f"{label}:post.n_photon", to_z3(solver.fields.get("n_photon", -1)) == z3.Int("n_qubits"))
        ok = solver.fields.get("metric") is metric and solver.fields.get("compiler") is compiler \
            and solver.fields.get("noise_simulation") is False and solver.fields.get("noise_model_mapping") == {"e": {}, "p": {}, "ee": {}, "ep": {}}
        eng.record(f"{label}:post.fields(metric,compiler,noise_simulation=False,empty-map)", "discharged" if ok else "refuted", 0,
                   "" if ok else f"fields: {sorted(solver.fields)}", None)
        return None

    return ReplayTraceTask(qual, mk, spec, C, inline=inline, label=label, hooks=H, native=lambda: native_trs(rep),
                           clause="TimeReversedSolver.__init__: the caller's target is not modified (C13); "
                                  "n_emitter/n_photon from the target's stabilizer tableau")


def trs_tasks(label_prefix=""):
    return [trs_init_task("s", "Stabilizer", label_prefix), trs_init_task("g", "Graph", label_prefix),
            trs_init_task("dm", "DensityMatrix", label_prefix)]


def canary_tasks():
    return noisy_gates_tasks("canary.controlled-gate-gets-a-single-noise-object.", wrong="controlled-single-noise") \
        + assign_noise_tasks("canary.assign_noise-adds-the-gates-to-self.", wrong="adds-to-self")
