"""Sidecar contracts for graphiq/backends/stabilizer/functions/linalg.py and transformation.py.

Every spec below is the *strongest* postcondition: the complete new contents of every buffer as an explicit function of
the old contents (per row i / column j, for symbolic sizes), which object is returned, which buffers are mutated in place
and which fields are rebound to fresh arrays.  The per-row gate rules are the ones of the property statement (textbook
conjugation of Pauli operators); lemmas/pauli_tables.py proves [F] that they equal conjugation by the textbook matrices.
"""
from __future__ import annotations

import z3

from pyvc.contract import Contract
from pyvc.values import NDArr, Store, Obj, new_array, as_int_term, to_z3
from .common import LINALG, TRANS, idx_in, xor

C = {}  # qual -> Contract


def contract(qual, **kw):
    def deco(spec):
        C[qual] = Contract(qual, spec=spec, **kw)
        return spec

    return deco


def _and(*xs):
    return z3.And(*[to_z3(x) if not isinstance(x, bool) else z3.BoolVal(x) for x in xs])


# ------------------------------------------------------------------------------------ linalg
@contract(f"{LINALG}:row_swap", requires=lambda I, M, a, b: _and(idx_in(a, M.shape[0]), idx_in(b, M.shape[0])),
          clause="definitional: rows a and b exchanged, same object returned, nothing else changes")
def _row_swap(I, M, a, b):
    rd = M.reader()
    if M.ndim == 1:  # a vector (the phase vector in stabilizer.tab_row_swap): entries a and b exchanged
        M.assign_from(lambda i: z3.If(i == to_z3(b), rd(a), z3.If(i == to_z3(a), rd(b), rd(i))))
        return M
    M.assign_from(lambda i, j: z3.If(i == to_z3(b), rd(a, j), z3.If(i == to_z3(a), rd(b, j), rd(i, j))))
    return M


@contract(f"{LINALG}:add_rows", requires=lambda I, M, a, t: _and(idx_in(a, M.shape[0]), idx_in(t, M.shape[0])),
          clause="definitional: row t := (row a + row t) mod 2")
def _add_rows(I, M, a, t):
    rd = M.reader()
    M.assign_from(lambda i, j: z3.If(i == to_z3(t), (rd(a, j) + rd(t, j)) % 2, rd(i, j)))
    return M


@contract(f"{LINALG}:column_swap", requires=lambda I, M, a, b: _and(idx_in(a, M.shape[1]), idx_in(b, M.shape[1])))
def _column_swap(I, M, a, b):
    rd = M.reader()
    M.assign_from(lambda i, j: z3.If(j == to_z3(b), rd(i, a), z3.If(j == to_z3(a), rd(i, b), rd(i, j))))
    return M


@contract(f"{LINALG}:add_columns", requires=lambda I, M, a, t: _and(idx_in(a, M.shape[1]), idx_in(t, M.shape[1])))
def _add_columns(I, M, a, t):
    rd = M.reader()
    M.assign_from(lambda i, j: z3.If(j == to_z3(t), (rd(i, a) + rd(i, t)) % 2, rd(i, j)))
    return M


@contract(f"{LINALG}:multiply_columns",
          requires=lambda I, A, B, a, b: _and(to_z3(A.shape[0]) == to_z3(B.shape[0]), idx_in(a, A.shape[1]), idx_in(b, B.shape[1])))
def _multiply_columns(I, A, B, a, b):
    ra, rb = A.reader(), B.reader()
    return new_array((A.shape[0],), lambda i: ra(i, a) * rb(i, b), "colprod")


def g_term(x1, z1, x2, z2):
    """exponent of i in sigma(x1,z1)*sigma(x2,z2) (Y-convention), bits as Int terms - Aaronson-Gottesman g"""
    x1, z1, x2, z2 = (as_int_term(v) for v in (x1, z1, x2, z2))
    return z3.If(z3.And(x1 == 0, z1 == 0), z3.IntVal(0),
                 z3.If(z3.And(x1 == 1, z1 == 1), z2 - x2,
                       z3.If(z3.And(x1 == 1, z1 == 0), z2 * (2 * x2 - 1), x2 * (1 - 2 * z2))))


def _bit(v):
    v = as_int_term(v)
    return z3.And(v >= 0, v <= 1)


@contract(f"{LINALG}:g_function", requires=lambda I, x1, z1, x2, z2: _and(_bit(x1), _bit(z1), _bit(x2), _bit(z2)),
          clause="g = exponent of i in the product of two Paulis (table proved against the matrices in lemmas L3.g)")
def _g_function(I, x1, z1, x2, z2):
    return g_term(x1, z1, x2, z2)


# ------------------------------------------------------------------------------------ transformation (gates)
def _tab_parts(T):
    tab, ph, n = T.fields["_table"], T.fields["_phase"], T.fields["n_qubits"]
    return tab, ph, n


def _gate_effect(T, new_tab, new_phase):
    """Common frame of every gate in transformation.py (derived from the code: `tableau.phase = ...` and
    `tableau.table = ...` go through the setters, which rebind the fields to fresh int copies): the tableau object is
    returned, `_phase` and `_table` are rebound to fresh arrays with the stated contents, the old phase buffer is not
    written, the old table buffer is left with unspecified contents (callers may not rely on it)."""
    tab, ph, n = _tab_parts(T)
    old_store = tab.store
    T.fields["_phase"] = new_array(ph.shape, new_phase, "phase'")
    T.fields["_table"] = new_array(tab.shape, new_tab, "table'")
    hv = z3.Function(f"havoc_tab_{old_store.id}", *([z3.IntSort()] * old_store.ndim), z3.IntSort())
    old_store.f = lambda *s: hv(*s)
    old_store.havoc = True
    return T


def _q_ok(I, T, q):
    return idx_in(q, T.fields["n_qubits"])


def _one_qubit(rule):
    """rule(x, z, r) -> (x', z', r') on the touched column pair"""

    def spec(I, T, q):
        tab, ph, n = _tab_parts(T)
        rt, rp = tab.reader(), ph.reader()
        q_, nq = to_z3(q), to_z3(n) + to_z3(q)

        def new_tab(i, j):
            x2, z2, _ = rule(rt(i, q_), rt(i, nq), rp(i))
            return z3.If(j == q_, x2, z3.If(j == nq, z2, rt(i, j)))

        def new_phase(i):
            return rule(rt(i, q_), rt(i, nq), rp(i))[2]

        return _gate_effect(T, new_tab, new_phase)

    return spec


RULES1 = {
    "hadamard_gate": lambda x, z, r: (z, x, xor(r, x * z)),
    "phase_gate": lambda x, z, r: (x, xor(z, x), xor(r, x * z)),
    "phase_dagger_gate": lambda x, z, r: (x, xor(z, x), xor(r, x * (1 - z))),
    "z_gate": lambda x, z, r: (x, z, xor(r, x)),
    "x_gate": lambda x, z, r: (x, z, xor(r, z)),
    "y_gate": lambda x, z, r: (x, z, xor(r, xor(x, z))),
}
for _name, _rule in RULES1.items():
    C[f"{TRANS}:{_name}"] = Contract(f"{TRANS}:{_name}", requires=_q_ok, spec=_one_qubit(_rule),
                                     clause=f"{_name}: per-row conjugation rule on column pair (q, n+q); frame: all other entries unchanged")


def _two_qubit(rule):
    """rule(xc, zc, xt, zt, r) -> (xc', zc', xt', zt', r')"""

    def spec(I, T, c, t):
        tab, ph, n = _tab_parts(T)
        rt, rp = tab.reader(), ph.reader()
        c_, t_, nc, nt = to_z3(c), to_z3(t), to_z3(n) + to_z3(c), to_z3(n) + to_z3(t)

        def vals(i):
            return rule(rt(i, c_), rt(i, nc), rt(i, t_), rt(i, nt), rp(i))

        def new_tab(i, j):
            xc, zc, xt, zt, _ = vals(i)
            return z3.If(j == c_, xc, z3.If(j == nc, zc, z3.If(j == t_, xt, z3.If(j == nt, zt, rt(i, j)))))

        return _gate_effect(T, new_tab, lambda i: vals(i)[4])

    return spec


RULES2 = {
    "cnot_gate": lambda xc, zc, xt, zt, r: (xc, xor(zc, zt), xor(xt, xc), zt, xor(r, xc * zt * xor(xor(xt, zc), 1))),
    "control_z_gate": lambda xc, zc, xt, zt, r: (xc, xor(zc, xt), xt, xor(zt, xc), xor(r, xc * xt * xor(zc, zt))),
}


def _ct_ok(I, T, c, t):
    n = T.fields["n_qubits"]
    return _and(idx_in(c, n), idx_in(t, n), to_z3(c) != to_z3(t))


for _name, _rule in RULES2.items():
    C[f"{TRANS}:{_name}"] = Contract(f"{TRANS}:{_name}", requires=_ct_ok, spec=_two_qubit(_rule),
                                     clause=f"{_name}: per-row conjugation rule on the four touched columns; frame")


@contract(f"{TRANS}:identity", requires=None)
def _identity(I, T, *args):
    return T


# ------------------------------------------------------------------------------------ linalg.row_sum
from pyvc.loops import SeqLoop  # noqa: E402

ROW_SUM = f"{LINALG}:row_sum"


def gsum_fn(I):
    """GSUM(k) = sum_{j<k} g(x[a,j], z[a,j], x[t,j], z[t,j]) over the rows at call time: a recursive spec function.
    Inside row_sum's own verification task the loop invariant and the postcondition share one symbol; every call site gets
    a fresh symbol (its defining equations are available through lemmas.sums when a caller needs them)."""
    if I.path.ghost.get("task") == ROW_SUM:
        return z3.Function("GSUM", z3.IntSort(), z3.IntSort())
    k = I.path.counter.get("GSUMcall", 0)
    I.path.counter["GSUMcall"] = k + 1
    return z3.Function(f"GSUM@{k}", z3.IntSort(), z3.IntSort())


def _row_sum_requires(I, x, z, r, ip, a, t):
    j = I.path.fresh("rq")
    rows, n = x.shape
    inr = z3.And(j >= 0, j < to_z3(n))
    bits = z3.Implies(inr, z3.And(_bit(x.get(a, j)), _bit(z.get(a, j)), _bit(x.get(t, j)), _bit(z.get(t, j))))
    return _and(idx_in(a, rows), idx_in(t, rows), to_z3(z.shape[0]) == to_z3(rows), to_z3(z.shape[1]) == to_z3(n),
                idx_in(a, r.shape[0]), idx_in(t, r.shape[0]), idx_in(a, ip.shape[0]), idx_in(t, ip.shape[0]), bits)


@contract(ROW_SUM, requires=_row_sum_requires,
          clause="row t := row a (+) row t; (2 r_t + i_t) := (2 r_t + i_t + 2 r_a + i_a + sum_j g_j) mod 4; every other row, and "
                 "every entry of rows != t, unchanged; the four array objects passed in are returned")
def _row_sum(I, x, z, r, ip, a, t):
    GS = gsum_fn(I)
    rx, rz, rr, ri = x.reader(), z.reader(), r.reader(), ip.reader()
    n = x.shape[1]
    a_, t_ = to_z3(a), to_z3(t)
    ph = (2 * rr(t_) + ri(t_) + 2 * rr(a_) + ri(a_) + GS(to_z3(n))) % 4
    I.path.ghost.setdefault("rowsum_calls", []).append(dict(GS=GS, rx=rx, rz=rz, a=a_, t=t_, n=n))
    r.assign_from(lambda i: z3.If(i == t_, ph / 2, rr(i)))
    ip.assign_from(lambda i: z3.If(i == t_, ph % 2, ri(i)))
    x.assign_from(lambda i, j: z3.If(i == t_, (rx(a_, j) + rx(t_, j)) % 2, rx(i, j)))
    z.assign_from(lambda i, j: z3.If(i == t_, (rz(a_, j) + rz(t_, j)) % 2, rz(i, j)))
    return (x, z, r, ip)


def _row_sum_axioms(I, k, entry):
    GS = gsum_fn(I)
    if k is None:
        return [GS(0) == 0]
    rx, rz = entry.rd("x_matrix"), entry.rd("z_matrix")
    a, t = to_z3(entry["row_to_add"]), to_z3(entry["target_row"])
    return [GS(k + 1) == GS(k) + g_term(rx(a, k), rz(a, k), rx(t, k), rz(t, k))]


ROW_SUM_LOOPS = [
    SeqLoop("row_sum", "j", "range(n_qubits)",
            state=lambda I, k, entry: {"g_sum": gsum_fn(I)(k)},
            axioms=_row_sum_axioms),
]
