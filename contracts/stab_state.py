"""Contracts for the Stabilizer state-representation wrapper methods (graphiq/backends/stabilizer/state.py): each one is a
single call of the corresponding tableau function on `self._tableau` (DESIGN C01 item 4 / C07 wrappers)."""
from __future__ import annotations

import z3

from pyvc.contract import Contract, Task
from pyvc import schema as S
from .common import TRANS, CLIFF, TABLEAU_ACCESSORS, idx_in
from .stab_gates import C as GC, _and
from . import stab_clifford as K

SSTATE = "graphiq.backends.stabilizer.state"
C = {}

WRAP1 = {"apply_hadamard": "hadamard_gate", "apply_phase": "phase_gate", "apply_phase_dagger": "phase_dagger_gate",
         "apply_sigmax": "x_gate", "apply_sigmay": "y_gate", "apply_sigmaz": "z_gate"}
WRAP2 = {"apply_cnot": "cnot_gate", "apply_cz": "control_z_gate"}


def _mk1(gate):
    def spec(I, self, q):
        self.fields["_tableau"] = GC[f"{TRANS}:{gate}"].spec(I, self.fields["_tableau"], q)
        return None

    return spec


def _mk2(gate):
    def spec(I, self, c, t):
        self.fields["_tableau"] = GC[f"{TRANS}:{gate}"].spec(I, self.fields["_tableau"], c, t)
        return None

    return spec


for m, g in WRAP1.items():
    C[f"{SSTATE}:Stabilizer.{m}"] = Contract(f"{SSTATE}:Stabilizer.{m}",
                                             requires=lambda I, self, q: idx_in(q, self.fields["_tableau"].fields["n_qubits"]),
                                             spec=_mk1(g), clause=f"Stabilizer.{m} applies {g} to its tableau at the given qubit")
for m, g in WRAP2.items():
    C[f"{SSTATE}:Stabilizer.{m}"] = Contract(
        f"{SSTATE}:Stabilizer.{m}",
        requires=lambda I, self, c, t: _and(idx_in(c, self.fields["_tableau"].fields["n_qubits"]),
                                            idx_in(t, self.fields["_tableau"].fields["n_qubits"]), c != t),
        spec=_mk2(g), clause=f"Stabilizer.{m} applies {g} (control, target) to its tableau")


def _meas_spec(I, self, q, mode):
    T, outcome, p = K._zmeas_spec(I, self.fields["_tableau"], q, mode)
    self.fields["_tableau"] = T
    return outcome


def _meas_extract(I, ret):
    if I is None:
        raise ValueError("apply_measurement does not return the pivot; concrete replay needs the body")
    return I.path.ghost["zmeas_calls"][-1]


C[f"{SSTATE}:Stabilizer.apply_measurement"] = Contract(
    f"{SSTATE}:Stabilizer.apply_measurement", requires=lambda I, self, q, mode: idx_in(q, self.fields["_tableau"].fields["n_qubits"]),
    spec=_meas_spec, extract=_meas_extract, choices=K.zmeas_choices, clause="Z measurement of the tableau; returns the outcome")


def _reset_spec(I, self, q, mode):
    self.fields["_tableau"] = K._reset_z_spec(I, self.fields["_tableau"], q, 0, mode)
    return None


C[f"{SSTATE}:Stabilizer.reset_qubit"] = Contract(
    f"{SSTATE}:Stabilizer.reset_qubit", requires=lambda I, self, q, mode: idx_in(q, self.fields["_tableau"].fields["n_qubits"]),
    spec=_reset_spec, extract=_meas_extract, choices=K.zmeas_choices, clause="a reset leaves the measured qubit in |0> (reset_z with intended_state 0)")


def _remove_state_spec(I, self, q, mode="probabilistic"):
    from . import stab_remove as R

    self.fields["_tableau"] = R._remove_spec(I, self.fields["_tableau"], q, mode)
    return None


C[f"{SSTATE}:Stabilizer.remove_qubit"] = Contract(
    f"{SSTATE}:Stabilizer.remove_qubit",
    requires=lambda I, self, q, mode="probabilistic": idx_in(q, self.fields["_tableau"].fields["n_qubits"]),
    spec=_remove_state_spec, extract=_meas_extract, choices=K.zmeas_choices,
    clause="Stabilizer.remove_qubit measures and discards the qubit of its tableau (clifford.remove_qubit), passing the determinism on")


def shrink_tasks(Call):
    from . import stab_remove as R

    Call.update(R.C)
    Call.update(C)
    T = []
    q = f"{SSTATE}:Stabilizer.remove_qubit"
    for mode in ("probabilistic", 0, 1):
        from .tasks_clifford import _basis_holds

        T.append(Task(q, C[q], [S.StabState("T"), S.IntArg("q"), S.Const("mode", mode),
                                S.Assume(z3.BoolVal(True), "valid-tableau", check=_basis_holds)], Call, inline=TABLEAU_ACCESSORS,
                      label=f"Stabilizer.remove_qubit[{mode}]"))
    return T


def tasks(Call):
    T = []
    for m in WRAP1:
        q = f"{SSTATE}:Stabilizer.{m}"
        T.append(Task(q, C[q], [S.StabState("T"), S.IntArg("q")], Call, inline=TABLEAU_ACCESSORS))
    for m in WRAP2:
        q = f"{SSTATE}:Stabilizer.{m}"
        T.append(Task(q, C[q], [S.StabState("T"), S.IntArg("c"), S.IntArg("t")], Call, inline=TABLEAU_ACCESSORS))
    for m in ("apply_measurement", "reset_qubit"):
        q = f"{SSTATE}:Stabilizer.{m}"
        for mode in ("probabilistic", 0, 1):
            T.append(Task(q, C[q], [S.StabState("T"), S.IntArg("q"), S.Const("mode", mode)], Call, inline=TABLEAU_ACCESSORS,
                          label=f"Stabilizer.{m}[{mode}]"))
    return T
