"""C01 / C06 / C13 - CompilerBase.compile: the loop over circuit.sequence(unwrapped=True) by induction (trace loop).

Per element (an ARBITRARY operation of each accepted class, with each noise configuration) the loop body must record:
   noise switched off, or all of the op's noise is NoNoise      ->  compile_one_gate(state, op, n_quantum, q_index, cregs)
   additive noise, "After gate" True  (both, for controlled ops) ->  compile_one_gate ; _apply_additional_noise
   additive noise, "After gate" False                            ->  _apply_additional_noise ; compile_one_gate
   controlled op, after on control only / target only            ->  noise(before part) ; gate ; noise(after part), with
                                                                     op.noise temporarily [NoNoise|n0, n1|NoNoise] and RESTORED
   replacement noise on an uncontrolled op                        ->  compile_one_noisy_gate
   an operation class the compiler does not accept                ->  RuntimeError
and after every iteration op.noise is the same object as before (C13 frame clause).
"""
from __future__ import annotations

import z3

from pyvc.trace import recorder, TraceTask, Token, AbstractSeq, trace_loop_hook, same
from pyvc.values import Obj, NDArr, FuncRef, to_z3, as_int_term, Opaque
from pyvc import source
from . import compile_stab as CS

CBASE = CS.CBASE
NM = CS.NM
CIRC = "graphiq.circuit.circuit_base"
CDAG = "graphiq.circuit.circuit_dag"

LOCALS = {"no_noise", "is_controlled_op", "after_control", "after_target", "noise_copy", "tmp_noise"}
NOISE_KINDS = ["NoNoise", "add-after", "add-before", "replace"]


def _noise_obj(I, kind):
    if kind == "NoNoise":
        o = Obj(I.get_class(NM, "NoNoise"))
        o.fields["noise_parameters"] = {"After gate": True}  # AdditionNoiseBase.__init__ default
        return o
    if kind == "replace":
        o = Obj(I.get_class(NM, "OneQubitGateReplacement"))
        o.fields["noise_parameters"] = {}
        return o
    o = Obj(I.get_class(NM, "DepolarizingNoise"))
    o.fields["noise_parameters"] = {"After gate": kind == "add-after"}
    return o


def _choose(I, options, what):
    """fork the path over a finite list"""
    for k, opt in enumerate(options[:-1]):
        b = I.path.fresh(f"{what}_is_{k}", "bool")
        if I.path.decide(b):
            return opt
    return options[-1]


ACCEPTED = CS.ALL_OPS
FOREIGN = ["RX"]  # a class no Clifford compiler accepts (dm accepts parameterised ones; checked per compiler)


def element_factory(compiler):
    def element(I, k):
        opname = _choose(I, ACCEPTED, "opclass")
        syms = dict(n_p=z3.Int("n_p"), n_e=z3.Int("n_e"), n_c=z3.Int("n_c"), r=I.path.fresh("reg"), rt=_choose(I, ["e", "p"], "rt"),
                    c=I.path.fresh("ctrl"), ct="e", t=I.path.fresh("targ"), tt=_choose(I, ["e", "p"], "tt"), creg=I.path.fresh("creg"))
        op = CS.make_op(I, opname, syms)
        controlled = opname in CS.TWO or opname in CS.CLASSICAL
        if opname in ("Input", "Output"):
            kinds = ("NoNoise",)
        elif controlled:
            kinds = (_choose(I, NOISE_KINDS, "noise0"), _choose(I, NOISE_KINDS, "noise1"))
        else:
            kinds = (_choose(I, NOISE_KINDS, "noise"),)
        if controlled:
            noise = [_noise_obj(I, kinds[0]), _noise_obj(I, kinds[1])]
        else:
            noise = _noise_obj(I, kinds[0])
        op.fields["noise"] = noise
        I.path.ghost["elem"] = dict(op=op, opname=opname, kinds=kinds, controlled=controlled, noise=noise,
                                    noise_items=list(noise) if isinstance(noise, list) else None)
        return op

    return element


def expected_factory(noise_on):
    def expected(I, op):
        g = I.path.ghost["elem"]
        e = I.path.ghost["compile_env"]
        gate = ("compile_one_gate", [e["state"], op, e["n_quantum"], e["q_index"], e["cregs"]])
        nz = g["noise_items"] if g["noise_items"] is not None else [g["noise"]]
        NoN = I.get_class(NM, "NoNoise")

        def extra_with(snap):
            return ("_apply_additional_noise", [e["state"], op, e["n_quantum"], e["q_index"], tuple(snap)])

        extra = extra_with(nz)
        noisy = ("compile_one_noisy_gate", [e["state"], op, e["n_quantum"], e["q_index"], e["cregs"]])
        kinds = g["kinds"]
        if not noise_on or all(k == "NoNoise" for k in kinds):
            return [gate]
        if g["controlled"]:
            if all(k.startswith("add") or k == "NoNoise" for k in kinds):
                a0 = kinds[0] != "add-before"  # NoNoise is additive with "After gate" True
                a1 = kinds[1] != "add-before"
                if a0 and a1:
                    return [gate, extra]
                if not a0 and not a1:
                    return [extra, gate]
                # split placement: the "before" part first (the other slot silenced), the gate, then the "after" part
                if a0 and not a1:
                    return [extra_with([NoN, nz[1]]), gate, extra_with([nz[0], NoN])]
                return [extra_with([nz[0], NoN]), gate, extra_with([NoN, nz[1]])]
            return ("raises", ["ValueError"])
        k = kinds[0]
        if k == "add-after":
            return [gate, extra]
        if k == "add-before":
            return [extra, gate]
        return [noisy]

    return expected


def post_iter(I, op, lab):
    """C13 frame clause: the temporary op.noise swap is undone on every path (same list object, same two items)"""
    g = I.path.ghost["elem"]
    ok = op.fields["noise"] is g["noise"]
    if ok and g["noise_items"] is not None:
        ok = len(g["noise"]) == 2 and all(a is b for a, b in zip(g["noise"], g["noise_items"]))
    I.path.engine.record(f"{lab}.frame.op-noise-restored", "discharged" if ok else "refuted", 0,
                         "" if ok else "after the iteration op.noise is not the object (or items) it was before: the caller's circuit is mutated", None)


def contracts(compiler_mod, compiler_cls):
    C = {}
    for m in ("compile_one_gate", "compile_one_noisy_gate"):
        q = f"{compiler_mod}:{compiler_cls}.{m}"
        C[q] = recorder(q, m)
    # the additional-noise call is recorded together with the noise the operation carries AT THAT MOMENT
    # (the temporary [NoNoise, n1] / [n0, NoNoise] lists decide which noise is actually applied)
    q = f"{compiler_mod}:{compiler_cls}._apply_additional_noise"

    def _extra_spec(I, self, state, op, n_quantum, q_index):
        nz = op.fields["noise"]
        snap = tuple(nz) if isinstance(nz, list) else (nz,)
        I.path.trace.append({"name": "_apply_additional_noise", "args": [state, op, n_quantum, q_index, snap], "self": self, "ret": None})
        return None

    from pyvc.contract import Contract as _C
    C[q] = _C(q, spec=_extra_spec, clause="recorded call with the noise carried by the operation at call time")
    for p_ in ("n_quantum", "n_photons", "n_classical"):
        q = f"{CIRC}:CircuitBase.{p_}"
        C[q] = recorder(q, p_, result=(lambda nm_: (lambda I, self: {"n_quantum": z3.Int("n_p") + z3.Int("n_e"), "n_photons": z3.Int("n_p"),
                                                                      "n_classical": z3.Int("n_c")}[nm_]))(p_))
    return C


def mk_inputs_factory(compiler_mod, compiler_cls, noise_on, monte_carlo=False):
    def mk(I):
        n_p, n_e, n_c = z3.Int("n_p"), z3.Int("n_e"), z3.Int("n_c")
        I.path.assume(z3.And(n_p >= 0, n_e >= 0, n_c >= 0))
        comp = Obj(I.get_class(compiler_mod, compiler_cls))
        comp.fields.update(_measurement_determinism="probabilistic", _noise_simulation=noise_on, _monte_carlo=monte_carlo)
        circ = Obj(I.get_class(CDAG, "CircuitDAG"))
        seq = AbstractSeq(z3.Int("n_ops"), element_factory(compiler_cls))
        I.path.assume(z3.Int("n_ops") >= 0)
        circ.fields["__seq__"] = seq
        return [comp, circ, None]

    return mk


def hooks_factory(noise_on):
    def instantiate(I, cls, args, kwargs):
        if cls.module == NM:
            return Obj(cls)
        if cls.name == "QuantumState":
            o = Obj(cls)
            I.path.trace.append({"name": "QuantumState", "args": [kwargs.get("data"), kwargs.get("rep_type"), kwargs.get("mixed")],
                                 "self": None, "ret": o})
            return o
        return NotImplemented

    H = {"instantiate": instantiate,
         "loop": None}
    return H


def spec_factory(compiler_cls, rep_type, noise_on, monte_carlo=False):
    def spec(I, cur, comp, circ, initial_state):
        n_p, n_e, n_c = z3.Int("n_p"), z3.Int("n_e"), z3.Int("n_c")
        cur.trace[:] = [e for e in cur.trace if e["name"] not in ("n_quantum", "n_photons", "n_classical")]
        st = cur.expect("QuantumState", n_p + n_e, rep_type, bool(noise_on and not monte_carlo))
        cur.expect("sequence", True)
        cur.expect("foreach", circ.fields["__seq__"])
        return st

    return spec


def tasks():
    T = []
    for mod, cls, rep in ((CS.SCOMP, "StabilizerCompiler", "stabilizer"),
                          ("graphiq.backends.density_matrix.compiler", "DensityMatrixCompiler", "dm")):
        for noise_on in (False, True):
            C = contracts(mod, cls)

            def seq_result(I, self, unwrapped=False):
                return self.fields["__seq__"]

            C[f"{CDAG}:CircuitDAG.sequence"] = recorder(f"{CDAG}:CircuitDAG.sequence", "sequence", result=seq_result)

            def capture_env(I):
                fr = I.stack[-1]

            H = hooks_factory(noise_on)

            def loop_hook(interp, node, it, _noise_on=noise_on):
                if not isinstance(it, AbstractSeq):
                    return False
                fr = interp.stack[-1]
                interp.path.ghost["compile_env"] = dict(state=fr.env.get("state"), n_quantum=z3.Int("n_p") + z3.Int("n_e"),
                                                        q_index=fr.env.get("q_index"), cregs=fr.env.get("classical_registers"))
                return trace_loop_hook(expected_factory(_noise_on), LOCALS, post_iter,
                                       pure=("n_quantum", "n_photons", "n_classical"))(interp, node, it)

            H["loop"] = loop_hook
            T.append(TraceTask(f"{CBASE}:CompilerBase.compile", mk_inputs_factory(mod, cls, noise_on),
                               spec_factory(cls, rep, noise_on), C, inline=CS.INLINE | {f"{CBASE}:CompilerBase.noise_simulation"},
                               label=f"{cls}.compile[noise_simulation={noise_on}]", hooks=H,
                               clause="compile: initial state, then for every element of circuit.sequence(unwrapped=True) in order "
                                      "exactly the calls the noise placement prescribes; op.noise restored; returns that state"))
    return T
