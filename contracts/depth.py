"""C18 - node depth / register depth of CircuitDAG on a symbolic graph fragment: _max_depth, calculate_reg_depth,
calculate_all_reg_depth, register_depth (REAL bodies interpreted from /repo's AST).

Definition (refsem/metrics.py, DESIGN 5/C18): level(op) = 1 + max level of the operations it depends on that come before it (1 if
none); register depth of register r = level of the LAST operation on r's wire (0 if the wire is empty).  On the DAG (WF-wire: the
operations an operation depends on directly are its predecessors along its wires) this is the recursion
      DEP(n) = -1                                   if n is an Input node
      DEP(n) = 1 + max { DEP(u) : (u, n) an edge }  otherwise                       (DEP(op) = level(op) - 1)
      register depth of (t, i) = DEP(`{t}{i}_out`)                                  (lemma L2.depth.*, below)
which has exactly one solution on an acyclic graph (induction over a topological rank, C12): a value that satisfies the recursion
on the CURRENT graph is a function of the current graph only.

Obligations
 _max_depth[...]      the REAL body for a root with 1, 2, 3 incoming edges (operation / input predecessors, parallel edges allowed) and for
                      the out node of a wire returns 1 + max of the values of its RECURSIVE calls, one call per incoming edge, each on the
                      edge's source, all on the unchanged graph (recursive calls are abstracted by the function DEP of the current graph:
                      the induction hypothesis); an Input node gives -1.
   frame / purity     `frame.no-graph-update`, `frame.writes-nothing` (interpreter write log: no attribute / item / list / dict write at all)
                      and `frame.reads-only-dag-and-node_dict` (attribute reads of the circuit object are logged): together with the
                      recursion they make the value a function of the current graph.  A version of the code that keeps ANY state of its
                      own (memo, stamp, counter) reads or writes an attribute outside {dag, node_dict}: those two obligations are then
                      reported UNDECIDED (extra state is not a violation by itself - the history tasks below decide whether it is stale).
 depth-history[...]   H4 histories on small explicit circuits with CONCRETE node ids (so that dictionaries keyed by nodes stay inside the
                      accepted subset): query - edit - query with the REAL _max_depth / calculate_reg_depth, the REAL remove_op / insert_at
                      in between; every query must equal the recursion evaluated (by the checker, from the fragment's edge list) on the
                      graph AS IT IS at that moment.  Attributes this harness does not model are initialised by executing the matching
                      `self.X = ...` statements of the REAL CircuitDAG.__init__ on the harness object [A-init], so a cached value that
                      survives an edit is a REFUTED `query#k.equals-recursion-on-the-current-graph`.
 calculate_reg_depth  for a SYMBOLIC number n_t of registers: returns the list object _register_depth[t] with entry i = _max_depth(`{t}{i}_out`)
                      for EVERY 0 <= i < n_t (loop rule below); writes nothing but those entries; other register types untouched; an unknown
                      register type raises ValueError.
 calculate_all_reg_depth / register_depth   call calculate_reg_depth once for each of "e", "p", "c" and return a NEW dict with the three
                      depth lists (the lists themselves are the circuit's own objects - recorded as a frame fact, not demanded by C18).

Loop rule used for `for i in range(len(self._register_depth[reg_type]))` with a symbolic trip count N [L-range-pointwise]: the body is
executed ONCE for an arbitrary index k (fresh, 0 <= k < N, on the state "entries written by earlier iterations are unknown"); obligations:
the body writes the depth list at index k only, writes nothing else, and does not read the list's contents (a read makes the task
undecided).  Then after the loop entry j holds the value the body computes for i = j, for every j < N.

 reg_gate_history     returns the wire of (reg_type, reg) from its in node to its out node in wire order; at a two-qubit node the walk follows
                      the out edge with THIS register's number AND type (the other wire listed before / after it, same number on the other
                      type, same type with another number): whole function on wires with <= 3 nodes + induction step of the while loop
                      (ordered_nodes = abstract prefix + [n]); reads only dag, writes nothing.
Refuted obligations of the history tasks are replayed on a REAL CircuitDAG (native_history: same shape, same steps, recursion evaluated
from the real graph's edges).

[B-only] CircuitDAG.depth (nx.dag_longest_path_length, [A]).  The three emitter-depth metrics: contracts/metrics_emit.py.
"""
from __future__ import annotations

import ast

import z3

from pyvc import source, symgraph as SG, models
from pyvc.contract import Contract
from pyvc.interp import Interp, Engine, explore, RaiseEx, Undecided, PathEnd, Frame
from pyvc.trace import recorder
from pyvc.values import Obj, FuncRef, Opaque, to_z3, is_sym, concrete_int
from . import compile_stab as CS, dag as D, dag_rewrites as RW

CDAG = D.CDAG
OPS = CS.OPS
Q_MD = f"{CDAG}:CircuitDAG._max_depth"
Q_CRD = f"{CDAG}:CircuitDAG.calculate_reg_depth"
Q_CARD = f"{CDAG}:CircuitDAG.calculate_all_reg_depth"
Q_RD = f"{CDAG}:CircuitDAG.register_depth"

ALLOWED_READS_MD = {"dag", "node_dict"}
DEP = z3.Function("DEP", z3.IntSort(), z3.IntSort())  # depth of an operation node in the CURRENT graph (induction hypothesis)
DOUT = {t: z3.Function(f"DEP_out_{t}", z3.IntSort(), z3.IntSort()) for t in "epc"}  # ... of the out node of register (t, i)


# =============================================================================================
# read log of the circuit object; completion of the harness object from the real constructor
# =============================================================================================
class ReadLog(dict):
    """field table of the circuit object that remembers which attributes were READ (Interp.getattr: `attr in fields`, `fields[attr]`)"""

    def __init__(self, *a):
        super().__init__(*a)
        self.reads = []
        self.on = False

    def __getitem__(self, k):
        if self.on:
            self.reads.append(k)
        return super().__getitem__(k)


def complete_from_init(I, c):
    """[A-init] attributes of CircuitDAG the harness does not model: execute the `self.X = <expr>` statements of the REAL __init__
    (top level of its body, in order) whose target is missing, on the harness object; statements that leave the accepted subset are skipped"""
    m, node, cls = source.find(f"{CDAG}:CircuitDAG.__init__")
    done = []
    for st in node.body:
        if (isinstance(st, ast.Assign) and len(st.targets) == 1 and isinstance(st.targets[0], ast.Attribute)
                and isinstance(st.targets[0].value, ast.Name) and st.targets[0].value.id == "self" and st.targets[0].attr not in c.fields):
            fr = Frame(m.name, {"self": c}, "CircuitDAG.__init__")
            I.stack.append(fr)
            try:
                c.fields[st.targets[0].attr] = I.eval(st.value)
                done.append(st.targets[0].attr)
            except (Undecided, RaiseEx):
                pass
            finally:
                I.stack.pop()
    return done


def _reachable(v, out, depth=0):
    if id(v) in out or depth > 6:
        return
    if isinstance(v, (list, dict, set, Obj, DepthList, SG.SymGraph, SG.SymList)):
        out[id(v)] = v
    if isinstance(v, (list, tuple, set)):
        for x in v:
            _reachable(x, out, depth + 1)
    elif isinstance(v, dict):
        for x in v.values():
            _reachable(x, out, depth + 1)
    elif isinstance(v, Obj):
        _reachable(v.fields, out, depth + 1)
    elif isinstance(v, SG.SymGraph):
        _reachable(v.nodes, out, depth + 1)
        _reachable(v.edges, out, depth + 1)


def watch(sc):
    """start logging attribute reads of the circuit object; remember every object that exists BEFORE the call (writes to objects the
    call creates itself - its local lists - are not part of the frame)"""
    f = ReadLog(sc.c.fields)
    sc.c.fields = f
    f.pre = {}
    _reachable(sc.c, f.pre)
    return f


def _record(eng, name, status, detail=""):
    eng.record(name, status, 0, detail, None)


def frame_obligations(I, eng, label, sc, fields, allowed_reads, allowed_write=None):
    """purity side of the contract; extra state is UNDECIDED, never a violation (see module docstring)"""
    _record(eng, f"{label}:post.frame.no-graph-update", "discharged" if not sc.g.log else "refuted", f"graph updated: {sc.g.log}")
    bad_w = [w for w in I.writes if id(w[0]) in fields.pre and not (allowed_write is not None and allowed_write(w))]
    own = [w for w in bad_w if w[0] is sc.c or any(w[0] is v for v in fields.values())]
    _record(eng, f"{label}:post.frame.writes-nothing-but-the-documented-update", "discharged" if not bad_w else "undecided",
            "" if not bad_w else f"writes outside the documented frame: {[(type(w[0]).__name__, w[1]) for w in bad_w][:6]}"
                                 f"{' (state of the circuit object)' if own else ''}: the value may depend on more than the current graph")
    extra = sorted(set(fields.reads) - set(allowed_reads))
    _record(eng, f"{label}:post.frame.reads-only-{'-and-'.join(sorted(allowed_reads))}", "discharged" if not extra else "undecided",
            "" if not extra else f"reads self.{', self.'.join(extra)}: the value may depend on more than the current graph")


# =============================================================================================
# _max_depth: one unfolding of the recursion + purity
# =============================================================================================
def md_rec_contract(sc_holder):
    """induction hypothesis for the recursive calls: the depth DEP(node) of the CURRENT graph (-1 for Input nodes)"""

    def spec(I, slf, node):
        sc = sc_holder["sc"]
        I.path.trace.append({"name": "_max_depth", "args": [node], "graph_version": len(sc.g.log)})
        r = models.contains(I, sc.c.fields["node_dict"]["Input"], node)
        if (r if isinstance(r, bool) else I.path.decide(r)):
            return -1
        if isinstance(node, SG.Templ):
            raise Undecided(f"recursive _max_depth on a template node that is not an input: {node}")
        return DEP(to_z3(node))

    return Contract(Q_MD, spec=spec, clause="induction hypothesis: depth of a node in the current graph")


class MDTask:
    """REAL _max_depth(root); preds: list of 'op' | 'in' (kind of the source of each incoming edge); root_kind: 'op' | 'out' | 'in'"""

    def __init__(self, root_kind, preds, label=None, expect="1+max", timeout_ms=10000):
        self.qual = Q_MD
        self.root_kind, self.preds, self.expect = root_kind, preds, expect
        self.label = label or f"_max_depth[{root_kind} node; incoming edges from {','.join(preds) or '-'}]"
        self.contract = Contract(Q_MD, clause="DEP(Input) = -1; DEP(n) = 1 + max over the incoming edges (u, n) of DEP(u) on the current "
                                              "graph; reads only dag / node_dict, writes nothing")
        self.timeout_ms = timeout_ms

    def run(self):
        eng = Engine(self.timeout_ms)
        m, node, cls = source.find(self.qual)
        holder = {}
        C = D.contracts()
        C[Q_MD] = md_rec_contract(holder)

        def harness(path):
            hooks = SG.install({"instantiate": CS.abstract_noise_instantiate, "loop": RW.live_list_loop([])})
            I = Interp(path, C, set(D.INLINE), hooks)
            I.task_name = self.label  # NOT the qual: recursive calls go through the contract (induction hypothesis)
            f = FuncRef(m.name, node, self.qual, I.get_class(m.name, cls.name))
            I.stack.append(Frame(m.name, {}, self.label))
            sc = RW.Sc(I)
            holder["sc"] = sc
            types = ["e", "p", "c"]
            srcs = []
            # other input nodes are listed too
            sc.c.fields["node_dict"]["Input"].append(D.in_node("p", z3.Int("other_in")))
            if self.root_kind == "in":
                r = sc.reg("r", "e")
                root = D.in_node("e", r)
                sc.g.nodes.append([root, {"op": sc.op("Input", "e", r), "reg": r}])
                sc.g.closed.append(root)
                sc.c.fields["node_dict"]["Input"].append(root)
            else:
                if self.root_kind == "out":
                    r0 = sc.reg("r0", "e")
                    root = D.out_node("e", r0)
                    sc.g.nodes.append([root, {"op": sc.op("Output", "e", r0), "reg": r0}])
                    sc.g.closed.append(root)
                    sc.c.fields["node_dict"]["Output"].append(root)
                else:
                    root = sc.ids("root")
                    sc.put(root, None, index=False)
                for k_, kind in enumerate(self.preds):
                    t = types[k_] if self.root_kind == "op" else "e"
                    r = sc.reg(f"r{k_}", t) if self.root_kind == "op" else r0
                    if kind == "in":
                        p = D.in_node(t, r)
                        sc.g.nodes.append([p, {"op": sc.op("Input", t, r), "reg": r}])
                        sc.c.fields["node_dict"]["Input"].append(p)
                    else:
                        p = z3.Int(f"pred{k_}")  # parallel edges from one node are allowed: predecessors need not be distinct
                        path.assume(z3.And(p >= 1, p <= sc.M, p != root) if self.root_kind == "op" else z3.And(p >= 1, p <= sc.M))
                        sc.unknown(p)
                    sc.link(p, root, t, r)
                    srcs.append(p)
                if self.root_kind == "op":
                    o = sc.ids("succ")
                    sc.unknown(o)
                    sc.link(root, o, "e", z3.Int("r0"))
            complete_from_init(I, sc.c)
            fields = watch(sc)
            path.trace, I.writes = [], []
            fields.on = True
            try:
                ret = I.call_function(f, [sc.c, root], {}, force_body=True)
            except RaiseEx as e:
                _record(eng, f"{self.label}:no-raise", "refuted", f"real body raises {e.exc_name}: {e.msg}")
                return
            finally:
                fields.on = False
            _record(eng, f"{self.label}:no-raise", "discharged")
            frame_obligations(I, eng, self.label, sc, fields, ALLOWED_READS_MD)
            if self.root_kind == "in":
                path.oblige(f"{self.label}:post.input-node-has-depth-minus-one", to_z3(ret) == -1)
                _record(eng, f"{self.label}:post.no-recursive-call", "discharged" if not path.trace else "refuted", str(path.trace))
                return
            calls = [e for e in path.trace if e["name"] == "_max_depth"]
            ok = len(calls) == len(srcs) and all(SG.decide_eq(I, c_["args"][0], s) for c_, s in zip(calls, srcs))
            _record(eng, f"{self.label}:post.one-recursive-call-per-incoming-edge-on-its-source", "discharged" if ok else "refuted",
                    f"recursive calls on {[c_['args'][0] for c_ in calls]}; incoming edges from {srcs}")
            vals = [z3.IntVal(-1) if k == "in" else DEP(s) for k, s in zip(self.preds, srcs)]
            mx = vals[0]
            for v in vals[1:]:
                mx = z3.If(v > mx, v, mx)
            want = {"1+max": 1 + mx, "max": mx}[self.expect]
            path.oblige(f"{self.label}:post.return-is-one-plus-the-maximum-over-the-incoming-edges", to_z3(ret) == want)

        try:
            explore(eng, harness)
        except Undecided as u:
            _record(eng, f"{self.label}:supported-subset", "undecided", f"{u}")
        for r in eng.results.values():
            r.witness, r.replayed = None, False
        return eng


def max_depth_tasks():
    T = [MDTask("in", [])]
    for preds in (["op"], ["in"], ["op", "op"], ["op", "in"], ["in", "op"], ["in", "in"], ["op", "op", "op"], ["op", "in", "op"]):
        T.append(MDTask("op", preds))
    T += [MDTask("out", ["op"]), MDTask("out", ["in"])]
    return T


# =============================================================================================
# H4 histories: query - edit - query on explicit small circuits (concrete ids)
# =============================================================================================
def frag_depth(I, g, inputs, n, seen=()):
    """the recursion, evaluated by the checker on the fragment's CURRENT edge list (independent of the code under test)"""
    if any(SG.decide_eq(I, n, x) for x in inputs):
        return -1
    if n in seen:
        raise Undecided("cycle in the fragment")
    preds = [e[0] for e in g.edges if SG.decide_eq(I, e[1], n)]
    return 1 + max(frag_depth(I, g, inputs, p, seen + (n,)) for p in preds)


SHAPES = {
    # wires: {(t, r): [node ids in time order]};  ops: id -> (class, registers)
    "one-wire": dict(wires={("e", 0): [1, 2, 3]}, ops={1: ("Hadamard", ("e", 0)), 2: ("Identity", ("e", 0)), 3: ("Phase", ("e", 0))}),
    "cnot": dict(wires={("e", 0): [1, 2], ("p", 0): [2, 3]},
                 ops={1: ("Hadamard", ("e", 0)), 2: ("CNOT", ("e", 0), ("p", 0)), 3: ("Hadamard", ("p", 0))}),
    "two-cnots": dict(wires={("e", 0): [1, 2, 4], ("e", 1): [3, 4], ("p", 0): [2, 5]},
                      ops={1: ("Hadamard", ("e", 0)), 2: ("CNOT", ("e", 0), ("p", 0)), 3: ("Phase", ("e", 1)),
                           4: ("CNOT", ("e", 1), ("e", 0)), 5: ("SigmaX", ("p", 0))}),
}


class HistTask:
    """steps: ('q', node) | ('rm', node) | ('ins', class, (t, r), position on the wire) | ('reg', t) | ('all',)"""

    def __init__(self, shape, steps, label, timeout_ms=10000):
        self.qual = Q_MD
        self.shape, self.steps, self.label = shape, steps, f"depth-history[{label}]"
        self.contract = Contract(Q_MD, clause="every depth query equals the recursion on the graph as it is at that moment (H4: query - "
                                              "edit - query; no state survives an edit)")
        self.timeout_ms = timeout_ms

    def run(self):
        eng = Engine(self.timeout_ms)
        C = D.contracts()
        C.update(RW.wrapper_contracts())
        sh = SHAPES[self.shape]

        def harness(path):
            hooks = SG.install({"instantiate": CS.abstract_noise_instantiate, "loop": RW.live_list_loop([])})
            inline = set(RW.INLINE) | {Q_MD, Q_CRD, Q_CARD}
            I = Interp(path, C, inline, hooks)
            I.task_name = self.label
            I.stack.append(Frame(CDAG, {}, self.label))
            sc = RW.Sc(I)
            nregs = {t: 1 + max([r for (t2, r) in sh["wires"] if t2 == t], default=-1) for t in "epc"}
            for t in "epc":
                path.assume(sc.n[t] == nregs[t])
            sc.c.fields["_node_id"] = max(sh["ops"])
            sc.c.fields["_register_depth"] = {t: [0] * nregs[t] for t in "epc"}
            opobj = {}
            for n, spec in sh["ops"].items():
                if len(spec) == 2:
                    opobj[n] = sc.op(spec[0], spec[1][0], spec[1][1])
                else:
                    opobj[n] = sc.op2(spec[0], spec[1][0], spec[1][1], spec[2][0], spec[2][1])
                sc.put(n, opobj[n])
            for (t, r), nodes in sh["wires"].items():
                i_, o_ = sc.ends(t, r)
                sc.chain(t, r, [i_] + list(nodes) + [o_])
            done = complete_from_init(I, sc.c)
            inputs = sc.c.fields["node_dict"]["Input"]
            cls = I.get_class(CDAG, "CircuitDAG")

            def call(name, *args):
                m, node, _ = source.find(f"{CDAG}:CircuitDAG.{name}")
                return I.call_function(FuncRef(m.name, node, f"{CDAG}:CircuitDAG.{name}", cls), [sc.c] + list(args), {}, force_body=True)

            def wire_nodes(t, r):
                out, cur = [], D.in_node(t, r)
                while True:
                    out.append(cur)
                    nx_ = [e for e in sc.g.edges if SG.decide_eq(I, e[0], cur) and SG.decide_eq(I, e[2], D.key(t, r))]
                    if not nx_:
                        return out
                    cur = nx_[0][1]

            nq = 0
            try:
                for st in self.steps:
                    if st[0] == "q":
                        nq += 1
                        got = call("_max_depth", st[1])
                        want = frag_depth(I, sc.g, inputs, st[1])
                        path.oblige(f"{self.label}:query#{nq}.equals-recursion-on-the-current-graph", to_z3(got) == want)
                        if not (concrete_int(got) == want):
                            eng.results[f"{self.label}:query#{nq}.equals-recursion-on-the-current-graph"].detail = (
                                f"_max_depth({st[1]!r}) returned {got}; the recursion on the current graph gives {want}; history {self.steps}")
                    elif st[0] == "reg":
                        nq += 1
                        got = call("calculate_reg_depth", st[1])
                        want = [frag_depth(I, sc.g, inputs, D.out_node(st[1], r)) for r in range(nregs[st[1]])]
                        ok = isinstance(got, list) and [concrete_int(x) for x in got] == want
                        _record(eng, f"{self.label}:query#{nq}.equals-recursion-on-the-current-graph", "discharged" if ok else "refuted",
                                "" if ok else f"calculate_reg_depth({st[1]!r}) returned {got}; current graph gives {want}; history {self.steps}")
                    elif st[0] == "all":
                        nq += 1
                        got = call("calculate_all_reg_depth")
                        want = {t: [frag_depth(I, sc.g, inputs, D.out_node(t, r)) for r in range(nregs[t])] for t in "epc"}
                        ok = isinstance(got, dict) and {k: [concrete_int(x) for x in v] for k, v in got.items()} == want
                        _record(eng, f"{self.label}:query#{nq}.equals-recursion-on-the-current-graph", "discharged" if ok else "refuted",
                                "" if ok else f"calculate_all_reg_depth() returned {got}; current graph gives {want}; history {self.steps}")
                    elif st[0] == "rm":
                        call("remove_op", st[1])
                    elif st[0] == "ins":
                        t, r = st[2]
                        wn = wire_nodes(t, r)
                        u, v = wn[st[3]], wn[st[3] + 1]
                        call("insert_at", sc.op(st[1], t, r), [(u, v, D.key(t, r))])
            except RaiseEx as e:
                _record(eng, f"{self.label}:no-raise", "refuted", f"real code raises {e.exc_name}: {e.msg} in history {self.steps}")
                return
            _record(eng, f"{self.label}:no-raise", "discharged")

        try:
            explore(eng, harness)
        except Undecided as u:
            _record(eng, f"{self.label}:supported-subset", "undecided", f"{u}")
        for r in eng.results.values():
            r.witness, r.replayed = None, False
        if any(r.status == "refuted" for r in eng.results.values()):
            try:
                wit, ok = native_history(self.shape, self.steps)
            except Exception as e:  # noqa: BLE001
                wit, ok = {"replay_error": f"{type(e).__name__}: {e}"}, False
            for r in eng.results.values():
                if r.status == "refuted":
                    r.witness, r.replayed = wit, ok
        return eng


def native_history(shape, steps):
    """the same history on a REAL CircuitDAG (operations added with add() in id order, so the node ids coincide); every query is
    compared with the recursion evaluated from the real graph's edges -> (witness, reproduced?)"""
    import importlib

    ops = importlib.import_module(OPS)
    dag = importlib.import_module(CDAG)
    sh = SHAPES[shape]
    nregs = {t: 1 + max([r for (t2, r) in sh["wires"] if t2 == t], default=-1) for t in "epc"}
    c = dag.CircuitDAG(n_emitter=nregs["e"], n_photon=nregs["p"], n_classical=nregs["c"])
    for n in sorted(sh["ops"]):
        sp = sh["ops"][n]
        if len(sp) == 2:
            c.add(getattr(ops, sp[0])(register=sp[1][1], reg_type=sp[1][0]))
        else:
            c.add(getattr(ops, sp[0])(control=sp[1][1], control_type=sp[1][0], target=sp[2][1], target_type=sp[2][0]))

    def rec(n):
        if n in c.node_dict["Input"]:
            return -1
        return 1 + max(rec(u) for u, _ in c.dag.in_edges(n))

    fails = []
    try:
        for k_, st in enumerate(steps):
            if st[0] == "q":
                got, want = c._max_depth(st[1]), rec(st[1])
            elif st[0] == "reg":
                got = list(c.calculate_reg_depth(st[1]))
                want = [rec(f"{st[1]}{r}_out") for r in range(nregs[st[1]])]
            elif st[0] == "all":
                got = {t: list(v) for t, v in c.calculate_all_reg_depth().items()}
                want = {t: [rec(f"{t}{r}_out") for r in range(nregs[t])] for t in "epc"}
            elif st[0] == "rm":
                c.remove_op(st[1])
                continue
            else:
                t, r = st[2]
                _, wn = c.reg_gate_history(r, t)
                c.insert_at(getattr(ops, st[1])(register=r, reg_type=t), [(wn[st[3]], wn[st[3] + 1], f"{t}{r}")])
                continue
            if got != want:
                fails.append(f"step {k_} {st}: returned {got}, the recursion on the current graph gives {want}")
    except Exception as e:  # noqa: BLE001
        fails.append(f"{type(e).__name__}: {e}")
    return {"circuit": f"shape {shape}: {sh['ops']}", "history": [list(x) for x in steps], "failures": fails[:6]}, bool(fails)


def history_tasks():
    return [
        HistTask("one-wire", [("q", "e0_out"), ("rm", 2), ("q", "e0_out"), ("rm", 1), ("q", "e0_out"), ("q", 3), ("rm", 3), ("q", "e0_out")],
                 "one wire - query, remove, query, ..."),
        HistTask("one-wire", [("reg", "e"), ("rm", 2), ("reg", "e"), ("ins", "SigmaX", ("e", 0), 0), ("reg", "e"), ("all",)],
                 "one wire - calculate_reg_depth around remove and insert"),
        HistTask("cnot", [("q", "p0_out"), ("q", "e0_out"), ("rm", 1), ("q", "p0_out"), ("q", 3), ("q", "e0_out"), ("rm", 3), ("q", "p0_out")],
                 "cnot - removing an emitter gate shortens the depth of the photon"),
        HistTask("cnot", [("all",), ("rm", 1), ("all",), ("ins", "Hadamard", ("p", 0), 0), ("all",), ("rm", 2), ("all",)],
                 "cnot - register depths around remove, insert, remove"),
        HistTask("two-cnots", [("q", "e0_out"), ("q", "p0_out"), ("rm", 3), ("q", "e0_out"), ("rm", 1), ("q", "e0_out"), ("q", "p0_out"),
                               ("rm", 2), ("q", "p0_out"), ("q", "e0_out")], "two cnots - removals on three wires"),
        HistTask("two-cnots", [("q", 4), ("ins", "Phase", ("e", 1), 0), ("q", 4), ("rm", 6), ("q", 4), ("rm", 3), ("q", 4)],
                 "two cnots - insert then remove the inserted node"),
    ]


# =============================================================================================
# calculate_reg_depth for a symbolic number of registers
# =============================================================================================
class DepthList:
    """the list _register_depth[t]: symbolic length, contents = closure; remembers item writes / reads"""

    def __init__(self, t, length):
        self.t, self.length = t, length
        self.f = lambda j: z3.Int(f"old_depth_{t}")  # contents before the call are irrelevant
        self.writes, self.reads = [], 0


def _dl_hooks(hooks, pointwise):
    sg_len, sg_get = hooks.get("len"), hooks.get("getitem")

    def h_len(I, x):
        if isinstance(x, DepthList):
            return x.length
        return sg_len(I, x) if sg_len else None

    def h_setitem(I, obj, key, v):
        if isinstance(obj, DepthList):
            obj.writes.append((key, v))
            I.note_write(obj, "item")
            return True
        return False

    def h_getitem(I, obj, key):
        if isinstance(obj, DepthList):
            obj.reads += 1
            raise Undecided("the loop body reads the contents of the depth list (rule L-range-pointwise does not apply)")
        return sg_get(I, obj, key) if sg_get else None

    def h_loop(I, node, it):
        if isinstance(it, Opaque) and it.tag == "range" and len(it.payload) in (1, 2):
            # L-range-pointwise: one execution of the body for an arbitrary index
            lo = to_z3(it.payload[0]) if len(it.payload) == 2 else z3.IntVal(0)
            N = to_z3(it.payload[-1])
            k = I.path.fresh("k_iter")
            ent = dict(k=k, N=N, lo=lo, line=ast.unparse(node.iter), ran=False)
            pointwise.append(ent)
            if not I.path.decide(N > lo):
                return True
            ent["ran"] = True
            I.path.assume(z3.And(k >= lo, k < N))
            I.assign(node.target, k)
            I.exec_block(node.body)
            return True
        return False

    hooks.update({"len": h_len, "setitem": h_setitem, "getitem": h_getitem, "loop": h_loop})
    return hooks


def _md_out_contract():
    def spec(I, slf, node):
        I.path.trace.append({"name": "_max_depth", "args": [node]})
        if isinstance(node, SG.Templ) and len(node.args) == 1 and node.lits[1] == "_out" and node.lits[0] in DOUT:
            return DOUT[node.lits[0]](to_z3(node.args[0]))
        return z3.Int("depth_of_an_unexpected_node")

    return Contract(Q_MD, spec=spec, clause="[_max_depth's own contract] depth of a node in the current graph")


class RegDepthTask:
    def __init__(self, t, label=None, which="out", known=True, timeout_ms=10000):
        self.qual = Q_CRD
        self.t, self.which, self.known = t, which, known
        self.label = label or f"calculate_reg_depth[{t if known else 'unknown register type'}; symbolic number of registers]"
        self.contract = Contract(Q_CRD, clause="entry i of _register_depth[t] := depth of `{t}{i}_out` in the current graph for every register i; "
                                               "returns that list; nothing else written; unknown type -> ValueError")
        self.timeout_ms = timeout_ms

    def run(self):
        eng = Engine(self.timeout_ms)
        m, node, cls = source.find(self.qual)
        C = D.contracts()
        C[Q_MD] = _md_out_contract()

        def harness(path):
            pw = []
            hooks = _dl_hooks(SG.install({"instantiate": CS.abstract_noise_instantiate}), pw)
            I = Interp(path, C, set(D.INLINE), hooks)
            I.task_name = self.qual
            f = FuncRef(m.name, node, self.qual, I.get_class(m.name, cls.name))
            I.stack.append(Frame(m.name, {}, self.label))
            sc = RW.Sc(I)
            lists = {t: DepthList(t, sc.n[t]) for t in "epc"}
            sc.c.fields["_register_depth"] = dict(lists)
            fields = watch(sc)
            path.trace, I.writes = [], []
            fields.on = True
            try:
                ret = I.call_function(f, [sc.c, self.t if self.known else "x"], {}, force_body=True)
            except RaiseEx as e:
                ok = (not self.known) and e.exc_name == "ValueError"
                _record(eng, f"{self.label}:no-raise", "discharged" if ok else "refuted", "" if ok else f"real body raises {e.exc_name}: {e.msg}")
                return
            finally:
                fields.on = False
            _record(eng, f"{self.label}:no-raise", "discharged" if self.known else "refuted", "" if self.known else "expected ValueError")
            if not self.known:
                return
            L = lists[self.t]
            _record(eng, f"{self.label}:post.returns-the-depth-list-of-the-register-type", "discharged" if ret is L else "refuted", repr(ret))
            frame_obligations(I, eng, self.label, sc, fields, {"_register_depth"}, allowed_write=lambda w: w[0] is L and w[1] == "item")
            for t2 in "epc":
                if t2 != self.t:
                    _record(eng, f"{self.label}:post.frame.depth-list[{t2}]-untouched", "discharged" if not lists[t2].writes else "refuted")
            one = len(pw) == 1
            _record(eng, f"{self.label}:loop.one-loop-over-all-registers", "discharged" if one else "refuted", str([p["line"] for p in pw]))
            if not one:
                return
            k, N = pw[0]["k"], pw[0]["N"]
            path.oblige(f"{self.label}:loop.runs-over-all-registers-0..n-1", z3.And(pw[0]["lo"] == 0, N == sc.n[self.t]))
            if not pw[0]["ran"]:
                _record(eng, f"{self.label}:loop.no-register-no-write", "discharged" if not L.writes else "refuted", str(L.writes))
                return
            ok = len(L.writes) == 1
            _record(eng, f"{self.label}:loop.body-writes-exactly-one-entry", "discharged" if ok else "refuted", str(L.writes))
            if ok:
                key, val = L.writes[0]
                path.oblige(f"{self.label}:loop.body-writes-entry-i", to_z3(key) == k)
                want = {"out": DOUT[self.t](k), "out+1": DOUT[self.t](k) + 1}[self.which]
                path.oblige(f"{self.label}:post.entry-i-is-the-depth-of-the-out-node-of-register-i", to_z3(val) == want)
                calls = [e for e in path.trace if e["name"] == "_max_depth"]
                okc = len(calls) == 1 and SG.decide_eq(I, calls[0]["args"][0], D.out_node(self.t, k))
                _record(eng, f"{self.label}:loop.one-depth-query-on-the-out-node-of-register-i", "discharged" if okc else "refuted",
                        str([c_["args"] for c_ in calls]))

        try:
            explore(eng, harness)
        except Undecided as u:
            _record(eng, f"{self.label}:supported-subset", "undecided", f"{u}")
        for r in eng.results.values():
            r.witness, r.replayed = None, False
        return eng


class AllRegDepthTask:
    def __init__(self, qual, label, prop=False, order=("e", "p", "c")):
        self.qual, self.label, self.prop, self.order = qual, label, prop, order
        self.contract = Contract(qual, clause="calculate_reg_depth is called once for each of e, p, c; the result is a new dict with the three depth lists")
        self.timeout_ms = 10000

    def run(self):
        eng = Engine(self.timeout_ms)
        C = D.contracts()
        holder = {}
        C[Q_CRD] = recorder(Q_CRD, "calculate_reg_depth", result=lambda I, slf, reg_type: holder["lists"].get(reg_type))

        def harness(path):
            hooks = SG.install({"instantiate": CS.abstract_noise_instantiate, "loop": RW.live_list_loop([])})
            I = Interp(path, C, set(D.INLINE) | {Q_CARD}, hooks)
            I.task_name = self.qual
            I.stack.append(Frame(CDAG, {}, self.label))
            sc = RW.Sc(I)
            lists = {t: DepthList(t, sc.n[t]) for t in "epc"}
            holder["lists"] = lists
            rd = dict(lists)
            sc.c.fields["_register_depth"] = rd
            fields = watch(sc)
            path.trace, I.writes = [], []
            fields.on = True
            try:
                if self.prop:
                    ret = I.getattr(sc.c, "register_depth")
                else:
                    m, node, cls = source.find(self.qual)
                    ret = I.call_function(FuncRef(m.name, node, self.qual, I.get_class(m.name, cls.name)), [sc.c], {}, force_body=True)
            except RaiseEx as e:
                _record(eng, f"{self.label}:no-raise", "refuted", f"real body raises {e.exc_name}: {e.msg}")
                return
            finally:
                fields.on = False
            _record(eng, f"{self.label}:no-raise", "discharged")
            calls = [e["args"][0] for e in path.trace if e["name"] == "calculate_reg_depth"]
            ok = sorted(calls) == sorted(self.order)
            _record(eng, f"{self.label}:post.calculate_reg_depth-called-once-per-register-type", "discharged" if ok else "refuted", str(calls))
            ok = isinstance(ret, dict) and ret is not rd and set(ret) == set("epc") and all(ret[t] is lists[t] for t in "epc")
            _record(eng, f"{self.label}:post.returns-a-new-dict-with-the-three-depth-lists", "discharged" if ok else "refuted", repr(ret))
            frame_obligations(I, eng, self.label, sc, fields, {"_register_depth"})

        try:
            explore(eng, harness)
        except Undecided as u:
            _record(eng, f"{self.label}:supported-subset", "undecided", f"{u}")
        for r in eng.results.values():
            r.witness, r.replayed = None, False
        return eng


def reg_depth_tasks():
    return ([RegDepthTask(t) for t in "epc"] + [RegDepthTask("e", known=False)]
            + [AllRegDepthTask(Q_CARD, "calculate_all_reg_depth"), AllRegDepthTask(Q_RD, "register_depth", prop=True)])


# =============================================================================================
# reg_gate_history: the wire of a register, in order (used by the three emitter-depth metrics)
# =============================================================================================
Q_RGH = f"{CDAG}:CircuitDAG.reg_gate_history"
RGH_CLAUSE = ("returns (operations, nodes) of the wire of (reg_type, reg) from its in node to its out node in wire order - at a two-qubit node "
              "the walk follows the edge of THIS register (same number AND same type); the circuit is not modified")


def _rgh_two_qubit(sc, I, node, t, r, other, tag):
    late = other.endswith("-late")
    other = other.replace("-late", "")
    """CNOT node on wire (t, r) whose second wire is `other`: 'same-type' (type t, another register) or 'same-number' (the other
    type, the SAME register number r)"""
    t2 = t if other == "same-type" else ("p" if t == "e" else "e")
    if other == "same-type":
        r2 = sc.reg(f"r2_{tag}", t2)
        I.path.assume(r2 != r)
    else:
        r2 = r
        I.path.assume(r < sc.n[t2])
    x, y = sc.ids(f"x_{tag}", f"y_{tag}")
    sc.unknown(x)
    sc.unknown(y)
    sc.put(node, sc.op2("CNOT", t2, r2, t, r))
    if late:  # the other wire is listed AFTER this wire among the node's edges (the caller links this wire first)
        sc.late = getattr(sc, "late", []) + [(x, node, t2, r2), (node, y, t2, r2)]
    else:  # ... BEFORE this wire
        sc.link(x, node, t2, r2)
        sc.link(node, y, t2, r2)
    return [(x, node, D.key(t2, r2), r2, t2), (node, y, D.key(t2, r2), r2, t2)]


def _rgh_task(t, kinds, label=None, wrong=False):
    def scenario(I):
        sc = RW.Sc(I)
        r = sc.reg("r", t)
        i_, o_ = sc.ends(t, r)
        nodes, sc.extra = [], []
        for q, k in enumerate(kinds):
            n = sc.ids(f"n{q}")
            if k == "g":
                sc.put(n, sc.op("Hadamard", t, r))
            else:
                sc.extra += _rgh_two_qubit(sc, I, n, t, r, k, str(q))
            nodes.append(n)
        sc.chain(t, r, [i_] + nodes + [o_])
        for (u_, v_, t2, r2) in getattr(sc, "late", []):
            sc.link(u_, v_, t2, r2)
        sc.order = [i_] + nodes + [o_]
        sc.t, sc.r = t, r
        sc.fields_log = watch(sc)
        sc.fields_log.on = True
        return sc, [r, t]

    def check(I, sc, ret, Pp):
        sc.fields_log.on = False
        ok = isinstance(ret, tuple) and len(ret) == 2 and isinstance(ret[0], list) and isinstance(ret[1], list)
        Pp.ob("returns-a-pair-of-lists", ok, repr(ret))
        if not ok:
            return
        want = list(reversed(sc.order)) if wrong else sc.order
        Pp.list_is("nodes-are-the-wire-in-order", ret[1], want)
        opsw = [sc.g._find_node(I, n)[1]["op"] for n in want]
        Pp.ob("operations-are-those-of-the-nodes", len(ret[0]) == len(opsw) and all(a is b for a, b in zip(ret[0], opsw)), repr(ret[0]))
        frame_obligations(I, I.path.engine, Pp.label, sc, sc.fields_log, {"dag"})

    lab = label or f"reg_gate_history[{t}; wire {','.join(kinds) or 'empty'}]"
    return RW.RWTask(Q_RGH, scenario, check, lab, clause=RGH_CLAUSE)


RGH_PREFIX = "nodes-of-the-wire-visited-before"


def _rgh_step(t, kind):
    """induction step of `while next_node != out`: Inv: ordered_nodes = PREFIX + [n], next_node = n on the wire of (t, r), n not the out
    node; the REAL body appends n's successor ON THIS WIRE and moves there"""

    def scenario(I):
        sc = RW.Sc(I)
        r = sc.reg("r", t)
        n, s_ = sc.ids("n", "s")
        sc.unknown(s_)
        sc.extra = []
        if kind == "g":
            sc.put(n, sc.op("Hadamard", t, r))
        elif kind == "in":
            n = D.in_node(t, r)
            sc.g.nodes.append([n, {"op": sc.op("Input", t, r), "reg": r}])
            sc.g.closed.append(n)
        else:
            sc.extra = _rgh_two_qubit(sc, I, n, t, r, kind, "n")
        if kind != "in":
            p = sc.ids("p")
            sc.unknown(p)
            sc.link(p, n, t, r)
            sc.extra.append((p, n, D.key(t, r), r, t))
        sc.link(n, s_, t, r)
        for (u_, v_, t2, r2) in getattr(sc, "late", []):
            sc.link(u_, v_, t2, r2)
        tok = Opaque(RGH_PREFIX)
        sc.lst = [tok, n]
        sc.tok, sc.nn, sc.s, sc.t, sc.r = tok, n, s_, t, r
        return sc, {"next_node": n, "ordered_nodes": sc.lst, "reg": r, "reg_type": t}

    def check(I, sc, env, Pp):
        Pp.ob("Inv.next_node-is-the-successor-on-this-wire", SG.eq_term(I, env.get("next_node"), sc.s))
        lst = env.get("ordered_nodes")
        ok = lst is sc.lst and len(lst) == 3 and lst[0] is sc.tok
        Pp.ob("Inv.ordered_nodes-extended-by-one", ok, repr(lst))
        if ok:
            Pp.ob("Inv.ordered_nodes[-2]-is-the-node", SG.eq_term(I, lst[1], sc.nn))
            Pp.ob("Inv.ordered_nodes[-1]-is-the-successor-on-this-wire", SG.eq_term(I, lst[2], sc.s))
        Pp.ob("graph-untouched", not sc.g.log, str(sc.g.log))

    return RW.RWTask(Q_RGH, scenario, check, f"reg_gate_history.step[walk at {kind},{t}]", loop_body=RW.find_loop("while"),
                     clause="induction step of the wire walk: the next node is the target of the out edge with this register's number and type")


def reg_gate_history_tasks():
    T = []
    for t in "ep":
        for kinds in ([], ["g"], ["g", "g"], ["same-type"], ["same-number"], ["g", "same-number", "g"], ["same-type", "same-number"],
                      ["same-type-late"], ["same-number-late", "g"]):
            T.append(_rgh_task(t, kinds))
        for k in ("g", "in", "same-type", "same-number", "same-type-late", "same-number-late"):
            T.append(_rgh_step(t, k))
    return T


# =============================================================================================
# lemma: the recursion is the definition
# =============================================================================================
def depth_lemmas():
    from lemmas.symplectic import _ob

    out = []
    lev = z3.Function("level", z3.IntSort(), z3.IntSort())  # level of refsem/metrics.py, extended by level(Input) = 0
    for m_ in (1, 2, 3):
        ps = z3.Ints(" ".join(f"p{i}" for i in range(m_)))
        n = z3.Int("n")

        def mx(f):
            r = f(ps[0])
            for p in ps[1:]:
                r = z3.If(f(p) > r, f(p), r)
            return r

        asm = [DEP(p) == lev(p) - 1 for p in ps] + [DEP(n) == 1 + mx(DEP), lev(n) == 1 + mx(lev)]
        out.append(_ob(f"L2.depth.recursion-is-level-minus-one[{m_} predecessors]", Q_MD, asm, DEP(n) == lev(n) - 1,
                       "induction step: DEP(n) = level(n) - 1 for operation nodes (level(Input) := 0, DEP(Input) = -1)"))
    last, o = z3.Ints("last o")
    out.append(_ob("L2.depth.register-depth-is-the-level-of-the-last-operation", Q_CRD, [DEP(last) == lev(last) - 1, DEP(o) == 1 + DEP(last)],
                   DEP(o) == lev(last), "the out node has one incoming edge, from the last operation on the wire (or the input: level 0)"))
    return out


def lemma_canaries():
    """wrong lemma: DEP(n) = level(n) (off by one) - must be refuted; and the lemma's assumptions are consistent"""
    from lemmas.symplectic import _ob

    lev = z3.Function("level", z3.IntSort(), z3.IntSort())
    p, n = z3.Ints("p0 n")
    asm = [DEP(p) == lev(p) - 1, DEP(n) == 1 + DEP(p), lev(n) == 1 + lev(p)]
    c1 = _ob("c", Q_MD, asm, DEP(n) == lev(n), "", timeout=5000)
    c2 = _ob("c", Q_MD, asm, z3.BoolVal(False), "", timeout=5000)
    return [{"name": "canary.L2.depth.recursion-is-level(off by one)", "function": Q_MD, "refuted": c1.status == "refuted", "replayed": False},
            {"name": "canary.L2.depth.assumptions-consistent(False not provable)", "function": Q_MD, "refuted": c2.status == "refuted",
             "replayed": False}]


# =============================================================================================
# canaries
# =============================================================================================
def canary_tasks():
    return [MDTask("op", ["op", "in"], label="canary._max_depth.maximum-without-plus-one", expect="max"),
            RegDepthTask("e", label="canary.calculate_reg_depth.entry-is-depth-plus-one", which="out+1"),
            _rgh_task("e", ["g", "same-number"], label="canary.reg_gate_history.wire-in-reverse-order", wrong=True)]


def tasks():
    return max_depth_tasks() + history_tasks() + reg_depth_tasks() + reg_gate_history_tasks()
