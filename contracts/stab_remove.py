"""Sidecar contracts for clifford.remove_qubit / tensor / partial_trace (CliffordTableau shrinking and growing), C07.

remove_qubit(T, q, mode)  =  Z-measure qubit q (contract of z_measurement_gate), then DISCARD it:
   * every generator that survives is restricted to the other qubits; if the measured qubit is left in |1> (outcome 1) a
     generator carrying Z on it acts on the rest with the opposite sign:       r'_i = r_i xor (outcome * z[i,q]);
   * random outcome (pivot p): the pair (destabilizer p-n, stabilizer p = +/-Z_q) is dropped;
   * deterministic outcome: +/-Z_q is already in the stabilizer group.  With `omit` the FIRST destabilizer that anticommutes
     with Z_q, every other destabilizer d that anticommutes with Z_q is replaced by d (+) omit (rowsum phase rule) - so that it
     commutes with Z_q - and the pair (destabilizer omit, stabilizer omit+n) is dropped.  The remaining stabilizer rows together
     with Z_q generate the old group (Z_q = product of the stabilizers whose destabilizer anticommutes with it), so the state of
     the other qubits is the post-measurement state with qubit q discarded;
   * the result has n-1 qubits: rows/columns keep their order, columns q and q+n are gone.
Assumption [T-basis] (linear algebra, not derived here): in a valid (symplectic) tableau, if no stabilizer row anticommutes with Z_q
then some destabilizer row does.  It is supplied to the function's own task as an input assumption (the `assert len(non_zero) > 0`
of the real code is an obligation proved from it) and makes `omit` well defined in the spec.
"""
from __future__ import annotations

import z3

from pyvc.contract import Contract
from pyvc.loops import SeqLoop
from pyvc.values import new_array, to_z3
from .common import CLIFF, idx_in
from .stab_gates import _tab_parts, g_term
from .stab_clifford import _zmeas_spec, _rs_phase, _havoc_store, spec_sum, zmeas_choices

C = {}
REMOVE = f"{CLIFF}:remove_qubit"


def GSR():
    """GSR(i, m) = sum_{j<m} g(row omit, row i) of the tableau after the measurement (recursive spec function)"""
    return z3.Function("GSR_rm", z3.IntSort(), z3.IntSort(), z3.IntSort())


def _old_index(a, b):
    """index map of np.delete(..., [a, b]) for a < b: new index -> old index"""
    return lambda k: z3.If(k < a, k, z3.If(k + 1 < b, k + 1, k + 2))


def _first_hit(path, rt, n_, q_):
    """the least destabilizer index whose X part has a 1 in column q (exists by [T-basis]; least element of a non-empty set)"""
    from pyvc.values import concrete_int

    cn = concrete_int(n_)
    if cn is not None:  # concrete tableau (replay): compute it
        for k in range(cn):
            v = z3.simplify(rt(z3.IntVal(k), q_) != 0)
            if z3.is_true(v):
                return z3.IntVal(k)
            if not z3.is_false(v):
                break
    omit = path.fresh("omit")
    kq = z3.Int(f"kq_omit!{path.counter.get('kq', 0)}")
    path.counter["kq"] = path.counter.get("kq", 0) + 1
    path.assume(z3.And(omit >= 0, omit < n_, rt(omit, q_) != 0,
                       z3.ForAll([kq], z3.Implies(z3.And(kq >= 0, kq < omit), rt(kq, q_) == 0))))
    return omit


def _remove_extract(I, ret):
    if I is None:
        raise ValueError("remove_qubit does not return the measurement's choices; concrete replay needs the body")
    return I.path.ghost["zmeas_calls"][-1]


def _remove_spec(I, T, q, mode="probabilistic"):
    n = T.fields["n_qubits"]
    n_, q_ = to_z3(n), to_z3(q)
    olds = [T.fields["_table"].store, T.fields["_phase"].store, T.fields["_iphase"].store]
    T, outcome, p = _zmeas_spec(I, T, q, mode)
    tab, ph, _ = _tab_parts(T)
    ip = T.fields["_iphase"]
    rt, rp, ri = tab.reader(), ph.reader(), ip.reader()
    o = to_z3(outcome)

    def rp1(i):  # sign after accounting for the discarded qubit's eigenvalue
        return z3.If(o == 1, (rp(i) + rt(i, q_ + n_)) % 2, rp(i))

    if not (isinstance(p, int) and p == 0):
        ra, rb = to_z3(p) - n_, to_z3(p)
        bt, br, bi = rt, rp1, ri
    else:
        omit = _first_hit(I.path, rt, n_, q_)
        ra, rb = omit, omit + n_
        Gs = spec_sum(I, GSR(), n, lambda i, j: g_term(rt(omit, j), rt(omit, n_ + j), rt(i, j), rt(i, n_ + j)))

        def hit(i):
            return z3.And(i >= 0, i < n_, i != omit, rt(i, q_) != 0)

        def rs(i):
            return _rs_phase(rp1(i), ri(i), rp1(omit), ri(omit), Gs(i))

        bt = lambda i, j: z3.If(hit(i), (rt(i, j) + rt(omit, j)) % 2, rt(i, j))
        br = lambda i: z3.If(hit(i), rs(i)[0], rp1(i))
        bi = lambda i: z3.If(hit(i), rs(i)[1], ri(i))
    orow, ocol = _old_index(ra, rb), _old_index(q_, q_ + n_)
    m = n_ - 1
    T.fields["_table"] = new_array((2 * m, 2 * m), lambda i, j: bt(orow(i), ocol(j)), "table'")
    T.fields["_phase"] = new_array((2 * m,), lambda i: br(orow(i)), "phase'")
    T.fields["_iphase"] = new_array((2 * m,), lambda i: bi(orow(i)), "iphase'")
    T.fields["n_qubits"] = z3.simplify(m) if not isinstance(n, int) else n - 1
    mm = T.fields["n_qubits"]
    T.fields["shape"] = (2 * mm, 2 * mm)
    for s_ in olds:
        _havoc_store(s_)
    return T


C[REMOVE] = Contract(REMOVE, requires=lambda I, T, q, mode="probabilistic": z3.And(idx_in(q, T.fields["n_qubits"])),
                     spec=_remove_spec, extract=_remove_extract, choices=zmeas_choices,
                     clause="remove_qubit = Z-measure the qubit, then discard it: surviving generators restricted to the other qubits, "
                            "sign flipped where they carried Z on a qubit left in |1>; n-1 qubits remain in their order")


# ---- loop contract:  for row in non_zero[1:]: rowsum(omit_index -> row) through the tableau's property setters -----------------
def _rm_setup(I, entry, it):
    path = I.path
    T = entry["tableau"]
    tab, ph, ip = T.fields["_table"], T.fields["_phase"], T.fields["_iphase"]
    path.ghost["rm"] = dict(t0=tab.reader(), r0=ph.reader(), i0=ip.reader(), seq=it, T=T)


def _rm_state(I, k, entry):
    g = I.path.ghost["rm"]
    t0, r0, i0, seq, T = g["t0"], g["r0"], g["i0"], g["seq"], g["T"]
    n_ = to_z3(entry["n_qubits"])
    q_ = to_z3(entry["qubit_position"])
    omit = to_z3(entry["omit_index"])
    G = GSR()
    CNT = I.path.ghost["comp_filters"][-1]["CNT"]  # position of destabilizer i in the comprehension's list (filter theory)

    def done(i):  # row i is one of the first k rows of non_zero[1:]  (non_zero[0] is omit itself)
        return z3.And(i >= 0, i < n_, t0(i, q_) != 0, CNT(i) >= 1, CNT(i) - 1 < k)

    def rs(i):
        return _rs_phase(r0(i), i0(i), r0(omit), i0(omit), G(i, n_))

    return {
        T.fields["_table"]: lambda i, j: z3.If(done(i), (t0(i, j) + t0(omit, j)) % 2, t0(i, j)),
        ("field", T, "_phase"): lambda i: z3.If(done(i), rs(i)[0], r0(i)),
        ("field", T, "_iphase"): lambda i: z3.If(done(i), rs(i)[1], i0(i)),
    }


def _rm_after(I, k, entry):
    from lemmas.sums import apply_sum_ext

    path = I.path
    rec = path.ghost["rowsum_calls"][-1]
    g = path.ghost["rm"]
    t0 = g["t0"]
    n_ = to_z3(entry["n_qubits"])
    omit = to_z3(entry["omit_index"])
    rx, rz, a, t = rec["rx"], rec["rz"], rec["a"], rec["t"]
    apply_sum_ext(I, "remove_qubit:loop(row).lemma.sum_ext.premise", rec["GS"](n_), GSR()(t, n_),
                  lambda j: g_term(rx(a, j), rz(a, j), rx(t, j), rz(t, j)),
                  lambda j: g_term(t0(omit, j), t0(omit, n_ + j), t0(t, j), t0(t, n_ + j)), n_)


REMOVE_LOOPS = [SeqLoop("remove_qubit", "row", "non_zero", state=_rm_state, setup=_rm_setup, after_body=_rm_after)]


def basis_assumption(T, q):
    """[T-basis] as a formula over the INPUT tableau (before the measurement): no anticommuting stabilizer row => some
    anticommuting destabilizer row"""
    tab = T.fields["_table"]
    n_ = to_z3(T.fields["n_qubits"])
    q_ = to_z3(q)
    s, d = z3.Ints("tb_s tb_d")
    return z3.Implies(z3.ForAll([s], z3.Implies(z3.And(s >= n_, s < 2 * n_), tab.get(s, q_) == 0)),
                      z3.Exists([d], z3.And(d >= 0, d < n_, tab.get(d, q_) != 0)))


# ------------------------------------------------------------------------------------------ tensor
TENSOR = f"{CLIFF}:tensor"


def _tensor2(A, B):
    """A (x) B written into A: generators of A act on the first nA qubits, those of B on the last nB, every sign stays with its
    generator; destabilizers (A then B) above stabilizers (A then B)"""
    ta, pa, na = _tab_parts(A)
    tb, pb, nb = _tab_parts(B)
    ia, ib = A.fields["_iphase"], B.fields["_iphase"]
    rta, rtb, rpa, rpb, ria, rib = ta.reader(), tb.reader(), pa.reader(), pb.reader(), ia.reader(), ib.reader()
    na_, nb_ = to_z3(na), to_z3(nb)
    N = na_ + nb_

    def split(i):  # new row/column index -> (belongs to A?, index in A, index in B)
        inA = z3.Or(i < na_, z3.And(i >= N, i < N + na_))
        ka = z3.If(i < na_, i, i - N + na_)
        kb = z3.If(i < N, i - na_, i - N - na_ + nb_)
        return inA, ka, kb

    def tab(i, j):
        ra, ia_, ib_ = split(i)
        ca, ja, jb = split(j)
        return z3.If(z3.And(ra, ca), rta(ia_, ja), z3.If(z3.And(z3.Not(ra), z3.Not(ca)), rtb(ib_, jb), z3.IntVal(0)))

    def vec(fa, fb):
        def f(i):
            ra, ia_, ib_ = split(i)
            return z3.If(ra, fa(ia_), fb(ib_))

        return f

    n_new = (na + nb) if isinstance(na, int) and isinstance(nb, int) else z3.simplify(N)
    A.fields["_table"] = new_array((2 * n_new, 2 * n_new), tab, "table'")
    A.fields["_phase"] = new_array((2 * n_new,), vec(rpa, rpb), "phase'")
    A.fields["_iphase"] = new_array((2 * n_new,), vec(ria, rib), "iphase'")
    A.fields["n_qubits"] = n_new
    A.fields["shape"] = (2 * n_new, 2 * n_new)
    return A


def _tensor_spec(I, tables):
    acc = tables[0]
    for t in tables[1:]:
        acc = _tensor2(acc, t)
    return acc


C[TENSOR] = Contract(TENSOR, requires=lambda I, tables: z3.BoolVal(len(tables) >= 1), spec=_tensor_spec,
                     clause="tensor product: the generators of each factor act on that factor's qubits (left to right), signs carried, "
                            "result written into the first tableau of the list")

# ------------------------------------------------------------------------------------------ partial_trace
PTRACE = f"{CLIFF}:partial_trace"


def _ptrace_spec(I, T, keep, dims, mode="probabilistic"):
    """trace out the complement of `keep`: each traced qubit is measured and discarded (remove_qubit); removing them from the
    highest position down keeps the positions of the qubits still to be removed valid; kept qubits stay in their order"""
    n = T.fields["n_qubits"]
    removal = sorted(set(range(n)) - set(keep), reverse=True)
    for q in removal:
        T = _remove_spec(I, T, q, mode)
    return T


def _ptrace_extract(I, ret):
    if I is None:
        raise ValueError("partial_trace does not return the measurements' choices; concrete replay needs the body")
    return {"calls": list(I.path.ghost.get("zmeas_calls", []))}


C[PTRACE] = Contract(PTRACE, requires=None, spec=_ptrace_spec, extract=_ptrace_extract,
                     clause="partial trace = measure-and-discard every qubit outside `keep`, kept qubits in their order")
