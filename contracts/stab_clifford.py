"""Sidecar contracts for graphiq/backends/stabilizer/functions/clifford.py (CliffordTableau operations)."""
from __future__ import annotations

import z3

from pyvc.contract import Contract
from pyvc.values import NDArr, Store, Obj, new_array, as_int_term, to_z3
from .common import CLIFF, CTAB, idx_in, xor
from .stab_gates import _and, _tab_parts

C = {}


def contract(qual, **kw):
    def deco(spec):
        C[qual] = Contract(qual, spec=spec, **kw)
        return spec

    return deco


def _havoc_store(store):
    hv = z3.Function(f"havoc_{store.label}_{store.id}", *([z3.IntSort()] * store.ndim), z3.IntSort())
    store.f = lambda *s: hv(*s)
    store.havoc = True


# ------------------------------------------------------------------------------------------ swap_gate
def _swap_req(I, T, q1, q2):
    n = T.fields["n_qubits"]
    return _and(idx_in(q1, n), idx_in(q2, n))


@contract(f"{CLIFF}:swap_gate", requires=_swap_req,
          clause="SWAP conjugation: columns q1<->q2 exchanged in the X half and in the Z half; rows are NOT permuted, so every "
                 "sign (phase, iphase) stays with its row")
def _swap_gate(I, T, q1, q2):
    tab, ph, n = _tab_parts(T)
    rt = tab.reader()
    a, b, n_ = to_z3(q1), to_z3(q2), to_z3(n)

    def src(j):
        return z3.If(j == a, b, z3.If(j == b, a, z3.If(j == n_ + a, n_ + b, z3.If(j == n_ + b, n_ + a, j))))

    old = tab.store
    T.fields["_table"] = new_array(tab.shape, lambda i, j: rt(i, src(j)), "table'")
    _havoc_store(old)
    return T


# ------------------------------------------------------------------------------------------ insert_qubit / add_qubit
def _insert_req(I, T, pos):
    n = T.fields["n_qubits"]
    return _and(to_z3(pos) >= 0, to_z3(pos) <= to_z3(n))


def _insert_spec(I, T, pos):
    """new tableau on n+1 qubits: old rows/columns shifted around position `pos` in each of the four blocks, the new
    destabilizer row is X_pos, the new stabilizer row is +Z_pos, every old sign travels with its (shifted) row"""
    tab, ph, n = _tab_parts(T)
    ip = T.fields["_iphase"]
    rt, rp, ri = tab.reader(), ph.reader(), ip.reader()
    p, n_ = to_z3(pos), to_z3(n)
    m = n_ + 1

    def old_row(i):  # new row index -> old row index (for rows that are not the two inserted ones)
        # destabilizer half: rows 0..n ; stabilizer half: rows n+1..2n+1
        return z3.If(i < p, i, z3.If(i <= n_, i - 1, z3.If(i < m + p, i - 1, i - 2)))

    def old_col(j):
        return z3.If(j < p, j, z3.If(j <= n_, j - 1, z3.If(j < m + p, j - 1, j - 2)))

    def is_new_row(i):
        return z3.Or(i == p, i == m + p)

    def is_new_col(j):
        return z3.Or(j == p, j == m + p)

    def new_tab(i, j):
        return z3.If(z3.And(i == p, j == p), z3.IntVal(1),
                     z3.If(z3.And(i == m + p, j == m + p), z3.IntVal(1),
                           z3.If(z3.Or(is_new_row(i), is_new_col(j)), z3.IntVal(0), rt(old_row(i), old_col(j)))))

    T.fields["_table"] = new_array((2 * m, 2 * m), new_tab, "table'")
    T.fields["_phase"] = new_array((2 * m,), lambda i: z3.If(is_new_row(i), z3.IntVal(0), rp(old_row(i))), "phase'")
    T.fields["_iphase"] = new_array((2 * m,), lambda i: z3.If(is_new_row(i), z3.IntVal(0), ri(old_row(i))), "iphase'")
    T.fields["n_qubits"] = m
    T.fields["shape"] = (2 * m, 2 * m)
    return T


C[f"{CLIFF}:insert_qubit"] = Contract(
    f"{CLIFF}:insert_qubit", requires=_insert_req, spec=_insert_spec,
    clause="inserting a qubit adds an unentangled |0> at the requested position: +Z_pos stabilizer / X_pos destabilizer, "
           "all old rows, columns and signs carried to their shifted places")


@contract(f"{CLIFF}:add_qubit", requires=None, clause="add_qubit = insert_qubit at position n")
def _add_qubit(I, T):
    return _insert_spec(I, T, T.fields["n_qubits"])


# ------------------------------------------------------------------------------------------ state constructors
def _mk_tableau(I, n, table_fn, phase_fn):
    cls = I.get_class(CTAB, "CliffordTableau")
    o = Obj(cls)
    n_ = to_z3(n)
    o.fields["_table"] = new_array((2 * n_, 2 * n_), table_fn, "table")
    o.fields["n_qubits"] = n
    o.fields["_phase"] = new_array((2 * n_,), phase_fn, "phase")
    o.fields["_iphase"] = new_array((2 * n_,), lambda i: z3.IntVal(0), "iphase")
    o.fields["shape"] = (2 * n_, 2 * n_)
    return o


def _eye(i, j):
    return z3.If(i == j, z3.IntVal(1), z3.IntVal(0))


@contract(f"{CLIFF}:create_n_ket0_state", requires=lambda I, n: to_z3(n) >= 1,
          clause="|0..0>: destabilizers X_i, stabilizers +Z_i")
def _ket0(I, n):
    return _mk_tableau(I, n, _eye, lambda i: z3.IntVal(0))


@contract(f"{CLIFF}:create_n_ket1_state", requires=lambda I, n: to_z3(n) >= 1,
          clause="|1..1>: destabilizers X_i, stabilizers -Z_i")
def _ket1(I, n):
    n_ = to_z3(n)
    return _mk_tableau(I, n, _eye, lambda i: z3.If(i >= n_, z3.IntVal(1), z3.IntVal(0)))


@contract(f"{CLIFF}:create_n_plus_state", requires=lambda I, n: to_z3(n) >= 1,
          clause="|+..+>: destabilizers Z_i, stabilizers +X_i")
def _plus(I, n):
    n_ = to_z3(n)
    return _mk_tableau(I, n, lambda i, j: z3.If(z3.Or(j == i + n_, j == i - n_), z3.IntVal(1), z3.IntVal(0)),
                       lambda i: z3.IntVal(0))




# ------------------------------------------------------------------------------------------ z_measurement_gate
from pyvc.loops import SeqLoop  # noqa: E402
from .stab_gates import g_term, gsum_fn  # noqa: E402

ZMEAS = f"{CLIFF}:z_measurement_gate"


def _rs_phase(r_t, i_t, r_a, i_a, gs):
    ph = (2 * r_t + i_t + 2 * r_a + i_a + gs) % 4
    return ph / 2, ph % 2


def GS2(tag="zm"):
    """GS2(i, m) = sum_{j<m} g(row p, row i) of the tableau at entry (recursive spec function; its defining equations are
    instantiated by the loop invariant of the rowsum loop)"""
    return z3.Function(f"GS2_{tag}", z3.IntSort(), z3.IntSort(), z3.IntSort())


def spec_sum(I, F, n, term):
    """i -> F(i, n) = sum_{j<n} term(i, j): the uninterpreted recursive spec function in proofs; the explicit finite sum when
    the spec is evaluated on a concrete input (replay of a counter-model on the real code)"""
    from pyvc.values import concrete_int

    cn = concrete_int(n)
    if getattr(I, "replaying", False) and cn is not None:
        return lambda i: (z3.Sum([term(i, z3.IntVal(j)) for j in range(cn)]) if cn > 1 else
                          (term(i, z3.IntVal(0)) if cn == 1 else z3.IntVal(0)))
    n_ = to_z3(n)
    return lambda i: F(i, n_)


def zmeas_choices(concs):
    """candidate (found, pivot, outcome) choices of a Z measurement of qubit concs[1] on the concrete tableau concs[0]"""
    t, q = concs[0], concs[1]
    n, tab = t["n"], t["table"]
    if not (0 <= q < n):
        return []
    rows = [r for r in range(n, 2 * n) if tab[r][q] == 1]
    if rows:
        return [dict(found=True, p=z3.IntVal(r), outcome=z3.IntVal(o)) for r in rows for o in (0, 1)]
    return [dict(found=False, p=z3.IntVal(0), outcome=z3.IntVal(o)) for o in (0, 1)]


def _mode_outcome(mode, outcome):
    if isinstance(mode, str) and mode == "probabilistic":
        return z3.And(outcome >= 0, outcome <= 1)
    if isinstance(mode, int) and not isinstance(mode, bool) and mode == 1:
        return outcome == 1
    return outcome == 0


def _zmeas_extract(I, ret):
    t, o, p = ret
    return dict(found=(to_z3(p) != 0), p=to_z3(p), outcome=to_z3(o) if not isinstance(o, bool) else o)


def _zmeas_spec(I, T, q, mode):
    """Relational contract of the Aaronson-Gottesman Z measurement (returns (T, outcome, p)).
      found  <=>  some stabilizer row (index in [n,2n)) has x[.,q] = 1   (claimed both ways)
      found:  p is such a row (free choice); every OTHER row i with x[i,q] = 1 becomes row_i (+) row_p with the rowsum
              phase rule; row p-n := old row p (table only); row p := Z_q with sign `outcome`; outcome is the forced value
              (mode 0/1) or any bit (mode "probabilistic"); returned p is that row index (never 0)
      not found: p = 0, nothing reachable from T changes, outcome is a bit (it is the sign accumulated by rowsum of the
              stabilizer rows {i+n : i<n, x[i,q]=1} into a zero scratch row: recursion proved by the loop invariant)"""
    tab, ph, n = _tab_parts(T)
    ip = T.fields["_iphase"]
    rt, rp, ri = tab.reader(), ph.reader(), ip.reader()
    n_, q_ = to_z3(n), to_z3(q)
    path = I.path
    ch = I.choice
    if ch is not None and "calls" in ch:  # a caller with several measurements (partial_trace): the body's choices in call order
        k = ch.get("_next", 0)
        ch["_next"] = k + 1
        ch = ch["calls"][k] if k < len(ch["calls"]) else {"found": path.fresh("anticomm", "bool"), "p": path.fresh("pivot"),
                                                          "outcome": path.fresh("outcome")}
    if ch is not None:
        found, p, outcome = ch["found"], ch["p"], ch["outcome"]
    else:
        found, p, outcome = path.fresh("anticomm", "bool"), path.fresh("pivot"), path.fresh("outcome")
    path.ghost.setdefault("zmeas_calls", []).append(dict(found=found, p=p, outcome=outcome))
    if path.decide(found if not isinstance(found, bool) else z3.BoolVal(found)):
        I.claim("pivot-is-anticommuting-stabilizer-row", z3.And(p >= n_, p < 2 * n_, rt(p, q_) == 1))
        I.claim("outcome-follows-mode", _mode_outcome(mode, outcome))
        Gs = spec_sum(I, GS2(), n, lambda i, j: g_term(rt(p, j), rt(p, n_ + j), rt(i, j), rt(i, n_ + j)))

        def hit(i):
            return z3.And(rt(i, q_) != 0, i != p)

        def rs(i):
            return _rs_phase(rp(i), ri(i), rp(p), ri(p), Gs(i))

        def new_tab(i, j):
            return z3.If(i == p, z3.If(j == n_ + q_, z3.IntVal(1), z3.IntVal(0)),
                         z3.If(i == p - n_, rt(p, j),
                               z3.If(hit(i), (rt(i, j) + rt(p, j)) % 2, rt(i, j))))

        olds = [tab.store, ph.store, ip.store]
        T.fields["_table"] = new_array(tab.shape, new_tab, "table'")
        T.fields["_phase"] = new_array(ph.shape, lambda i: z3.If(i == p, outcome, z3.If(hit(i), rs(i)[0], rp(i))), "phase'")
        T.fields["_iphase"] = new_array(ip.shape, lambda i: z3.If(hit(i), rs(i)[1], ri(i)), "iphase'")
        for s_ in olds:
            _havoc_store(s_)
        return (T, outcome, p)
    I.claim_forall("no-anticommuting-stabilizer-row", n_, 2 * n_, lambda k: rt(k, q_) == 0)
    I.claim("deterministic-outcome-is-a-bit", z3.And(outcome >= 0, outcome <= 1))
    det = path.ghost.get("zmeas_det")
    if I.choice is not None and det is not None:
        I.claim("deterministic-outcome-is-the-accumulated-sign", outcome == det)
    return (T, outcome, 0)


C[ZMEAS] = Contract(ZMEAS, requires=lambda I, T, q, mode: idx_in(q, T.fields["n_qubits"]), spec=_zmeas_spec,
                    extract=_zmeas_extract,
                    clause="Aaronson-Gottesman Z measurement with rowsum: post-measurement generators, forced / random outcome")


# ---- loop contracts of z_measurement_gate --------------------------------------------------------------------------
def _zm_loop1_state(I, k, entry):
    """for target_row in non_zero_x: rowsum(p -> target_row).  After k iterations exactly the first k listed rows are updated."""
    path = I.path
    T = entry["tableau"]
    tab = T.fields["_table"]
    n_ = to_z3(entry["n_qubits"])
    q_ = to_z3(entry["qubit_position"])
    p = to_z3(entry["x_p"])
    seq = entry["non_zero_x"]
    g = path.ghost["zm1"]
    t0, r0, i0 = g["t0"], g["r0"], g["i0"]
    posp = g["posp"]  # position of row i in the (deleted) sequence
    G = GS2()

    def done(i):
        return z3.And(t0(i, q_) != 0, i != p, posp(i) < k)

    def rs(i):
        return _rs_phase(r0(i), i0(i), r0(p), i0(p), G(i, n_))

    return {
        tab: lambda i, j: z3.If(done(i), (t0(i, j) + t0(p, j)) % 2, t0(i, j)),
        entry["r_vector"]: lambda i: z3.If(done(i), rs(i)[0], r0(i)),
        entry["iphase_vector"]: lambda i: z3.If(done(i), rs(i)[1], i0(i)),
        "x_matrix": entry["x_matrix"], "z_matrix": entry["z_matrix"], "r_vector": entry["r_vector"],
        "iphase_vector": entry["iphase_vector"],
    }


def _zm1_setup(I, entry, it):
    path = I.path
    nz = list(path.ghost["nz"].values())[-1]
    srch = path.ghost["searches"][-1]
    s = srch["first"]
    POS = nz["POS"]
    xr, zr = entry.rd("x_matrix"), entry.rd("z_matrix")
    n_ = to_z3(entry["n_qubits"])
    path.ghost["zm1"] = dict(
        t0=lambda i, j: z3.If(j < n_, xr(i, j), zr(i, j - n_)),
        r0=entry.rd("r_vector"), i0=entry.rd("iphase_vector"),
        posp=lambda i: z3.If(POS(i) < s, POS(i), POS(i) - 1),
    )


def _zm1_after(I, k, entry):
    from lemmas.sums import apply_sum_ext

    path = I.path
    rec = path.ghost["rowsum_calls"][-1]
    g = path.ghost["zm1"]
    t0 = g["t0"]
    n_ = to_z3(entry["n_qubits"])
    p = to_z3(entry["x_p"])
    t = rec["t"]
    rx, rz, a = rec["rx"], rec["rz"], rec["a"]
    apply_sum_ext(I, "z_measurement_gate:loop(target_row).lemma.sum_ext.premise",
                  rec["GS"](n_), GS2()(t, n_),
                  lambda j: g_term(rx(a, j), rz(a, j), rx(t, j), rz(t, j)),
                  lambda j: g_term(t0(p, j), t0(p, n_ + j), t0(t, j), t0(t, n_ + j)), n_)


# ---- deterministic branch: accumulate the stabilizer rows of the destabilizers that have X on the measured qubit
def _SXB():
    return z3.Function("SXB_zm", z3.IntSort(), z3.IntSort(), z3.BoolSort())


def _SR():
    return z3.Function("SR_zm", z3.IntSort(), z3.IntSort())


def _SI():
    return z3.Function("SI_zm", z3.IntSort(), z3.IntSort())


def _GS3():
    return z3.Function("GS3_zm", z3.IntSort(), z3.IntSort(), z3.IntSort())


def _sx(k, j):
    return z3.If(_SXB()(k, j), z3.IntVal(1), z3.IntVal(0))


def _zm2_setup(I, entry, it):
    path = I.path
    xr, zr = entry.rd("x_matrix"), entry.rd("z_matrix")
    n_ = to_z3(entry["n_qubits"])
    seq_rd = it.reader()
    path.ghost["zm2"] = dict(
        t0=lambda i, j: z3.If(j < n_, xr(i, j), zr(i, j - n_)),
        r0=entry.rd("r_vector"), i0=entry.rd("iphase_vector"), d=lambda k: seq_rd(k), D=to_z3(it.shape[0]))
    path.ghost["zmeas_det"] = _SR()(to_z3(it.shape[0]))


def _zm2_axioms(I, k, entry):
    g = I.path.ghost["zm2"]
    t0, r0, i0, d = g["t0"], g["r0"], g["i0"], g["d"]
    n_ = to_z3(entry["n_qubits"])
    j = z3.Int("zm2j")
    if k is None:
        return [_SR()(0) == 0, _SI()(0) == 0, z3.ForAll([j], z3.Not(_SXB()(0, j)))]
    row = d(k) + n_
    nr, ni = _rs_phase(_SR()(k), _SI()(k), r0(row), i0(row), _GS3()(k, n_))
    return [_SR()(k + 1) == nr, _SI()(k + 1) == ni,
            z3.ForAll([j], _SXB()(k + 1, j) == z3.Xor(_SXB()(k, j), t0(row, j) == 1))]


def _zm2_state(I, k, entry):
    g = I.path.ghost["zm2"]
    t0, r0, i0 = g["t0"], g["r0"], g["i0"]
    n_ = to_z3(entry["n_qubits"])
    two_n = 2 * n_
    return {
        entry["new_table"]: lambda i, j: z3.If(i == two_n, _sx(k, j), t0(i, j)),
        entry["r_vector"]: lambda i: z3.If(i == two_n, _SR()(k), r0(i)),
        entry["iphase_vector"]: lambda i: z3.If(i == two_n, _SI()(k), i0(i)),
        "x_matrix": entry["x_matrix"], "z_matrix": entry["z_matrix"], "r_vector": entry["r_vector"],
        "iphase_vector": entry["iphase_vector"],
    }


def _zm2_after(I, k, entry):
    from lemmas.sums import apply_sum_ext

    path = I.path
    rec = path.ghost["rowsum_calls"][-1]
    g = path.ghost["zm2"]
    t0, d = g["t0"], g["d"]
    n_ = to_z3(entry["n_qubits"])
    row = d(k) + n_
    rx, rz, a, t = rec["rx"], rec["rz"], rec["a"], rec["t"]
    apply_sum_ext(I, "z_measurement_gate:loop(non_zero).lemma.sum_ext.premise",
                  rec["GS"](n_), _GS3()(k, n_),
                  lambda j: g_term(rx(a, j), rz(a, j), rx(t, j), rz(t, j)),
                  lambda j: g_term(t0(row, j), t0(row, n_ + j), _sx(k, j), _sx(k, n_ + j)), n_)


ZMEAS_LOOPS = [
    SeqLoop("z_measurement_gate", "target_row", "non_zero_x", state=_zm_loop1_state, setup=_zm1_setup, after_body=_zm1_after),
    SeqLoop("z_measurement_gate", "non_zero", "non_zero_x[non_zero_x < n_qubits]", state=_zm2_state, setup=_zm2_setup,
            axioms=_zm2_axioms, after_body=_zm2_after),
]


# ------------------------------------------------------------------------------------------ reset_z / reset_x / reset_y
from .stab_gates import C as _GC  # noqa: E402
from .common import TRANS  # noqa: E402


def _reset_extract(I, ret):
    if I is None:
        raise ValueError("reset_* does not return the measurement's choices; concrete replay needs the body")
    return I.path.ghost["zmeas_calls"][-1]


def _reset_req(I, T, q, intended, mode):
    return _and(idx_in(q, T.fields["n_qubits"]), z3.Or(to_z3(intended) == 0, to_z3(intended) == 1))


def _reset_z_spec(I, T, q, intended, mode):
    """measure Z on q; if the outcome was random the pivot row becomes (+/-)Z_q with the requested sign and iphase 0,
    otherwise X is applied iff the (deterministic) outcome differs from the requested eigenstate"""
    T, outcome, p = _zmeas_spec(I, T, q, mode)
    if not (isinstance(p, int) and p == 0):
        ph, ip = T.fields["_phase"], T.fields["_iphase"]
        rp, ri = ph.reader(), ip.reader()
        ph.assign_from(lambda i: z3.If(i == p, to_z3(intended), rp(i)))
        ip.assign_from(lambda i: z3.If(i == p, z3.IntVal(0), ri(i)))
        return T
    if I.path.decide(to_z3(outcome) == to_z3(intended)):
        return T
    return _GC[f"{TRANS}:x_gate"].spec(I, T, q)


C[f"{CLIFF}:reset_z"] = Contract(f"{CLIFF}:reset_z", requires=_reset_req, spec=_reset_z_spec, extract=_reset_extract, choices=zmeas_choices,
                                 clause="reset leaves the measured qubit in the requested Z eigenstate (|0> for intended_state=0) and "
                                        "the rest in the post-measurement state")


def _reset_x_spec(I, T, q, intended, mode):
    T = _reset_z_spec(I, T, q, intended, mode)
    return _GC[f"{TRANS}:hadamard_gate"].spec(I, T, q)


def _reset_y_spec(I, T, q, intended, mode):
    T = _reset_z_spec(I, T, q, intended, mode)
    T = _GC[f"{TRANS}:hadamard_gate"].spec(I, T, q)
    return _GC[f"{TRANS}:phase_gate"].spec(I, T, q)


C[f"{CLIFF}:reset_x"] = Contract(f"{CLIFF}:reset_x", requires=_reset_req, spec=_reset_x_spec, extract=_reset_extract, choices=zmeas_choices,
                                 clause="reset_x = reset_z followed by H")
C[f"{CLIFF}:reset_y"] = Contract(f"{CLIFF}:reset_y", requires=_reset_req, spec=_reset_y_spec, extract=_reset_extract, choices=zmeas_choices,
                                 clause="reset_y = reset_z followed by H then P")
