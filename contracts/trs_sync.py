"""C02 - the time-reversed solver's helpers: ghost invariant "circuit and working tableau stay in sync" + functional
postconditions the protocol needs.  REAL bodies of graphiq/solvers/time_reversed_solver.py are interpreted from /repo's AST.

Index convention of the property: photons are indexed before emitters - tableau column j < n_photon is photon j, tableau
column n_photon + i is emitter i.

LAYER 1 (circuit side, leaf helpers; real CircuitDAG.insert_at runs on a symbolic graph fragment, pyvc/symgraph.py):
  _add_emitter_photon_cnot(circuit, e, p)        inserts ONE node carrying a CNOT(control=(e,'e'), target=(p,'p')) on the FIRST edge
  _add_one_emitter_cnot(circuit, c, t)           of both wires (edge leaving `<type><reg>_in`): it precedes everything already on
  _add_measurement_cnot_and_reset(circuit, e, p) those registers; CNOT(control=(c,'e'), target=(t,'e')); MeasurementCNOTandReset(
                                                 control=(e,'e'), target=(p,'p'), c_register 0).  The emission CNOT and the measurement
                                                 are indexed under the label "Fixed" (node_dict is filled AT insertion, so the label
                                                 must be on the object before insert_at), the emitter-emitter CNOT is not.
  _add_one_qubit_gate(circuit, gate_list, index) [trace] index -> (reg_type, reg) = ('e', index - n_photon) if index >= n_photon else
                                                 ('p', index); with W = first operation on that wire:
                                                   W a OneQubitGateWrapper: L = simplify(W.operations + gate_list)  (gate_list acts first)
                                                       L == [Identity, Identity] -> remove_op(W's node)   else replace_op(W's node, Wrapper(L))
                                                   otherwise: L = simplify(gate_list); identity -> nothing; else insert_at(Wrapper(L), [first edge])
                                                 Hence Sem(C') = Sem(C) o U(gate_list)@index, given C20 (simplify keeps the unitary up to phase).
LAYER 2 (sync): see below (SyncTask).
"""
from __future__ import annotations

import z3

from pyvc import source, symgraph as SG
from pyvc.contract import Contract
from pyvc.interp import Interp, Engine, Path, explore, RaiseEx, Undecided, PathEnd, Frame
from pyvc.trace import recorder, Cursor, same, Token
from pyvc.values import Obj, FuncRef, ClsRef, Opaque, NDArr, new_array, to_z3, as_int_term, is_sym
from . import compile_stab as CS, dag as D
from .common import TRANS, STABF, HEIGHT, TABLEAU_ACCESSORS, idx_in

TRS = "graphiq.solvers.time_reversed_solver"
SBASE = "graphiq.solvers.solver_base"
OPS = CS.OPS
CDAG = D.CDAG
S = f"{TRS}:TimeReversedSolver"
Q_EP = f"{S}._add_emitter_photon_cnot"
Q_EE = f"{S}._add_one_emitter_cnot"
Q_MEAS = f"{S}._add_measurement_cnot_and_reset"
Q_ONE = f"{S}._add_one_qubit_gate"
Q_TGE = f"{S}._transform_generator_emitters"
Q_SOE = f"{S}._single_out_emitter"
Q_ABS = f"{S}._add_photon_absorption"
Q_TRM = f"{S}._time_reversed_measurement"
Q_CPT = f"{S}._change_pauli_type"
Q_FEI = f"{S}._find_emitter_indices"

LEAF_INLINE = set(D.INLINE) | {f"{CDAG}:CircuitDAG.insert_at"}


# =============================================================================================
# noise look-up: abstract (the noise attached to an operation is not part of C02's statement)
# =============================================================================================
def noise_contracts():
    """[A] SolverBase._identify_noise(pair operation class, mapping) returns a list of two noise models, _wrap_noise a noise value;
    which models is irrelevant for the noise-free semantics C02 talks about (C13 covers the noise mapping)."""
    C = {}
    q = f"{SBASE}:SolverBase._identify_noise"
    C[q] = Contract(q, spec=lambda I, slf, op, mapping: [CS.no_noise(I), CS.no_noise(I)],
                    clause="[A] noise look-up for a pair operation: a list of two noise models")
    q = f"{SBASE}:SolverBase._wrap_noise"
    C[q] = Contract(q, spec=lambda I, slf, op, mapping: Token("wrapped-noise", id(op)), clause="[A] noise look-up for a wrapper")
    return C


def solver_obj(I, n_p, n_e):
    slf = Obj(I.get_class(TRS, "TimeReversedSolver"))
    slf.fields.update(n_photon=n_p, n_emitter=n_e, noise_model_mapping={"e": {}, "p": {}, "ee": {}, "ep": {}})
    return slf


# =============================================================================================
# LAYER 1a: the three two-qubit helpers on a graph fragment
# =============================================================================================
def _other_wire(eng, label, u):
    """the fragment holds exactly the input nodes of the wires the contract names (closed); a query of ANOTHER node on a feasible
    path means the helper inspects a wire the contract does not name"""
    if "not all explicit in the fragment" in str(u):
        eng.record(f"{label}:post.only-the-wires-named-by-the-contract-are-inspected", "refuted", 0, str(u), None)
        return True
    return False


class LeafTask:
    """REAL helper + REAL CircuitDAG.insert_at on the fragment {first edge of the two wires}; `next_kind`: what follows the
    input node on each wire ('op': some operation node, 'out': the wire is still empty)"""

    def __init__(self, qual, kind, next_kind="op", label=None, expect=None, timeout_ms=10000):
        self.qual, self.kind, self.next_kind = qual, kind, next_kind
        self.label = label or f"{qual.split('.')[-1]}[first-on-both-wires,{next_kind}]"
        self.expect = expect or EXPECT[kind]
        self.contract = Contract(qual, clause="the operation (class, control/target registers and types, labels) is inserted on the first "
                                              "edge of both wires and indexed (node_dict) under its labels")
        self.timeout_ms = timeout_ms

    def run(self):
        eng = Engine(self.timeout_ms)
        m, node, cls = source.find(self.qual)
        C = D.contracts()
        C.update(noise_contracts())
        exp = self.expect

        def harness(path):
            hooks = SG.install({"instantiate": CS.abstract_noise_instantiate})
            I = Interp(path, C, LEAF_INLINE, hooks)
            I.task_name = self.qual
            f = FuncRef(m.name, node, self.qual, I.get_class(m.name, cls.name))
            I.stack.append(Frame(m.name, {}, self.label))
            sc = D.Scenario(I)
            slf = solver_obj(I, sc.n["p"], sc.n["e"])
            a, b = z3.Int("reg_a"), z3.Int("reg_b")
            ta, tb = ("e", "e") if self.kind == "ee" else ("e", "p")
            path.assume(z3.And(a >= 0, a < sc.n[ta], b >= 0, b < sc.n[tb]))
            if ta == tb:
                path.assume(a != b)  # call sites: np.setdiff1d(emitters, [target]) / distinct qubits of a synthesised CNOT
            wires, nxt = [(ta, a), (tb, b)], []
            for k_, (t, r) in enumerate(wires):
                i_ = D.in_node(t, r)
                sc.g.nodes.append([i_, {"op": Obj(I.get_class(OPS, "Input")), "reg": r}])
                sc.g.closed.append(i_)
                if self.next_kind == "op":
                    v = sc.op_node(f"v{k_}")
                    if sc.g._find_node(I, v) is None:
                        sc.g.nodes.append([v, {"op": D.Opaque_op(I)}])
                else:
                    v = D.out_node(t, r)
                    sc.g.nodes.append([v, {"op": Obj(I.get_class(OPS, "Output")), "reg": r}])
                sc.g.edges.append([i_, v, D.key(t, r), {"reg": r, "reg_type": t}])
                sc.c.fields["edge_dict"].setdefault(t, []).append((i_, v, D.key(t, r)))
                nxt.append(v)
            if self.kind == "meas":  # the classical register the measurement writes to exists (solve: n_classical=1)
                path.assume(sc.n["c"] >= 1)
                sc.g.nodes.append([D.in_node("c", 0), {"op": Obj(I.get_class(OPS, "Input")), "reg": 0}])
            path.trace = []
            try:
                I.call_function(f, [slf, sc.c, a, b], {}, force_body=True)
            except Undecided as u:
                if _other_wire(eng, self.label, u):
                    return
                raise
            except RaiseEx as e:
                eng.record(f"{self.label}:no-raise", "refuted", 0, f"real body raises {e.exc_name}: {e.msg}", None)
                return
            eng.record(f"{self.label}:no-raise", "discharged", 0, "", None)
            P = D.Post(I, sc, self.label)
            new = sc.M + 1
            P.ob("node_id", to_z3(sc.c.fields["_node_id"]) == new)
            want = []
            for (t, r), v in zip(wires, nxt):
                want += [(D.in_node(t, r), new, D.key(t, r), r, t), (new, v, D.key(t, r), r, t)]
            P.edges_are(want)  # "first on both wires": the edges leaving the input nodes now lead to the new node
            ent = sc.g._find_node(I, new)
            P.ob("node.present", ent is not None)
            if ent is None:
                return
            op = ent[1].get("op")
            P.ob("op.class", isinstance(op, Obj) and op.cls.name == exp["cls"], f"operation is {op!r}")
            if not (isinstance(op, Obj) and op.cls.name == exp["cls"]):
                return
            P.ob("op.control-register", to_z3(op.fields["control"]) == a)
            P.ob("op.control-type", op.fields["control_type"] == ta)
            P.ob("op.target-register", to_z3(op.fields["target"]) == b)
            P.ob("op.target-type", op.fields["target_type"] == tb)
            qr = op.fields["_q_registers"]
            P.ob("op.q_registers", z3.And(to_z3(qr[0]) == a, to_z3(qr[1]) == b))
            P.ob("op.q_registers_type", tuple(op.fields["_q_registers_type"]) == (ta, tb))
            if exp["cls"] == "MeasurementCNOTandReset":
                P.ob("op.c_register", tuple(op.fields["_c_registers"]) == (0,))
            labs = list(op.fields["_labels"])
            P.ob("op.labels", sorted(labs) == sorted(exp["labels"]), f"labels {labs}")
            nd = sc.c.fields["node_dict"]
            tag = I.call(I.getattr(op, "parse_q_reg_types"), [], {})  # the register-type tag CircuitDAG indexes the node under
            for lab in exp["labels"] + [exp["cls"], tag]:
                P.dict_list_is(f"node_dict[{lab}]", nd.get(lab, []), [new])
            if "Fixed" not in exp["labels"]:
                P.ob("node_dict[Fixed].absent", not nd.get("Fixed"), f"node_dict['Fixed'] = {nd.get('Fixed')}")

        try:
            explore(eng, harness)
        except Undecided as u:
            eng.record(f"{self.label}:supported-subset", "undecided", 0, f"{u}", None)
        for r in eng.results.values():
            r.witness, r.replayed = None, False
        return eng


EXPECT = {
    "ep": dict(cls="CNOT", labels=["two-qubit", "Fixed"]),
    "ee": dict(cls="CNOT", labels=["two-qubit"]),
    "meas": dict(cls="MeasurementCNOTandReset", labels=["two-qubit", "Fixed"]),
}
LEAF_QUAL = {"ep": Q_EP, "ee": Q_EE, "meas": Q_MEAS}


def leaf_tasks():
    T = []
    for kind in ("ep", "ee", "meas"):
        for nk in ("op", "out"):
            T.append(LeafTask(LEAF_QUAL[kind], kind, nk))
    return T


def leaf_canaries():
    """wrong contract: the emission CNOT is NOT indexed as Fixed (must be refuted: the real code labels it before inserting)"""
    return [LeafTask(Q_EP, "ep", "op", label="canary._add_emitter_photon_cnot.not-fixed", expect=dict(cls="CNOT", labels=["two-qubit"])),
            LeafTask(Q_EE, "ee", "op", label="canary._add_one_emitter_cnot.is-fixed", expect=dict(cls="CNOT", labels=["two-qubit", "Fixed"]))]


# =============================================================================================
# LAYER 1b: _add_one_qubit_gate  [trace]
# =============================================================================================
PREV = Opaque("operations-of-the-leading-wrapper", None)
ITEMS = Opaque("items-of-gate_list", None)


def _wrapper_instantiate(I, cls, args, kwargs):
    """[A, from C20's task on OneQubitGateWrapper.__init__] the wrapper object holds `operations`, its register and type"""
    if cls.module == OPS and cls.name == "OneQubitGateWrapper":
        o = Obj(cls)
        ops_ = args[0] if args else kwargs["operations"]
        o.fields.update(operations=ops_, register=kwargs.get("register", 0), reg_type=kwargs.get("reg_type", "e"),
                        noise=kwargs.get("noise"), _labels=["one-qubit"], _q_registers=(kwargs.get("register", 0),),
                        _q_registers_type=(kwargs.get("reg_type", "e"),), _c_registers=tuple())
        return o
    return CS.abstract_noise_instantiate(I, cls, args, kwargs)


def _simplify_result(I, gate_list):
    """relational: simplify_local_clifford returns SOME library word with the same unitary (C20); whether that word is the
    identity word is a free outcome here - both cases are explored"""
    b = I.path.fresh("simplifies_to_identity", "bool")
    if I.path.decide(b):
        idc = I.get_class(OPS, "Identity")
        return [idc, idc]
    return [Opaque("simplified-non-identity-word", tuple(gate_list))]


def one_qubit_recorders():
    C = dict(noise_contracts())
    q = f"{OPS}:simplify_local_clifford"
    C[q] = recorder(q, "simplify_local_clifford", result=_simplify_result, clause="[C20] same unitary up to phase, as a library word")
    for m_ in ("insert_at", "replace_op", "remove_op"):
        q = f"{CDAG}:CircuitDAG.{m_}"
        C[q] = recorder(q, m_, clause=f"[C12] recorded circuit edit {m_}")
    return C


class OneQubitTask:
    def __init__(self, reg_type, next_kind, label=None, order="prev-then-new", offset=0, timeout_ms=10000):
        self.qual = Q_ONE
        self.reg_type, self.next_kind, self.order, self.offset = reg_type, next_kind, order, offset
        self.label = label or f"_add_one_qubit_gate[{reg_type},{next_kind}]"
        self.contract = Contract(Q_ONE, clause="Sem(C') = Sem(C) o U(gate_list)@index: merge with a leading wrapper as W.operations + gate_list "
                                               "(gate_list acts first), identity -> removed / nothing, else one wrapper first on the wire of "
                                               "(e, index - n_photon) / (p, index)")
        self.timeout_ms = timeout_ms

    def run(self):
        eng = Engine(self.timeout_ms)
        m, node, cls = source.find(self.qual)
        C = one_qubit_recorders()

        def harness(path):
            hooks = SG.install({"instantiate": _wrapper_instantiate})
            I = Interp(path, C, {f"{OPS}:*"}, hooks)
            I.task_name = self.qual
            f = FuncRef(m.name, node, self.qual, I.get_class(m.name, cls.name))
            I.stack.append(Frame(m.name, {}, self.label))
            sc = D.Scenario(I)
            n_p, n_e = sc.n["p"], sc.n["e"]
            slf = solver_obj(I, n_p, n_e)
            index = z3.Int("index")
            t = self.reg_type
            path.assume(z3.And(index >= 0, index < n_p + n_e))
            path.assume(index >= n_p if t == "e" else index < n_p)
            reg = (index - n_p if t == "e" else index) + self.offset
            i_ = D.in_node(t, reg)
            sc.g.nodes.append([i_, {"op": Obj(I.get_class(OPS, "Input")), "reg": reg}])
            sc.g.closed.append(i_)
            if self.next_kind == "out":
                v = D.out_node(t, reg)
                nop = Obj(I.get_class(OPS, "Output"))
            else:
                v = sc.op_node("v")
                if self.next_kind == "wrapper":
                    nop = Obj(I.get_class(OPS, "OneQubitGateWrapper"))
                    nop.fields.update(operations=[PREV], register=reg, reg_type=t, _labels=["one-qubit"])
                else:
                    nop = Obj(I.get_class(OPS, {"cnot": "CNOT", "hadamard": "Hadamard", "meas": "MeasurementCNOTandReset"}[self.next_kind]))
            sc.g.nodes.append([v, {"op": nop}])
            edge = (i_, v, D.key(t, reg))
            sc.g.edges.append([i_, v, D.key(t, reg), {"reg": reg, "reg_type": t}])
            gate_list = [ITEMS]
            path.trace = []
            try:
                I.call_function(f, [slf, sc.c, gate_list, index], {}, force_body=True)
            except Undecided as u:
                if _other_wire(eng, self.label, u):
                    return
                raise
            except RaiseEx as e:
                eng.record(f"{self.label}:no-raise", "refuted", 0, f"real body raises {e.exc_name}: {e.msg}", None)
                return
            eng.record(f"{self.label}:no-raise", "discharged", 0, "", None)
            tr = [e for e in path.trace]
            cur = Cursor(I, self.label, tr)
            wrapper = self.next_kind == "wrapper"
            merged = ([PREV, ITEMS] if self.order == "prev-then-new" else [ITEMS, PREV]) if wrapper else [ITEMS]
            L = cur.expect("simplify_local_clifford", merged)
            ident = isinstance(L, list) and len(L) == 2 and all(isinstance(x, ClsRef) and x.name == "Identity" for x in L)
            if ident:
                if wrapper:
                    cur.expect("remove_op", v)
            else:
                ev = tr[cur.pos] if cur.pos < len(tr) else None
                gate = ev["args"][-1 if wrapper else 0] if ev and ev["args"] else None
                if wrapper:
                    cur.expect("replace_op", v, gate)
                else:
                    cur.expect("insert_at", gate, [edge])
                okw = isinstance(gate, Obj) and gate.cls.name == "OneQubitGateWrapper"
                eng.record(f"{self.label}:post.new-operation-is-a-wrapper", "discharged" if okw else "refuted", 0, "" if okw else repr(gate), None)
                if okw:
                    good = gate.fields["operations"] is L
                    eng.record(f"{self.label}:post.wrapper.operations-are-the-simplified-word", "discharged" if good else "refuted", 0,
                               "" if good else repr(gate.fields["operations"]), None)
                    path.oblige(f"{self.label}:post.wrapper.register", to_z3(gate.fields["register"]) == to_z3(reg))
                    good = gate.fields["reg_type"] == t
                    eng.record(f"{self.label}:post.wrapper.reg_type", "discharged" if good else "refuted", 0, "" if good else repr(gate.fields["reg_type"]), None)
            cur.done()
            untouched = not sc.g.log
            eng.record(f"{self.label}:post.graph-edited-only-through-the-recorded-calls", "discharged" if untouched else "refuted", 0,
                       "" if untouched else str(sc.g.log), None)

        try:
            explore(eng, harness)
        except Undecided as u:
            eng.record(f"{self.label}:supported-subset", "undecided", 0, f"{u}", None)
        for r in eng.results.values():
            r.witness, r.replayed = None, False
        return eng


def one_qubit_tasks():
    return [OneQubitTask(t, nk) for t in "ep" for nk in ("wrapper", "out", "cnot", "hadamard", "meas")]


def one_qubit_canaries():
    return [OneQubitTask("e", "wrapper", label="canary._add_one_qubit_gate.merged-in-the-wrong-order", order="new-then-prev"),
            OneQubitTask("e", "out", label="canary._add_one_qubit_gate.emitter-register-off-by-one", offset=1)]


# =============================================================================================
# LAYER 2: ghost invariant "circuit and working tableau stay in sync"
# =============================================================================================
"""Events.  tableau side: every transform.* call on the working tableau T (recording versions of the C07 gate contracts), and
`_change_pauli_type(T, row, col, 'z')` as ONE compound event (its own contract, contracts/trs.py: the gates of TABLE are applied to
column col, the returned class list is their inverse [F]).  circuit side: the four layer-1 helpers (recorder contracts with the
index preconditions layer 1 assumes).  `tab_row_sum` changes the generating set, not the state: no event.

SYNC(trace): drop neutral events (a _change_pauli_type that applied no gate; _add_one_qubit_gate with the empty list = identity
by layer 1; an already checked loop / callee).  Then the k-th circuit event is matched, IN ORDER, with the next arity-many tableau
events (arity 2 for the measurement: H then CNOT - lemma L_meas; 1 otherwise) and must be their inverse on the same qubits:
   one_qubit(L, idx)   <-> cpt event whose returned list object is L (contents unchanged), col == idx
                       <-> single gate g(T, q): q == idx and U(L) . G(g) = identity up to phase (exact 2x2 arithmetic)
   cnot_ee(c, t)       <-> cnot_gate(T, n_photon + c, n_photon + t)
   cnot_ep(e, p)       <-> cnot_gate(T, n_photon + e, p)
   meas(e, p)          <-> hadamard_gate(T, n_photon + e) ; cnot_gate(T, n_photon + e, p)
and no tableau event is left over.  Because operations are PREPENDED (layer 1: first on their wires) the circuit built is
op_1^-1 ... hence Sem(C') o G' = Sem(C) o op_1 ... op_n U_n ... U_1 o G = Sem(C) o G  iff  op_k U_k = id for every k: only the
ORDER within each side matters, not the interleaving of the two sides."""
from . import trs as TRS_C  # noqa: E402
from .stab_gates import C as GC, RULES1, RULES2, _and  # noqa: E402
from pyvc.invloop import InvLoop, make_hook as inv_hook  # noqa: E402
from pyvc import nzseq, models  # noqa: E402

ONE_Q_GATES = list(RULES1)
TWO_Q_GATES = list(RULES2)


def ctx_of(I):
    return I.path.ghost["sync"]


def recording_gate_contracts():
    R = {}
    for g in ONE_Q_GATES + TWO_Q_GATES:
        q = f"{TRANS}:{g}"
        real = GC[q]

        def spec(I, T, *a, _real=real, _g=g):
            I.path.trace.append({"name": _g, "side": "tab", "args": [T] + list(a), "self": None, "ret": T})
            return _real.spec(I, T, *a)

        R[q] = Contract(q, requires=real.requires, spec=spec, clause=real.clause)
    return R


def cpt_recording_contract():
    inner = TRS_C._spec_factory("z")

    def spec(I, slf, tableau, row, column, res):
        if not (isinstance(res, str) and res.lower() == "z"):
            raise Undecided("_change_pauli_type with a result other than 'z' at a call site")
        ev = {"name": "cpt", "side": "tab", "args": [tableau, row, column], "self": None, "ret": None, "gates": None}
        n0 = len(I.path.trace)
        ret = inner(I, slf, tableau, row, column, res)  # applies the (non-recording) gate contracts of TABLE[current]['z']
        ev["ret"] = ret
        ev["classes"] = [c.name for c in ret]
        ev["gates"] = TRS_C.TABLE_BY_CLASSES[tuple(ev["classes"])]
        I.path.trace.insert(n0, ev)
        return ret

    return Contract(Q_CPT, requires=TRS_C._req, spec=spec, clause="contracts/trs.py (recorded as one tableau event)")


TRS_C.TABLE_BY_CLASSES = {tuple(cl): g for row in TRS_C.TABLE.values() for (g, cl) in [row["z"]]}


def circuit_recorders():
    def ev(name):
        def spec(I, slf, circuit, *a):
            a = list(a)
            e = {"name": name, "side": "circ", "args": [circuit] + a, "self": slf, "ret": None}
            if name == "one_qubit":
                e["src"] = a[0]
                e["classes"] = [c.name if isinstance(c, ClsRef) else repr(c) for c in a[0]] if isinstance(a[0], list) else None
            I.path.trace.append(e)
            return None

        return spec

    def req_one(I, slf, circuit, gate_list, index):
        c = ctx_of(I)
        return z3.And(to_z3(index) >= 0, to_z3(index) < c["n_p"] + c["n_e"])

    def req_ee(I, slf, circuit, a, b):
        c = ctx_of(I)
        return z3.And(idx_in(a, c["n_e"]), idx_in(b, c["n_e"]), to_z3(a) != to_z3(b))

    def req_ep(I, slf, circuit, a, b):
        c = ctx_of(I)
        return z3.And(idx_in(a, c["n_e"]), idx_in(b, c["n_p"]))

    return {
        Q_ONE: Contract(Q_ONE, requires=req_one, spec=ev("one_qubit"), clause="layer 1: Sem(C') = Sem(C) o U(gate_list)@index"),
        Q_EE: Contract(Q_EE, requires=req_ee, spec=ev("cnot_ee"), clause="layer 1: CNOT(e c -> e t) first on both wires"),
        Q_EP: Contract(Q_EP, requires=req_ep, spec=ev("cnot_ep"), clause="layer 1: Fixed CNOT(e -> p) first on both wires"),
        Q_MEAS: Contract(Q_MEAS, requires=req_ep, spec=ev("meas"), clause="layer 1: Fixed MeasurementCNOTandReset(e -> p) first on both wires"),
    }


def _neutral(e):
    if e.get("checked"):
        return True
    if e["name"] == "cpt" and not e["gates"]:
        return True
    if e["name"] == "one_qubit" and isinstance(e["src"], list) and len(e["src"]) == 0:
        return True
    return False


ARITY = {"one_qubit": 1, "cnot_ee": 1, "cnot_ep": 1, "meas": 2}


def _inverts(classes, gate):
    """exact: product of the wrapper list (last listed acts first) times the gate's matrix is the identity up to phase"""
    import numpy as np

    M, G = dict(TRS_C.M), dict(TRS_C.G)
    G.update(x_gate=M["SigmaX"], z_gate=M["SigmaZ"], y_gate=1j * M["SigmaX"] @ M["SigmaZ"])
    M.update(SigmaY=1j * M["SigmaX"] @ M["SigmaZ"], Identity=np.eye(2, dtype=complex), PhaseDagger=M["Phase"].conj().T)
    if gate not in G or any(c not in M for c in classes):
        return False
    W = np.eye(2, dtype=complex)
    for c in classes:
        W = W @ M[c]
    return bool(TRS_C._phase_equal(W @ G[gate], np.eye(2, dtype=complex)))


def check_sync(I, label, events):
    path, c = I.path, ctx_of(I)
    eng = path.engine
    T, circ, n_p = c["T"], c["circuit"], c["n_p"]

    def rec(name, ok, detail=""):
        eng.record(f"{label}.sync.{name}", "discharged" if ok else "refuted", 0, "" if ok else detail, None)
        return ok

    def ob(name, goal):
        path.oblige(f"{label}.sync.{name}", goal)

    evs = [e for e in events if (e.get("side") in ("tab", "circ") or e.get("checked")) and not _neutral(e)]
    tab = [e for e in evs if e.get("side") == "tab"]
    cir = [e for e in evs if e.get("side") == "circ"]
    pos = 0
    for k, ce in enumerate(cir):
        nm = ce["name"]
        seg = tab[pos:pos + ARITY[nm]]
        tag = f"{k}.{nm}"
        if not rec(f"{tag}.has-its-tableau-gate", len(seg) == ARITY[nm],
                   f"circuit operation {nm}{tuple(ce['args'][1:])!r} has no (complete) tableau counterpart; tableau events left: "
                   f"{[e['name'] for e in seg]}"):
            return
        pos += ARITY[nm]
        rec(f"{tag}.on-the-circuit-under-construction", ce["args"][0] is circ)
        for te in seg:
            rec(f"{tag}.{te['name']}.on-the-working-tableau", te["args"][0] is T)
        a = ce["args"][1:]
        if nm == "one_qubit":
            te = seg[0]
            if te["name"] == "cpt":
                rec(f"{tag}.gate-list-is-the-one-_change_pauli_type-returned", ce["src"] is te["ret"],
                    f"_add_one_qubit_gate got {ce['classes']}, not the list returned for column {te['args'][2]}")
                rec(f"{tag}.gate-list-unmodified", ce["classes"] == te["classes"], f"{ce['classes']} vs returned {te['classes']}")
                ob(f"{tag}.same-qubit", to_z3(a[1]) == to_z3(te["args"][2]))
            elif te["name"] in ONE_Q_GATES:
                rec(f"{tag}.wrapper-inverts-{te['name']}", ce["classes"] is not None and _inverts(ce["classes"], te["name"]),
                    f"U({ce['classes']}) . {te['name']} is not the identity")
                ob(f"{tag}.same-qubit", to_z3(a[1]) == to_z3(te["args"][1]))
            else:
                rec(f"{tag}.counterpart-is-a-one-qubit-gate", False, f"next tableau event is {te['name']}")
        elif nm in ("cnot_ee", "cnot_ep"):
            te = seg[0]
            if rec(f"{tag}.counterpart-is-cnot_gate", te["name"] == "cnot_gate", f"next tableau event is {te['name']}"):
                ob(f"{tag}.control-qubit", to_z3(te["args"][1]) == n_p + to_z3(a[0]))
                ob(f"{tag}.target-qubit", to_z3(te["args"][2]) == (n_p + to_z3(a[1]) if nm == "cnot_ee" else to_z3(a[1])))
        elif nm == "meas":
            h, cx = seg
            if rec(f"{tag}.counterpart-is-hadamard-then-cnot", h["name"] == "hadamard_gate" and cx["name"] == "cnot_gate",
                   f"next tableau events are {h['name']}, {cx['name']}"):
                ob(f"{tag}.hadamard-on-the-measured-emitter", to_z3(h["args"][1]) == n_p + to_z3(a[0]))
                ob(f"{tag}.control-qubit", to_z3(cx["args"][1]) == n_p + to_z3(a[0]))
                ob(f"{tag}.target-qubit", to_z3(cx["args"][2]) == to_z3(a[1]))
    rest = tab[pos:]
    rec("every-tableau-gate-is-mirrored-in-the-circuit", not rest,
        f"tableau gate(s) without a circuit operation: {[(e['name'], [str(x) for x in e['args'][1:]]) for e in rest]}")


# ------------------------------------------------------------------------------------------ havoc of the working tableau
def _bitfn(name, arity):
    B = z3.Function(name, *([z3.IntSort()] * arity), z3.BoolSort())
    return lambda *i: z3.If(B(*i), z3.IntVal(1), z3.IntVal(0))


def havoc_rows(I, T, row=None, tab_row=None, ph_row=None):
    """the table and the signs of T become arbitrary BITS (fresh functions), except generator `row`, whose entries / sign are the
    given explicit terms tab_row(j) / ph_row; buffers that exist now keep their identity but get unspecified contents"""
    c = I.path.counter.get("hvS", 0)
    I.path.counter["hvS"] = c + 1
    tab, ph = T.fields["_table"], T.fields["_phase"]
    for old, nm in ((tab, "t"), (ph, "p")):
        fn_old = _bitfn(f"hvS{c}{nm}_old", len(old.shape))
        old.store.f = (lambda *s, _fn=fn_old: _fn(*s))
        old.store.havoc = True
    ft, fp = _bitfn(f"hvS{c}tab", 2), _bitfn(f"hvS{c}ph", 1)
    r_ = to_z3(row) if row is not None else None
    if row is None:
        T.fields["_table"] = new_array(tab.shape, lambda i, j: ft(i, j), "table~")
        T.fields["_phase"] = new_array(ph.shape, lambda i: fp(i), "phase~")
    else:
        T.fields["_table"] = new_array(tab.shape, lambda i, j: z3.If(i == r_, tab_row(j), ft(i, j)), "table~")
        T.fields["_phase"] = new_array(ph.shape, lambda i: z3.If(i == r_, ph_row, fp(i)), "phase~")
    return T


def shape_inv(I, T, n):
    """what havoc_rows builds in: n x 2n bit table, n sign bits, same object and size"""
    tab, ph = T.fields["_table"], T.fields["_phase"]
    n_ = to_z3(n)
    i, j = I.path.fresh("ti"), I.path.fresh("tj")
    return [("n_qubits-unchanged", z3.simplify(to_z3(T.fields["n_qubits"]) == n_)),
            ("table-shape", z3.And(to_z3(tab.shape[0]) == n_, to_z3(tab.shape[1]) == 2 * n_, to_z3(ph.shape[0]) == n_)),
            ("table-bits", z3.And(as_int_term(tab.get(i, j)) >= 0, as_int_term(tab.get(i, j)) <= 1), [i >= 0, i < n_, j >= 0, j < 2 * n_]),
            ("phase-bits", z3.And(as_int_term(ph.get(i)) >= 0, as_int_term(ph.get(i)) <= 1), [i >= 0, i < n_])]


# ------------------------------------------------------------------------------------------ numpy model: np.setdiff1d(a, [c])
def _np_setdiff1d(interp, a, b, *args, **kw):
    """[A] np.setdiff1d(a, [c]) = the sorted unique elements of a other than c.
    a = np.nonzero(v)[0] (strictly increasing, nzseq): the result is a with the position of c removed - explicit, no new
    quantifier:  R(k) = NZ(k) for k < POS(c), NZ(k+1) from there on, length L - 1, if c is listed (0 <= c < len(v), v(c) != 0); else a.
    a = a list of symbolic length (filter theory): an abstract 1-D array whose entries are entries of a and differ from c."""
    if args or kw:
        raise Undecided("np.setdiff1d with options")
    bl = interp.iterate(b) if isinstance(b, (list, tuple, NDArr)) else None
    if bl is None or len(bl) != 1:
        raise Undecided("np.setdiff1d with a second argument other than a one-element sequence")
    c = to_z3(bl[0])
    path = interp.path
    models.used("np.setdiff1d(a, [c]): sorted unique elements of a other than c (explicit for a = np.nonzero(v)[0]; abstract subsequence otherwise)")
    info = path.ghost.get("nz", {}).get(a.store.id) if isinstance(a, NDArr) else None
    if info is not None:
        NZ, POS, L, v, m = info["NZ"], info["POS"], info["L"], info["v"], info["m"]
        listed = z3.And(c >= 0, c < m, as_int_term(v(c)) != 0)
        Lr = L - z3.If(listed, 1, 0)
        R = lambda k: z3.If(z3.And(listed, to_z3(k) >= POS(c)), NZ(to_z3(k) + 1), NZ(to_z3(k)))  # noqa: E731
        out = new_array((Lr,), R, "setdiff1d")
        path.ghost.setdefault("setdiff", {})[out.store.id] = dict(nz=info, c=c, listed=listed, R=R, Lr=Lr)
        return out
    from pyvc.symlist import SymList as _SL

    if isinstance(a, _SL):
        k_ = path.counter.get("sd", 0)
        path.counter["sd"] = k_ + 1
        Lr, IDX = z3.Int(f"sdlen{k_}"), z3.Function(f"SDIDX{k_}", z3.IntSort(), z3.IntSort())
        q = z3.Int(f"sdq{k_}")
        path.assume(z3.And(Lr >= 0, Lr <= to_z3(a.length)))
        path.assume(z3.ForAll([q], z3.Implies(z3.And(q >= 0, q < Lr), z3.And(IDX(q) >= 0, IDX(q) < to_z3(a.length),
                                                                             as_int_term(a.elem(IDX(q))) != c)), patterns=[IDX(q)]))
        return new_array((Lr,), lambda k: as_int_term(a.elem(IDX(to_z3(k)))), "setdiff1d")
    raise Undecided("np.setdiff1d of this kind of first argument")


models.NUMPY["setdiff1d"] = _np_setdiff1d


# ------------------------------------------------------------------------------------------ the task
class SyncTask:
    """runs the REAL body under the recording contracts, then: SYNC(trace) and the functional postcondition post(I, ob, st)"""

    def __init__(self, qual, mk, contracts, loops=(), post=None, label=None, clause="", inline=(), hooks=None, timeout_ms=10000,
                 sync=check_sync, on_raise=None):
        self.qual, self.mk, self.contracts, self.loops, self.post = qual, mk, contracts, list(loops), post
        self.label = label or qual.split(".")[-1] + "[sync+post]"
        self.contract = Contract(qual, clause=clause)
        self.inline = set(TABLEAU_ACCESSORS) | {Q_FEI} | set(inline)
        self.hooks = dict(hooks or {})
        self.timeout_ms = timeout_ms
        self.sync = sync
        self.on_raise = on_raise

    def run(self):
        eng = Engine(self.timeout_ms)
        m, node, cls = source.find(self.qual)

        def harness(path):
            hooks = dict(nzseq.HOOKS)
            hooks.update(self.hooks)
            if self.loops:
                hooks["loop"] = inv_hook(self.loops, fallback=hooks.get("loop"))
            I = Interp(path, self.contracts, self.inline, hooks)
            I.task_name = self.qual
            path.ghost["task"] = self.qual
            f = FuncRef(m.name, node, self.qual, I.get_class(m.name, cls.name))
            I.stack.append(Frame(m.name, {}, self.label))
            args, st = self.mk(I)
            path.ghost["sync"] = st
            path.trace = []
            try:
                I.call_function(f, list(args), {}, force_body=True)
            except RaiseEx as e:
                # a raise is a violation unless the path it happens on is infeasible under the precondition (proved: pc |- false)
                st_, ms_, det_, mod_ = eng.check(path.pc, z3.BoolVal(False))
                eng.record(f"{self.label}:no-raise", st_, ms_, "" if st_ == "discharged" else
                           f"real body raises {e.exc_name}: {e.msg} under the stated precondition ({det_})", mod_)
                return
            eng.record(f"{self.label}:no-raise", "discharged", 0, "", None)
            self.sync(I, self.label + ":post", list(path.trace))
            T = st["T"]
            for item in shape_inv(I, T, st["n"]):
                nm_, g_ = item[0], item[1]
                path.oblige(f"{self.label}:post.{nm_}", g_ if not isinstance(g_, bool) else z3.BoolVal(g_), extra=item[2] if len(item) > 2 else [])
            if self.post is not None:
                def ob(name, goal, extra=()):
                    path.oblige(f"{self.label}:post.{name}", goal if not isinstance(goal, bool) else z3.BoolVal(goal), extra=list(extra))

                self.post(I, ob, st)

        try:
            explore(eng, harness)
        except Undecided as u:
            eng.record(f"{self.label}:supported-subset", "undecided", 0, f"{u}", None)
        for r in eng.results.values():
            r.witness, r.replayed = None, False
            if r.status == "refuted" and r.detail.startswith("RELAXED") and not getattr(self, "keep_relaxed", False):
                # engine policy: a relaxed model proves nothing unless it is confirmed on the real code.  Confirmation here: the SYNC
                # relation fails on an instrumented run of the real solver inside this very helper (native_sync_monitor)
                mine = []
                if ".sync." in r.name:
                    try:
                        mine = [f for f in native_sync_monitor() if f["helper"] == self.qual.split(".")[-1]]
                    except Exception:  # noqa: BLE001
                        mine = []
                if mine:
                    r.witness, r.replayed = dict(native_run=mine[0]), True
                    r.detail = f"confirmed on a real run: {mine[0]} | " + r.detail
                else:
                    r.status = "undecided"
        return eng


def base_contracts(Call):
    C = dict(Call)
    C.update(recording_gate_contracts())
    C.update(circuit_recorders())
    C[Q_CPT] = cpt_recording_contract()
    return C


def mk_state(I, row_x_zero=False, support_at_e=None, photon_part_identity=False):
    """fresh symbolic solver / circuit / working tableau of n_photon + n_emitter qubits, generator index g, emitter index e.
    Preconditions on generator g are built into the symbolic table BY CONSTRUCTION (no quantified assumption)."""
    path = I.path
    n_p, n_e, g, e = z3.Int("n_photon"), z3.Int("n_emitter"), z3.Int("g"), z3.Int("e")
    path.assume(z3.And(n_p >= 0, n_e >= 1, g >= 0, g < n_p + n_e, e >= 0, e < n_e))
    n = n_p + n_e
    B = z3.Function("S_tab", z3.IntSort(), z3.IntSort(), z3.BoolSort())
    Bp = z3.Function("S_r", z3.IntSort(), z3.BoolSort())

    def entry(i, j):
        base = z3.If(B(i, j), z3.IntVal(1), z3.IntVal(0))
        t = base
        if support_at_e == "z":  # Z on emitter e
            t = z3.If(z3.And(i == g, j == n + n_p + e), z3.IntVal(1), t)
        if row_x_zero:  # generator g has no X part at all
            t = z3.If(z3.And(i == g, j < n), z3.IntVal(0), t)
        if photon_part_identity:  # generator g acts on emitters only
            t = z3.If(z3.And(i == g, z3.Or(j < n_p, z3.And(j >= n, j < n + n_p))), z3.IntVal(0), t)
        return t

    from .common import TAB
    T = Obj(I.get_class(TAB, "StabilizerTableau"))
    T.fields["_table"] = new_array((n, 2 * n), entry, "S_tab")
    T.fields["_phase"] = new_array((n,), lambda i: z3.If(Bp(i), z3.IntVal(1), z3.IntVal(0)), "S_r")
    T.fields["n_qubits"] = n
    T.fields["shape"] = (n, 2 * n)
    slf = solver_obj(I, n_p, n_e)
    circ = Obj(I.get_class(CDAG, "CircuitDAG"))
    st = dict(T=T, circuit=circ, slf=slf, n_p=n_p, n_e=n_e, n=n, g=g, e=e, t0=T.fields["_table"].reader(), p0=T.fields["_phase"].reader())
    return st


# ------------------------------------------------------------------------------------------ _transform_generator_emitters
def _tge_processed(st, info, c, k):
    """emitter c has been used as a control in the first k iterations: it is listed (Z on it at entry), is not the target, and its
    position among the listed emitters other than the target is below k"""
    POS, v, m = info["POS"], info["v"], info["m"]
    e = st["e"]
    rpos = z3.If(POS(c) < POS(e), POS(c), POS(c) - 1)
    return z3.And(c >= 0, c < m, as_int_term(v(c)) != 0, c != e, rpos < k)


def tge_row(st, info, k):
    """generator g after k iterations: no X part; Z removed from the processed emitters; everything else as at entry"""
    n, n_p, g, t0 = st["n"], st["n_p"], st["g"], st["t0"]
    return lambda j: z3.If(j < n, z3.IntVal(0), z3.If(z3.And(j >= n + n_p, _tge_processed(st, info, j - n - n_p, k)), z3.IntVal(0), t0(g, j)))


def tge_loops(functional=True):
    def havoc(I, env, k):
        st = ctx_of(I)
        if functional:
            info = list(I.path.ghost["nz"].values())[-1]
            return [havoc_rows(I, st["T"], st["g"], tge_row(st, info, k), st["p0"](st["g"]))]
        return [havoc_rows(I, st["T"])]

    def inv(I, k, env):
        st = ctx_of(I)
        T = st["T"]
        out = [("tableau-is-the-working-object", env.get("tableau") is T)] + shape_inv(I, T, st["n"])
        if functional:
            info = list(I.path.ghost["nz"].values())[-1]
            j = I.path.fresh("rj")
            out.append(("generator-row", as_int_term(T.fields["_table"].get(st["g"], j)) == tge_row(st, info, k)(j), [j >= 0, j < 2 * st["n"]]))
            out.append(("generator-sign-unchanged", as_int_term(T.fields["_phase"].get(st["g"])) == st["p0"](st["g"])))
        return out

    return [InvLoop("_transform_generator_emitters", "control_emitter", None, modifies={"tableau"}, havoc=havoc, inv=inv,
                    trace_check=check_sync, indexed_havoc=True)]


def tge_final_row(st):
    """postcondition: no X part, among the emitters exactly one Z - on the chosen emitter; photon part as at entry"""
    n, n_p, g, e, t0 = st["n"], st["n_p"], st["g"], st["e"], st["t0"]
    return lambda j: z3.If(j < n, z3.IntVal(0), z3.If(j >= n + n_p, z3.If(j == n + n_p + e, z3.IntVal(1), z3.IntVal(0)), t0(g, j)))


def tge_post(I, ob, st):
    T = st["T"]
    j = I.path.fresh("pj")
    ob("generator-has-a-single-Z-among-the-emitters-on-the-chosen-one", as_int_term(T.fields["_table"].get(st["g"], j)) == tge_final_row(st)(j),
       [j >= 0, j < 2 * st["n"]])
    ob("generator-sign-unchanged", as_int_term(T.fields["_phase"].get(st["g"])) == st["p0"](st["g"]))


def tge_task(Call, label=None, post=tge_post, sync=check_sync):
    def mk(I):
        st = mk_state(I, row_x_zero=True, support_at_e="z")
        return [st["slf"], st["circuit"], st["T"], st["g"], st["e"]], st

    return SyncTask(Q_TGE, mk, base_contracts(Call), loops=tge_loops(), post=post, label=label, sync=sync,
                    clause="pre: generator g has no X part and a Z on emitter e.  post: sync; generator g keeps its photon part and sign and "
                           "has exactly one Z among the emitters, on emitter e; other generators: bits (unspecified)")


def sync_tasks(Call=None):
    if Call is None:
        from . import tasks_stab as TS
        Call = TS.all_contracts()
    return [tge_task(Call)]


# ------------------------------------------------------------------------------------------ call-site contracts of verified helpers
def _checked_call(I, name):
    I.path.trace.append({"name": f"call:{name}", "args": [], "self": None, "ret": None, "checked": True})


def single_z_row(n, n_p, g, e, t0):
    """no X part; among the emitters exactly one Z, on emitter e; photon part as in t0"""
    return lambda j: z3.If(j < n, z3.IntVal(0), z3.If(j >= n + n_p, z3.If(j == n + n_p + e, z3.IntVal(1), z3.IntVal(0)), as_int_term(t0(g, j))))


def tge_contract():
    def req(I, slf, circuit, T, g, e):
        st = ctx_of(I)
        n, n_p = st["n"], st["n_p"]
        j = I.path.fresh("rq")
        tab = T.fields["_table"]
        return _and(T is st["T"], circuit is st["circuit"], idx_in(g, n), idx_in(e, st["n_e"]),
                    z3.Implies(z3.And(j >= 0, j < n), as_int_term(tab.get(to_z3(g), j)) == 0),
                    as_int_term(tab.get(to_z3(g), n + n_p + to_z3(e))) == 1)

    def spec(I, slf, circuit, T, g, e):
        st = ctx_of(I)
        t0, p0 = T.fields["_table"].reader(), T.fields["_phase"].reader()
        g_, e_ = to_z3(g), to_z3(e)
        havoc_rows(I, T, g_, single_z_row(st["n"], st["n_p"], g_, e_, t0), as_int_term(p0(g_)))
        _checked_call(I, "_transform_generator_emitters")
        return None

    return Contract(Q_TGE, requires=req, spec=spec, clause="verified by the task _transform_generator_emitters[sync+post]")


# ------------------------------------------------------------------------------------------ _single_out_emitter
def zs_row(st, k, lo=None):
    """generator g after the first k emitters were turned to Z/identity: on emitter columns n_p .. n_p+k-1 no X, Z iff the entry was
    non-trivial; everything else as at entry (t0)"""
    n, n_p, g, t0 = st["n"], st["n_p"], st["g"], st["t0"]

    def row(j):
        jj = z3.If(j < n, j, j - n)
        done = z3.And(jj >= n_p, jj < n_p + k)
        s0 = z3.If(as_int_term(t0(g, jj)) + as_int_term(t0(g, n + jj)) > 0, z3.IntVal(1), z3.IntVal(0))
        return z3.If(done, z3.If(j < n, z3.IntVal(0), s0), as_int_term(t0(g, j)))

    return row


def zs_loops(func, functional=True):
    def havoc(I, env, k):
        st = ctx_of(I)
        if functional:
            return [havoc_rows(I, st["T"], st["g"], zs_row(st, k), as_int_term(st["p0"](st["g"])))]
        return [havoc_rows(I, st["T"])]

    def inv(I, k, env):
        st = ctx_of(I)
        T = st["T"]
        out = [("tableau-is-the-working-object", env.get("tableau") is T)] + shape_inv(I, T, st["n"])
        if functional:
            j = I.path.fresh("rj")
            out.append(("generator-row", as_int_term(T.fields["_table"].get(st["g"], j)) == zs_row(st, k)(j), [j >= 0, j < 2 * st["n"]]))
            out.append(("generator-sign-unchanged", as_int_term(T.fields["_phase"].get(st["g"])) == as_int_term(st["p0"](st["g"]))))
        return out

    # iter_text None: whatever range the real header uses, iteration k must turn emitter k (the trip count is taken from the real iterable)
    return [InvLoop(func, "i", None, modifies={"tableau"}, havoc=havoc, inv=inv, locals={"gate_list"}, body_has="_change_pauli_type",
                    trace_check=check_sync, indexed_havoc=True)]


def plus_z_on(n, q):
    """the generator +Z_q: a single Z on qubit q"""
    return lambda j: z3.If(j == n + q, z3.IntVal(1), z3.IntVal(0))


def soe_post(I, ob, st):
    T = st["T"]
    j = I.path.fresh("pj")
    ob("generator-is-Z-on-the-chosen-emitter-identity-elsewhere", as_int_term(T.fields["_table"].get(st["g"], j)) == plus_z_on(st["n"], st["n_p"] + st["e"])(j),
       [j >= 0, j < 2 * st["n"]])
    ob("generator-sign-is-plus", as_int_term(T.fields["_phase"].get(st["g"])) == 0)


def _nontrivial_at(st, e):
    n, n_p, g, t0 = st["n"], st["n_p"], st["g"], st["t0"]
    return as_int_term(t0(g, n_p + e)) + as_int_term(t0(g, n + n_p + e)) > 0


def soe_task(Call, label=None, post=soe_post, sync=check_sync):
    def mk(I):
        st = mk_state(I, photon_part_identity=True)
        I.path.assume(_nontrivial_at(st, st["e"]))
        return [st["slf"], st["circuit"], st["T"], st["g"], st["e"]], st

    C = base_contracts(Call)
    C[Q_TGE] = tge_contract()
    return SyncTask(Q_SOE, mk, C, loops=zs_loops("_single_out_emitter"), post=post, label=label, sync=sync,
                    clause="pre: generator g acts on emitters only and non-trivially on emitter e.  post: sync; generator g = +Z on emitter e, "
                           "identity on every other qubit (sign repaired); other generators: bits (unspecified)")


def soe_contract():
    def req(I, slf, circuit, T, g, e):
        st = ctx_of(I)
        n, n_p = st["n"], st["n_p"]
        j = I.path.fresh("rq")
        tab = T.fields["_table"]
        g_, e_ = to_z3(g), to_z3(e)
        return _and(T is st["T"], circuit is st["circuit"], idx_in(g, n), idx_in(e, st["n_e"]),
                    z3.Implies(z3.And(j >= 0, j < n_p), z3.And(as_int_term(tab.get(g_, j)) == 0, as_int_term(tab.get(g_, n + j)) == 0)),
                    as_int_term(tab.get(g_, n_p + e_)) + as_int_term(tab.get(g_, n + n_p + e_)) > 0)

    def spec(I, slf, circuit, T, g, e):
        st = ctx_of(I)
        havoc_rows(I, T, to_z3(g), plus_z_on(st["n"], st["n_p"] + to_z3(e)), z3.IntVal(0))
        st["sel"] = (to_z3(g), to_z3(e))
        _checked_call(I, "_single_out_emitter")
        return None

    return Contract(Q_SOE, requires=req, spec=spec, clause="verified by the task _single_out_emitter[sync+post]")


def sync_tasks(Call=None):  # noqa: F811
    if Call is None:
        from . import tasks_stab as TS
        Call = TS.all_contracts()
    return [tge_task(Call), soe_task(Call)]


# ------------------------------------------------------------------------------------------ _add_photon_absorption
import ast as _ast  # noqa: E402


def abs_scan_hook(interp, node, it):
    """`for i in range(n - 1, -1, -1): if leftmost_nontrivial_index(tableau, i) == photon_index: generator_index = i; break`
    PROTOCOL PRECONDITION (assumed, [B-only] that solve establishes it): the scan selects generator g of the precondition, i.e. no
    later generator passes (or trips) the test.  PROVED: generator g passes the test (its leftmost non-trivial qubit is photon_index)."""
    fr = interp.stack[-1]
    if not (fr.func_name.endswith("_add_photon_absorption") and _ast.unparse(node.iter) == "range(tableau.n_qubits - 1, -1, -1)"):
        return False
    body = node.body
    if not (len(body) == 1 and isinstance(body[0], _ast.If) and not body[0].orelse and not node.orelse
            and isinstance(body[0].body[-1], _ast.Break) and isinstance(node.target, _ast.Name)):
        raise Undecided("the scan for the generator to absorb no longer has the shape `for i: if test(i): ...; break`")
    st = ctx_of(interp)
    fr.env[node.target.id] = st["g"]
    c = interp.truth_term(interp.eval(body[0].test))
    interp.path.oblige(f"{fr.func_name}:scan.the-selected-generator-has-its-leftmost-non-trivial-qubit-at-photon_index", c)
    interp.path.assume(c)
    interp.exec_block(body[0].body[:-1])
    return True


def abs_base_row(st):
    """generator g after the photon's Pauli was turned to Z: as at entry except (X,Z) = (0,1) at photon_index"""
    n, g, p, t0 = st["n"], st["g"], st["p"], st["t0"]
    return lambda i, j: z3.If(z3.And(i == g, j == p), z3.IntVal(0), z3.If(z3.And(i == g, j == n + p), z3.IntVal(1), as_int_term(t0(i, j))))


def abs_loops():
    L = zs_loops("_add_photon_absorption")

    def havoc(I, env, k):
        st = ctx_of(I)
        return [havoc_rows(I, st["T"], st["g"], plus_z_on(st["n"], st["p"]), z3.IntVal(0))]

    def inv(I, k, env):
        st = ctx_of(I)
        T = st["T"]
        j = I.path.fresh("rj")
        return [("tableau-is-the-working-object", env.get("tableau") is T)] + shape_inv(I, T, st["n"]) + [
            ("absorbed-generator-kept", as_int_term(T.fields["_table"].get(st["g"], j)) == plus_z_on(st["n"], st["p"])(j), [j >= 0, j < 2 * st["n"]]),
            ("absorbed-generator-sign-kept", as_int_term(T.fields["_phase"].get(st["g"])) == 0)]

    L.append(InvLoop("_add_photon_absorption", "i", None, modifies={"tableau"}, havoc=havoc, inv=inv, trace_check=check_sync,
                     indexed_havoc=True, body_has="tab_row_sum"))
    return L


def abs_post(I, ob, st):
    T = st["T"]
    j = I.path.fresh("pj")
    ob("absorbed-photon-generator-is-plus-Z-on-the-photon-only", as_int_term(T.fields["_table"].get(st["g"], j)) == plus_z_on(st["n"], st["p"])(j),
       [j >= 0, j < 2 * st["n"]])
    ob("absorbed-photon-generator-sign-is-plus", as_int_term(T.fields["_phase"].get(st["g"])) == 0)


def abs_task(Call, label=None, post=abs_post, sync=check_sync):
    def mk(I):
        st = mk_state(I)
        path = I.path
        p, w = z3.Int("photon_index"), z3.Int("w_emitter")
        n, n_p, g = st["n"], st["n_p"], st["g"]
        path.assume(z3.And(p >= 0, p < n_p, w >= 0, w < st["n_e"]))
        B = z3.Function("S_tab", z3.IntSort(), z3.IntSort(), z3.BoolSort())

        def entry(i, j):  # generator g is the identity on every photon other than photon_index
            jj = z3.If(j < n, j, j - n)
            return z3.If(z3.And(i == g, jj < n_p, jj != p), z3.IntVal(0), z3.If(B(i, j), z3.IntVal(1), z3.IntVal(0)))

        T = st["T"]
        T.fields["_table"] = new_array((n, 2 * n), entry, "S_tab")
        t0 = T.fields["_table"].reader()
        path.assume(as_int_term(t0(g, p)) + as_int_term(t0(g, n + p)) > 0)  # ... non-trivial on photon_index
        path.assume(as_int_term(t0(g, n_p + w)) + as_int_term(t0(g, n + n_p + w)) > 0)  # ... and on some emitter
        st.update(p=p, w=w, t0=t0)
        st["t_entry"] = t0
        # the Z-loop's base state: entry with Z at photon_index
        base = abs_base_row(st)
        st["t0"] = base
        st.pop("e")
        return [st["slf"], st["circuit"], T, p], st

    C = base_contracts(Call)
    C[Q_TGE] = tge_contract()
    return SyncTask(Q_ABS, mk, C, loops=abs_loops(), post=post, label=label, sync=sync, hooks={"loop": abs_scan_hook},
                    clause="pre [protocol]: the scan selects a generator g that is non-trivial on photon_index, the identity on every other photon and "
                           "non-trivial on some emitter.  post: sync (photon gate, emitter gates, emitter CNOTs, sign repair, emission CNOT); "
                           "generator g = +Z on photon_index only (the photon is absorbed in |0>); row operations afterwards keep it")


def sync_tasks(Call=None):  # noqa: F811
    if Call is None:
        from . import tasks_stab as TS
        Call = TS.all_contracts()
    return [tge_task(Call), soe_task(Call), abs_task(Call)]


# ------------------------------------------------------------------------------------------ _time_reversed_measurement
def _np_where1(interp, cond, *rest, **kw):
    """[A] np.where(cond) with ONE argument is np.nonzero(cond)"""
    if rest or kw:
        raise Undecided("np.where with three arguments")
    models.used("np.where(cond) == np.nonzero(cond)")
    return models.NUMPY["nonzero"](interp, cond)


models.NUMPY.setdefault("where", _np_where1)


def trm_post(I, ob, st):
    """after the whole step: H on the measured emitter and CNOT(e -> photon) turn +Z_e into +X_e X_photon"""
    T = st["T"]
    ob("a-generator-was-singled-out", st.get("sel") is not None)
    if st.get("sel") is None:
        return
    s_, e_ = st["sel"]
    n, n_p, p = st["n"], st["n_p"], st["p"]
    j = I.path.fresh("pj")
    want = z3.If(z3.Or(j == n_p + e_, j == p), z3.IntVal(1), z3.IntVal(0))
    ob("selected-generator-is-plus-X-on-the-measured-emitter-and-the-photon", as_int_term(T.fields["_table"].get(s_, j)) == want, [j >= 0, j < 2 * n])
    ob("selected-generator-sign-is-plus", as_int_term(T.fields["_phase"].get(s_)) == 0)


def _trm_nonzero_with_instances(interp, a):
    """np.nonzero as in pyvc/nzseq.py, plus explicit INSTANCES of axioms that are already assumed (no new assumption): for the
    selected generator s = possible_generators[0]: the WIT axiom at s, the not-any axiom at (s, WIT(s)), N4 at WIT(s) - n_photon"""
    out = nzseq.np_nonzero(interp, a)
    path = interp.path
    st = path.ghost.get("sync", {})
    seen = path.ghost.setdefault("trm_nz", [])
    seen.append(out[0])
    if len(seen) == 2 and "WIT" in st and path.ghost.get("anyrows"):
        n, n_p, t0, WIT = st["n"], st["n_p"], st["t0"], st["WIT"]
        s_ = as_int_term(seen[0].get(0))
        w = WIT(s_)
        ar = list(path.ghost["anyrows"].values())[-1]
        path.assume(z3.Implies(z3.And(s_ >= 0, s_ < n), z3.And(w >= 0, w < n, as_int_term(t0(s_, w)) + as_int_term(t0(s_, n + w)) > 0)))
        path.assume(z3.Implies(z3.And(s_ >= 0, s_ < ar["rows"], z3.Not(ar["ANY"](s_)), w >= 0, w < ar["cols"]), as_int_term(ar["rd"](s_, w)) == 0))
        info = path.ghost["nz"][out[0].store.id]
        i_ = w - n_p
        path.assume(z3.Implies(z3.And(i_ >= 0, i_ < info["m"], as_int_term(info["v"](i_)) != 0),
                               z3.And(info["POS"](i_) >= 0, info["POS"](i_) < info["L"], info["NZ"](info["POS"](i_)) == i_)))
    return out


def trm_task(Call, label=None, sync=check_sync):
    def mk(I):
        st = mk_state(I)
        path = I.path
        p = z3.Int("photon_index")
        n, n_p = st["n"], st["n_p"]
        path.assume(z3.And(p >= 0, p < n_p))
        t0 = st["t0"]
        # PROTOCOL PRECONDITIONS (assumed; [B-only] that solve establishes them):
        #  (P1) some generator acts on the emitters only: generator g0 (ghost) has an identity photon part
        #  (P2) no generator is the identity: WIT(i) is a non-trivial qubit of generator i
        g0 = st["g"]
        B = z3.Function("S_tab", z3.IntSort(), z3.IntSort(), z3.BoolSort())

        def entry(i, j):
            jj = z3.If(j < n, j, j - n)
            return z3.If(z3.And(i == g0, jj < n_p), z3.IntVal(0), z3.If(B(i, j), z3.IntVal(1), z3.IntVal(0)))

        T = st["T"]
        T.fields["_table"] = new_array((n, 2 * n), entry, "S_tab")
        t0 = T.fields["_table"].reader()
        WIT = z3.Function("WIT", z3.IntSort(), z3.IntSort())
        i_ = z3.Int("wit_i")
        path.assume(z3.ForAll([i_], z3.Implies(z3.And(i_ >= 0, i_ < n), z3.And(WIT(i_) >= 0, WIT(i_) < n, as_int_term(t0(i_, WIT(i_)))
                                                                             + as_int_term(t0(i_, n + WIT(i_))) > 0)), patterns=[WIT(i_)]))
        st.update(p=p, t0=t0, WIT=WIT)
        st.pop("e")
        return [st["slf"], st["circuit"], T, p], st

    C = base_contracts(Call)
    C[Q_SOE] = soe_contract()
    return SyncTask(Q_TRM, mk, C, loops=[], post=trm_post, label=label, sync=sync, hooks={"np_nonzero": _trm_nonzero_with_instances},
                    clause="pre [protocol]: some generator acts on the emitters only; no generator is the identity.  post: sync - the generator is "
                           "singled out (callee contract), then H on the chosen emitter and CNOT(emitter -> photon_index) on the tableau are "
                           "mirrored by ONE MeasurementCNOTandReset(emitter -> photon_index) [L_meas]; no assert / index error; the singled-out "
                           "generator ends as +X_emitter X_photon")


def sync_tasks(Call=None):  # noqa: F811
    if Call is None:
        from . import tasks_stab as TS
        Call = TS.all_contracts()
    return [tge_task(Call), soe_task(Call), abs_task(Call), trm_task(Call)]


# =============================================================================================
# canaries (deliberately wrong contracts; must be refuted) and a native cross-check
# =============================================================================================
def check_sync_swapped(I, label, events):
    """WRONG relation: the emitter-emitter CNOT of the circuit is mirrored with control and target exchanged"""
    ev2 = []
    for e in events:
        if e.get("name") == "cnot_ee":
            e = dict(e)
            e["args"] = [e["args"][0], e["args"][2], e["args"][1]]
        ev2.append(e)
    return check_sync(I, label, ev2)


def _soe_post_sign_untouched(I, ob, st):
    T = st["T"]
    ob("generator-sign-is-as-at-entry", as_int_term(T.fields["_phase"].get(st["g"])) == as_int_term(st["p0"](st["g"])))


def _abs_post_emitter_keeps_z(I, ob, st):
    T = st["T"]
    j = I.path.fresh("pj")
    ob("absorbed-generator-still-has-a-Z-on-an-emitter", z3.Implies(z3.And(j >= st["n"] + st["n_p"], j < 2 * st["n"]),
                                                                      as_int_term(T.fields["_table"].get(st["g"], j)) == 1), [j >= 0, j < 2 * st["n"]])


def check_sync_next_qubit(I, label, events):
    """WRONG relation: the one-qubit wrapper sits on the qubit AFTER the one whose Pauli was changed"""
    ev2 = []
    for e in events:
        if e.get("name") == "one_qubit":
            e = dict(e)
            e["args"] = [e["args"][0], e["args"][1], to_z3(e["args"][2]) - 1]
        ev2.append(e)
    return check_sync(I, label, ev2)


def sync_canaries(Call=None):
    if Call is None:
        from . import tasks_stab as TS
        Call = TS.all_contracts()
    t1 = tge_task(Call, label="canary._transform_generator_emitters.cnot-mirrored-with-swapped-roles", sync=check_sync_swapped)
    for lp in t1.loops:
        lp.trace_check = check_sync_swapped
    t1.timeout_ms = 1500  # refuted through the relaxed (quantifier-free) model after a short time-out; replay: native_cross_check
    t1.keep_relaxed = True
    t2 = soe_task(Call, label="canary._single_out_emitter.wrapper-on-the-next-qubit", sync=check_sync_next_qubit)
    for lp in t2.loops:
        lp.trace_check = check_sync_next_qubit
    return [t1, t2, soe_task(Call, label="canary._single_out_emitter.sign-untouched", post=_soe_post_sign_untouched)]


def native_cross_check():
    """ONE instrumented run of the real helpers (sanity check of the recorder set-up and replay of the canaries' wrong claims):
    n_photon = 1, n_emitter = 3, generator 1 = -X_e0 Y_e1 Z_e2 (photon part identity), chosen emitter 0."""
    import importlib
    import numpy as np

    trs = importlib.import_module(TRS)
    tabm = importlib.import_module("graphiq.backends.stabilizer.tableau")
    dagm = importlib.import_module(CDAG)
    tr = trs.transform
    n_p, n_e, n = 1, 3, 4
    x = np.zeros((n, n), dtype=int)
    z = np.zeros((n, n), dtype=int)
    z[0, 0] = 1
    x[1, 1], x[1, 2], z[1, 2], z[1, 3] = 1, 1, 1, 1
    z[2, 2] = 1
    x[3, 3] = 1
    ph = np.array([0, 1, 0, 0])
    T = tabm.StabilizerTableau(np.hstack([x, z]), ph)
    slf = object.__new__(trs.TimeReversedSolver)
    slf.n_photon, slf.n_emitter = n_p, n_e
    slf.noise_model_mapping = {"e": {}, "p": {}, "ee": {}, "ep": {}}
    circ = dagm.CircuitDAG(n_emitter=n_e, n_photon=n_p, n_classical=1)
    events, saved, depth = [], {}, [0]
    names = ["hadamard_gate", "phase_gate", "phase_dagger_gate", "x_gate", "cnot_gate"]
    for g in names:
        saved[g] = getattr(tr, g)

        def mk(fn, g=g):
            def wrapped(t, *a):
                if depth[0] == 0:  # top-level calls only (phase_dagger_gate / x_gate are built from other gates)
                    events.append(("tab", g, tuple(int(v) for v in a)))
                depth[0] += 1
                try:
                    return fn(t, *a)
                finally:
                    depth[0] -= 1
            return wrapped

        setattr(tr, g, mk(saved[g]))
    cls = trs.TimeReversedSolver
    saved_m = {m_: getattr(cls, m_) for m_ in ("_add_one_emitter_cnot", "_add_one_qubit_gate")}

    def mkm(fn, nm):
        def wrapped(self, circuit, *a):
            events.append(("circ", nm, tuple(a)))
            return fn(self, circuit, *a)
        return wrapped

    try:
        for m_, fn in saved_m.items():
            setattr(cls, m_, mkm(fn, m_))
        slf._single_out_emitter(circ, T, 1, 0)
    finally:
        for g, fn in saved.items():
            setattr(tr, g, fn)
        for m_, fn in saved_m.items():
            setattr(cls, m_, fn)
    row_ok = (not T.x_matrix[1].any()) and list(T.z_matrix[1]) == [0, 1, 0, 0]
    sign_plus = int(T.phase[1]) == 0
    tab_cnots = [e[2] for e in events if e[0] == "tab" and e[1] == "cnot_gate"]
    circ_cnots = [tuple(int(v) for v in e[2]) for e in events if e[0] == "circ" and e[1] == "_add_one_emitter_cnot"]
    rel = len(tab_cnots) == len(circ_cnots) and all(t == (n_p + c[0], n_p + c[1]) for t, c in zip(tab_cnots, circ_cnots))
    rel_swapped = len(tab_cnots) == len(circ_cnots) and all(t == (n_p + c[1], n_p + c[0]) for t, c in zip(tab_cnots, circ_cnots))
    ops_front = []
    for r in range(n_e):
        e0 = list(circ.dag.out_edges(nbunch=f"e{r}_in", keys=True))[0]
        ops_front.append(type(circ.dag.nodes[e0[1]]["op"]).__name__)
    return dict(input=dict(n_photon=n_p, n_emitter=n_e, generator=1, emitter=0, table=np.hstack([x, z]).tolist(), phase=ph.tolist()),
                events=[[a, b, [str(v) if not isinstance(v, int) else v for v in c]] for a, b, c in events],
                contract_post_holds=bool(row_ok and sign_plus), canary_sign_untouched_holds=bool(int(T.phase[1]) == 1),
                contract_relation_holds=bool(rel and tab_cnots), canary_relation_holds=bool(rel_swapped), first_ops_on_emitter_wires=ops_front)


# =============================================================================================
# native replay for relaxed refutations: the SYNC relation evaluated on instrumented runs of the REAL solver
# =============================================================================================
_NATIVE = {}


def native_sync_monitor():
    """Runs the real TimeReversedSolver.solve on a few small targets with recorders around transform.* (top-level calls), the four
    circuit helpers and _change_pauli_type, and evaluates SYNC concretely on the whole run (SYNC is closed under concatenation, and
    _add_gates_from_str obeys the same pairing).  -> list of failures [{helper, target, what}] (empty: the relation holds on every run).
    Used ONLY to confirm a refutation whose counter-model came from the relaxed (quantifier-free) query - never to discharge anything."""
    if "fails" in _NATIVE:
        return _NATIVE["fails"]
    import importlib
    import networkx as nx
    import numpy as np

    trs = importlib.import_module(TRS)
    tr = trs.transform
    cls = trs.TimeReversedSolver
    fails = []
    targets = {"path4": nx.path_graph(4), "star4": nx.star_graph(3), "cycle5": nx.cycle_graph(5), "K4": nx.complete_graph(4),
               "ladder": nx.ladder_graph(3)}
    helpers = ["_transform_generator_emitters", "_single_out_emitter", "_add_photon_absorption", "_time_reversed_measurement", "_add_gates_from_str"]
    try:
        from graphiq.state import QuantumState
        from graphiq.metrics import Infidelity
        from graphiq.backends.stabilizer.compiler import StabilizerCompiler
    except Exception as e:  # noqa: BLE001
        _NATIVE["fails"] = [dict(helper="*", target="import", what=f"{type(e).__name__}: {e}")]
        return _NATIVE["fails"]
    for tname, gr in targets.items():
        events, stack, depth, in_cpt, active = [], ["solve"], [0], [None], [False]
        saved_g, saved_m, saved_inv = {}, {}, []

        def mk_gate(fn, g):
            def wrapped(t, *a):
                if depth[0] == 0 and active[0]:
                    if in_cpt[0] is not None:
                        in_cpt[0]["gates"].append((g, tuple(int(v) for v in a)))
                    else:
                        events.append(dict(side="tab", name=g, args=tuple(int(v) for v in a), helper=stack[-1]))
                depth[0] += 1
                try:
                    return fn(t, *a)
                finally:
                    depth[0] -= 1
            return wrapped

        def mk_circ(fn, nm):
            def wrapped(self, circuit, *a):
                ev = dict(side="circ", name=nm, args=a, helper=stack[-1])
                if nm == "one_qubit":
                    ev["src"], ev["classes"], ev["args"] = a[0], [c.__name__ for c in a[0]], (None, int(a[1]))
                else:
                    ev["args"] = tuple(int(v) for v in a)
                events.append(ev)
                return fn(self, circuit, *a)
            return wrapped

        def mk_cpt(fn):
            def wrapped(self, tableau, row, column, result="z"):
                ev = dict(side="tab", name="cpt", args=(int(row), int(column)), gates=[], helper=stack[-1])
                in_cpt[0] = ev
                try:
                    ret = fn(self, tableau, row, column, result)
                finally:
                    in_cpt[0] = None
                ev["ret"], ev["classes"] = ret, [c.__name__ for c in ret]
                events.append(ev)
                return ret
            return wrapped

        def mk_helper(fn, nm):
            def wrapped(self, *a, **k):
                stack.append(nm)
                try:
                    return fn(self, *a, **k)
                finally:
                    stack.pop()
            return wrapped

        try:
            for g in ONE_Q_GATES + TWO_Q_GATES:
                saved_g[g] = getattr(tr, g)
                setattr(tr, g, mk_gate(saved_g[g], g))
            for m_, nm in ((Q_ONE, "one_qubit"), (Q_EE, "cnot_ee"), (Q_EP, "cnot_ep"), (Q_MEAS, "meas")):
                short = m_.split(".")[-1]
                saved_m[short] = getattr(cls, short)
                setattr(cls, short, mk_circ(saved_m[short], nm))
            saved_m["_change_pauli_type"] = cls._change_pauli_type
            cls._change_pauli_type = mk_cpt(saved_m["_change_pauli_type"])
            for h in helpers:
                saved_m[h] = getattr(cls, h)
                setattr(cls, h, mk_helper(saved_m[h], h))
            target = QuantumState(gr, rep_type="g")
            solver = cls(target=target, metric=Infidelity(target=target), compiler=StabilizerCompiler())
            n_p = solver.n_photon
            real_compile = solver.compiler.compile

            def compile_unrecorded(*a, **k):  # the simulation of the finished circuit is not part of the construction
                active[0] = False
                return real_compile(*a, **k)

            solver.compiler.compile = compile_unrecorded
            real_inverse = trs.sfs.inverse_circuit

            def inverse_unrecorded(t):  # synthesis on a COPY of the working tableau: not a gate on the working tableau
                was, active[0] = active[0], False
                try:
                    return real_inverse(t)
                finally:
                    active[0] = was

            trs.sfs.inverse_circuit = inverse_unrecorded
            saved_inv.append(real_inverse)
            active[0] = True  # only the construction inside solve() is recorded (not the target's conversion in __init__)
            try:
                solver.solve()
            except Exception as e:  # noqa: BLE001 - a mutant may break the protocol; the events recorded so far are still judged
                events.append(dict(side="note", name="raised", what=f"{type(e).__name__}: {e}", helper=stack[-1]))
        except Exception as e:  # noqa: BLE001
            fails.append(dict(helper="*", target=tname, what=f"set-up failed: {type(e).__name__}: {e}"))
            continue
        finally:
            for g, fn in saved_g.items():
                setattr(tr, g, fn)
            for m_, fn in saved_m.items():
                setattr(cls, m_, fn)
            if saved_inv:
                trs.sfs.inverse_circuit = saved_inv[0]
        tab = [e for e in events if e["side"] == "tab" and not (e["name"] == "cpt" and not e["gates"])]
        cir = [e for e in events if e["side"] == "circ" and not (e["name"] == "one_qubit" and not e["classes"])]
        pos = 0
        for ce in cir:
            seg = tab[pos:pos + ARITY[ce["name"]]]
            pos += ARITY[ce["name"]]
            bad = None
            if len(seg) < ARITY[ce["name"]]:
                bad = "no tableau counterpart"
            elif ce["name"] == "one_qubit":
                te = seg[0]
                if te["name"] == "cpt":
                    if ce["src"] is not te["ret"] or ce["args"][1] != te["args"][1] or any(q != (te["args"][1],) for _, q in te["gates"]):
                        bad = f"wrapper {ce['classes']}@{ce['args'][1]} vs _change_pauli_type column {te['args'][1]} gates {te['gates']}"
                elif te["name"] in ONE_Q_GATES:
                    if not _inverts(ce["classes"], te["name"]) or te["args"] != (ce["args"][1],):
                        bad = f"wrapper {ce['classes']}@{ce['args'][1]} vs {te['name']}{te['args']}"
                else:
                    bad = f"wrapper vs {te['name']}"
            elif ce["name"] in ("cnot_ee", "cnot_ep"):
                te = seg[0]
                want = (n_p + ce["args"][0], n_p + ce["args"][1]) if ce["name"] == "cnot_ee" else (n_p + ce["args"][0], ce["args"][1])
                if te["name"] != "cnot_gate" or te["args"] != want:
                    bad = f"{ce['name']}{ce['args']} vs {te['name']}{te['args']} (expected cnot_gate{want})"
            else:
                h_, cx = seg
                if (h_["name"], h_["args"], cx["name"], cx["args"]) != ("hadamard_gate", (n_p + ce["args"][0],), "cnot_gate", (n_p + ce["args"][0], ce["args"][1])):
                    bad = f"meas{ce['args']} vs {h_['name']}{h_['args']}, {cx['name']}{cx['args']}"
            if bad:
                fails.append(dict(helper=ce["helper"], target=tname, what=bad))
                break
        else:
            if pos != len(tab):
                te = tab[pos]
                fails.append(dict(helper=te["helper"], target=tname, what=f"tableau gate {te['name']}{te['args']} has no circuit operation"))
    _NATIVE["fails"] = fails
    return fails
