"""C13 / C07 / C08 - the tableau constructors store COPIES: `StabilizerTableau.__init__` and `CliffordTableau.__init__`
(graphiq/backends/stabilizer/tableau.py, clifford_tableau.py).

Every conversion, metric, comparison and solver builds tableaux from arrays the caller still holds (`StabilizerTableau([x, z], phase)`,
`CliffordTableau(table, phase)`, `CliffordTableau(other_tableau)`), and the row helpers (tab_row_swap / tab_row_sum / the gate functions)
write into the stored buffers IN PLACE.  "Library calls do not mutate their inputs" (C13) therefore rests on the constructors:

  post   self._table[i, j] == data[i, j]  (list input: the two halves side by side), self._phase[i] == phase[i] (all zero when no /
         an ill-shaped phase is given), n_qubits, shape, (Clifford) _iphase == 0 / copied from the source tableau;
  frame  the stored `_table` / `_phase` / `_iphase` buffers are FRESH - none of them is a buffer reachable from an argument - and no
         argument buffer is written.  (pyvc compares object identity of every store: `...store.identity`.)

The REAL constructor body is executed; int- and float-dtype arguments are both checked because numpy's no-copy conversions
(`np.asarray(x, dtype)`, `x.astype(t, copy=False)`) alias exactly when the dtype already matches (models.py [A]).
No replay item: the harness supplies the uninitialised `self`; a refuted obligation is reported `no-failing-input-found`, the bounded
monitors of C13 (`metric.evaluate.frame`, constructor aliasing items) hold the native witness.
"""
from __future__ import annotations

import z3

from pyvc.contract import Contract, Task
from pyvc import schema as S
from pyvc.values import NDArr, Obj, new_array, to_z3
from .common import TAB, TABLEAU_ACCESSORS

CTAB = "graphiq.backends.stabilizer.clifford_tableau"
SINIT = f"{TAB}:StabilizerTableau.__init__"
CINIT = f"{CTAB}:CliffordTableau.__init__"
CPH = f"{CTAB}:CliffordTableau._initialize_phase"
C = {}

n = z3.Int("n")


def _copy(a, label):
    rd = a.reader()
    return new_array(tuple(a.shape), lambda *i: rd(*i), label)


def _zeros(shape, label):
    return new_array(tuple(shape), lambda *i: z3.IntVal(0), label)


# ------------------------------------------------------------------------------------------------ StabilizerTableau
def _s_spec(I, self, data, phase=None):
    if isinstance(data, list):
        x, z = data
        rx, rz = x.reader(), z.reader()
        nq = x.shape[1]
        cols = to_z3(x.shape[1])
        self.fields["_table"] = new_array((x.shape[0], 2 * nq if isinstance(nq, int) else z3.simplify(2 * cols)),
                                          lambda i, j: z3.If(j < cols, rx(i, j), rz(i, j - cols)), "table'")
    else:
        nq = data.shape[0]
        self.fields["_table"] = _copy(data, "table'")
    self.fields["n_qubits"] = nq
    self.fields["_phase"] = _copy(phase, "phase'") if isinstance(phase, NDArr) else _zeros((nq,), "phase0")
    self.fields["shape"] = (nq, 2 * nq)
    return None


C[SINIT] = Contract(SINIT, spec=_s_spec,
                    clause="_table / _phase hold the given values in FRESH buffers (no argument buffer is stored or written); "
                           "phase defaults to all-plus; n_qubits, shape")


# ------------------------------------------------------------------------------------------------ CliffordTableau
def _c_spec(I, self, data, phase=None):
    if isinstance(data, Obj):
        self.fields["_table"] = _copy(data.fields["_table"], "table'")
        self.fields["n_qubits"] = data.fields["n_qubits"]
        self.fields["_phase"] = _copy(data.fields["_phase"], "phase'")
        self.fields["_iphase"] = _copy(data.fields["_iphase"], "iphase'")
        nq = data.fields["n_qubits"]
    else:
        nq = n
        self.fields["_table"] = _copy(data, "table'")
        self.fields["n_qubits"] = nq
        self.fields["_phase"] = _copy(phase, "phase'") if isinstance(phase, NDArr) else _zeros((2 * nq,), "phase0")
        self.fields["_iphase"] = _zeros((2 * nq,), "iphase0")
    self.fields["shape"] = (2 * nq, 2 * nq)
    return None


C[CINIT] = Contract(CINIT, spec=_c_spec,
                    clause="_table / _phase / _iphase hold the given values in FRESH buffers; phases default to zero; n_qubits, shape")


def _mk(mod, cls, items):
    assumes = [it for it in items if it.skip]
    args = [it for it in items if not it.skip]

    def f(I):
        for a in assumes:
            a.symbolic(I)
        return [Obj(I.get_class(mod, cls))] + [it.symbolic(I) for it in args]

    return f


class _ListOf2(S.Item):
    """[x, z]: a python list of two arrays"""
    skip = False

    def __init__(self, a, b):
        self.a, self.b, self.name = a, b, "data"

    def symbolic(self, I):
        return [self.a.symbolic(I), self.b.symbolic(I)]


INLINE_S = set(TABLEAU_ACCESSORS)
INLINE_C = set(TABLEAU_ACCESSORS) | {CPH}


def tasks():
    T = []
    pos = S.Assume(n >= 1)
    for dt in ("int", "float"):
        for pdt in ("int", "float"):
            T.append(Task(SINIT, C[SINIT], _mk(TAB, "StabilizerTableau", [pos, S.NDInput("data", (n, 2 * n), dtype=dt),
                                                                          S.NDInput("phase", (n,), dtype=pdt)]), C,
                          inline=INLINE_S, label=f"StabilizerTableau.__init__[ndarray {dt}, phase {pdt}]"))
            T.append(Task(CINIT, C[CINIT], _mk(CTAB, "CliffordTableau", [pos, S.NDInput("data", (2 * n, 2 * n), dtype=dt),
                                                                         S.NDInput("phase", (2 * n,), dtype=pdt)]), C,
                          inline=INLINE_C, label=f"CliffordTableau.__init__[ndarray {dt}, phase {pdt}]"))
        T.append(Task(SINIT, C[SINIT], _mk(TAB, "StabilizerTableau", [pos, S.NDInput("data", (n, 2 * n), dtype=dt), S.Const("phase", None)]),
                      C, inline=INLINE_S, label=f"StabilizerTableau.__init__[ndarray {dt}, no phase]"))
        T.append(Task(SINIT, C[SINIT], _mk(TAB, "StabilizerTableau", [pos, _ListOf2(S.NDInput("x", (n, n), dtype=dt),
                                                                                   S.NDInput("z", (n, n), dtype=dt)),
                                                                      S.NDInput("phase", (n,), dtype=dt)]),
                      C, inline=INLINE_S, label=f"StabilizerTableau.__init__[[x, z] {dt}, phase {dt}]"))
        T.append(Task(CINIT, C[CINIT], _mk(CTAB, "CliffordTableau", [pos, S.NDInput("data", (2 * n, 2 * n), dtype=dt), S.Const("phase", None)]),
                      C, inline=INLINE_C, label=f"CliffordTableau.__init__[ndarray {dt}, no phase]"))
    T.append(Task(CINIT, C[CINIT], _mk(CTAB, "CliffordTableau", [S.Clifford("T")]), C, inline=INLINE_C,
                  label="CliffordTableau.__init__[CliffordTableau]"))
    return T


def _wrong_alias_spec(I, self, data, phase=None):
    """canary: a contract that lets the constructor KEEP the caller's phase buffer must be refuted by the real code"""
    _s_spec(I, self, data, phase)
    self.fields["_phase"] = phase
    return None


def canary_tasks():
    k = Contract(SINIT, spec=_wrong_alias_spec, clause="CANARY")
    return [Task(SINIT, k, _mk(TAB, "StabilizerTableau", [S.Assume(n >= 1), S.NDInput("data", (n, 2 * n), dtype="int"),
                                                          S.NDInput("phase", (n,), dtype="int")]), C, inline=INLINE_S,
                 label="canary.StabilizerTableau.__init__.keeps-the-callers-phase-buffer")]
