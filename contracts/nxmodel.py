"""[A] model of the few networkx calls that the verified functions use to move between a graph object and its
adjacency matrix (networkx itself is outside the engine).

Abstract value: Opaque("nx.Graph", {"n": n, "adj": f}) - a SIMPLE UNDIRECTED graph on the nodes 0..n-1 (in this order),
f(i,j) its 0/1 edge indicator (symmetric, zero diagonal).  Assumed behaviour of networkx (each use is listed in the
evidence through models.used):
   G.number_of_nodes() / len(G)          = n
   nx.to_numpy_array(G)                  = fresh n x n array with entry (i,j) = f(i,j)   (node order 0..n-1, unweighted edges)
   nx.from_numpy_array(M) / nx.to_networkx_graph(M)  for a square symmetric 0/1 matrix with zero diagonal
                                         = the simple graph with edge indicator M  (the three conditions are OBLIGATIONS of
                                           the calling function: `<func>:nx.graph-from-matrix.{square,bits,symmetric,diagonal}#k`)
   G.nodes()                             = [0, .., n-1]  (concrete n only)
   isinstance(G, nx.Graph)               = True for these values, False for arrays
Graph objects are immutable for the functions under contract (none of them calls a mutator).
"""
from __future__ import annotations

import numpy as np
import z3

from pyvc import models
from pyvc.schema import Item, _ev, _rand_eval
from pyvc.values import NDArr, Opaque, Builtin, ModRef, new_array, as_int_term, to_z3, concrete_int

TAG = "nx.Graph"


_fresh_id = [0]


def mk_graph(n, adj, label="G", gid=None):
    """gid: an Int term naming the graph VALUE (pure functions of graphs that are not interpreted - nx.is_isomorphic,
    GraphMatcher - are uninterpreted functions of the ids); inputs get the constant gid_<name>, computed graphs a fresh one"""
    if gid is None:
        _fresh_id[0] += 1
        gid = z3.Int(f"gid!{label}!{_fresh_id[0]}")
    return Opaque(TAG, {"n": n, "adj": adj, "label": label, "id": gid})


def ISO():
    return z3.Function("nx_is_isomorphic", z3.IntSort(), z3.IntSort(), z3.BoolSort())


def MAPPING():
    return z3.Function("nx_GraphMatcher_mapping", z3.IntSort(), z3.IntSort(), z3.IntSort())


def _is_isomorphic(interp, g1, g2, *a, **k):
    from pyvc.interp import Undecided

    if not (is_graph(g1) and is_graph(g2)) or a or k:
        raise Undecided("nx.is_isomorphic on something that is not a pair of abstract graphs / with options")
    models.used("nx.is_isomorphic(g1, g2) = a pure (uninterpreted) predicate of the two graphs")
    return ISO()(g1.payload["id"], g2.payload["id"])


def _graph_matcher(interp, g1, g2, *a, **k):
    from pyvc.interp import Undecided

    if not (is_graph(g1) and is_graph(g2)) or a or k:
        raise Undecided("GraphMatcher on something that is not a pair of abstract graphs / with options")
    models.used("isomorphism.GraphMatcher(g1,g2): is_isomorphic() = nx.is_isomorphic(g1,g2); .mapping = an (uninterpreted) "
                "isomorphism g1 -> g2 once is_isomorphic() returned True")
    return Opaque("nx.GraphMatcher", (g1, g2))


def is_graph(v):
    return isinstance(v, Opaque) and v.tag == TAG


def adj_array(g, label="adjacency"):
    return new_array((g.payload["n"], g.payload["n"]), g.payload["adj"], label)


def _to_numpy_array(interp, g, *a, **k):
    from pyvc.interp import Undecided

    nodelist = k.pop("nodelist", None) if k else None
    if not is_graph(g) or a or k:
        raise Undecided("nx.to_numpy_array on something that is not an abstract simple graph / with options")
    if nodelist is not None:
        # only the sorted node list of the same graph is modelled: sorted(G.nodes()) = [0..n-1], i.e. the order of the model
        src = getattr(nodelist, "sorted_nodes_of", None)
        ok = src is g or (isinstance(nodelist, list) and nodelist == list(range(concrete_int(g.payload["n"]) or -1)))
        if not ok and src is not None and is_graph(src):
            # the sorted label list [0..m-1] of ANOTHER abstract graph: it is this graph's sorted label list iff m == n
            ok = interp.path.decide(to_z3(src.payload["n"]) == to_z3(g.payload["n"]))
        if not ok:
            raise Undecided("nx.to_numpy_array with a nodelist other than sorted(G.nodes())")
        models.used("nx.to_numpy_array(G, nodelist=sorted(G.nodes())) = adjacency matrix in node order 0..n-1")
        return adj_array(g)
    models.used("nx.to_numpy_array(G) = adjacency matrix in node order 0..n-1 (simple unweighted graph)")
    return adj_array(g)


def _graph_from_matrix(interp, m, *a, **k):
    from pyvc.interp import Undecided

    if not (isinstance(m, NDArr) and m.ndim == 2) or a or k:
        raise Undecided("nx graph constructor from something that is not a 2-D array / with options")
    models.used("nx.from_numpy_array / nx.to_networkx_graph(M) = simple graph with adjacency M (M square, symmetric, 0/1, zero diagonal: obligations)")
    path = interp.path
    n = m.shape[0]
    rd = m.reader()
    path.oblige(interp.ob_name("nx.graph-from-matrix.square"), to_z3(m.shape[0]) == to_z3(m.shape[1]))
    path.assume(to_z3(m.shape[0]) == to_z3(m.shape[1]))
    i, j = path.fresh("gi"), path.fresh("gj")
    rng = [i >= 0, i < to_z3(n), j >= 0, j < to_z3(n)]
    e = as_int_term(rd(i, j))
    path.oblige(interp.ob_name("nx.graph-from-matrix.bits"), z3.Or(e == 0, e == 1), extra=rng)
    path.oblige(interp.ob_name("nx.graph-from-matrix.symmetric"), e == as_int_term(rd(j, i)), extra=rng)
    path.oblige(interp.ob_name("nx.graph-from-matrix.diagonal"), as_int_term(rd(i, i)) == 0, extra=rng[:2])
    return mk_graph(n, lambda a_, b_: as_int_term(rd(a_, b_)), "from_matrix", gid=array_graph_id(m))


def array_graph_id(m):
    """graph id attached to an (unmodified, full-view) input adjacency array by the schema item SimpleAdj, else None"""
    st = m.store
    tag = getattr(st, "graph_id", None)
    if tag is not None and st.f is tag[1] and m.axes == tuple(("var", k, 0) for k in range(st.ndim)):
        return tag[0]
    return None


def external(interp, name, attr):
    """hook `external`: attributes of the networkx module"""
    if name == "networkx.algorithms" and attr == "isomorphism":
        return ModRef("networkx.algorithms.isomorphism")
    if name == "networkx.algorithms.isomorphism" and attr == "GraphMatcher":
        return Builtin("GraphMatcher", _graph_matcher)
    if name not in ("networkx", "nx"):
        return NotImplemented
    if attr == "is_isomorphic":
        return Builtin("nx.is_isomorphic", _is_isomorphic)
    if attr == "Graph":
        return Opaque("type", TAG)
    if attr == "to_numpy_array":
        return Builtin("nx.to_numpy_array", _to_numpy_array)
    if attr in ("from_numpy_array", "to_networkx_graph"):
        return Builtin("nx." + attr, _graph_from_matrix)
    return NotImplemented


def getattr_hook(interp, obj, attr):
    """hook `getattr`: methods of abstract graphs"""
    from pyvc.interp import Undecided

    if isinstance(obj, Opaque) and obj.tag == "nx.GraphMatcher":
        g1, g2 = obj.payload
        if attr == "is_isomorphic":
            return Builtin("is_isomorphic", lambda i: ISO()(g1.payload["id"], g2.payload["id"]))
        if attr == "mapping":
            return MAPPING()(g1.payload["id"], g2.payload["id"])
        raise Undecided(f"GraphMatcher.{attr} has no [A] model")
    if not is_graph(obj):
        return NotImplemented
    m = _mutable_methods(interp, obj, attr)
    if m is not None:
        return m
    if attr == "number_of_nodes":
        models.used("nx.Graph.number_of_nodes() = n")
        return Builtin("number_of_nodes", lambda i: obj.payload["n"])
    if attr == "nodes":
        def nodes(i):
            n = concrete_int(obj.payload["n"])
            if n is None:
                # symbolic size: the node view as a list of symbolic length; only sorted(...) of it is meaningful to callers
                from pyvc.symlist import SymList

                models.used("nx.Graph.nodes() on n symbolic nodes = the labels 0..n-1 (used only through sorted())")
                lst = SymList(obj.payload["n"], lambda kk: to_z3(kk), "G.nodes()")
                lst.sorted_nodes_of = obj  # already increasing: sorted() returns an equal list (see models sorted)
                lst.increasing = True
                return lst
            models.used("nx.Graph.nodes() = [0..n-1]")
            return list(range(n))
        return Builtin("nodes", nodes)
    raise Undecided(f"nx.Graph.{attr} has no [A] model")


def _mutable_methods(interp, g, attr):
    """[A] edge-level methods of networkx graphs on the abstract value (the graph object is MUTABLE: add/remove_edge replace
    the edge indicator):  has_node(x) = 0 <= x < n;  has_edge(a,b) = adj[a,b] = 1;  remove_edge(a,b) (edge present:
    obligation) / add_edge(a,b) (both nodes present and a != b: obligations) set adj[a,b] = adj[b,a] to 0 / 1 and nothing else;
    neighbors(v) = a duplicate-free enumeration NB(0..DEG-1) of exactly {u : adj[v,u] = 1} (inverse positions NPOS)"""
    from pyvc.symlist import SymList

    P = g.payload
    path = interp.path

    def in_range(x):
        return z3.And(to_z3(x) >= 0, to_z3(x) < to_z3(P["n"]))

    if attr == "has_node":
        return Builtin("has_node", lambda i, x: in_range(x))
    if attr == "has_edge":
        def has_edge(i, a, b):
            models.used("nx.Graph.has_edge(a,b) = (adjacency[a,b] == 1)")
            return as_int_term(P["adj"](to_z3(a), to_z3(b))) == 1
        return Builtin("has_edge", has_edge)
    if attr in ("remove_edge", "add_edge"):
        val = 1 if attr == "add_edge" else 0

        def set_edge(i, a, b):
            models.used(f"nx.Graph.{attr}(a,b): adjacency[a,b] = adjacency[b,a] = {val}, nothing else changes")
            a_, b_ = to_z3(a), to_z3(b)
            old = P["adj"]
            if attr == "remove_edge":
                i.path.oblige(i.ob_name("nx.remove_edge.present"), as_int_term(old(a_, b_)) == 1)
            else:
                i.path.oblige(i.ob_name("nx.add_edge.nodes-present-and-distinct"), z3.And(in_range(a_), in_range(b_), a_ != b_))
            P["adj"] = lambda x, y: z3.If(z3.Or(z3.And(to_z3(x) == a_, to_z3(y) == b_), z3.And(to_z3(x) == b_, to_z3(y) == a_)),
                                          z3.IntVal(val), as_int_term(old(x, y)))
            i.note_write(g, attr)
        return Builtin(attr, set_edge)
    if attr == "neighbors":
        def neighbors(i, v):
            models.used("nx.Graph.neighbors(v) = duplicate-free enumeration of exactly the nodes adjacent to v")
            c = path.counter.get("nbr", 0)
            path.counter["nbr"] = c + 1
            NB = z3.Function(f"NB@{c}", z3.IntSort(), z3.IntSort())
            NPOS = z3.Function(f"NPOS@{c}", z3.IntSort(), z3.IntSort())
            DEG = z3.Int(f"DEG@{c}")
            adj0, v_ = P["adj"], to_z3(v)
            k, u = z3.Int(f"nbk@{c}"), z3.Int(f"nbu@{c}")
            n_ = to_z3(P["n"])
            path.assume(DEG >= 0)
            path.assume(z3.ForAll([k], z3.Implies(z3.And(k >= 0, k < DEG),
                                                  z3.And(NB(k) >= 0, NB(k) < n_, as_int_term(adj0(v_, NB(k))) == 1, NPOS(NB(k)) == k))))
            path.assume(z3.ForAll([u], z3.Implies(z3.And(u >= 0, u < n_, as_int_term(adj0(v_, u)) == 1),
                                                  z3.And(NPOS(u) >= 0, NPOS(u) < DEG, NB(NPOS(u)) == u))))
            path.ghost.setdefault("nx_neighbors", []).append(dict(NB=NB, NPOS=NPOS, DEG=DEG, v=v_, adj=adj0))
            return SymList(DEG, lambda kk: NB(to_z3(kk)), f"neighbors@{c}")
        return Builtin("neighbors", neighbors)
    return None


def deepcopy_hook(interp, x, cp):
    if is_graph(x):
        return Opaque(TAG, dict(x.payload))
    return NotImplemented


def len_hook(interp, x):
    if is_graph(x):
        return x.payload["n"]
    return None


HOOKS = {"external": external, "getattr": getattr_hook, "len": len_hook, "deepcopy": deepcopy_hook}


# ------------------------------------------------------------------------------------------ schema items
def simple_adj(name):
    """edge indicator of an arbitrary simple graph *by construction*: symmetric, zero diagonal, 0/1"""
    B = z3.Function(name, z3.IntSort(), z3.IntSort(), z3.BoolSort())

    def f(i, j):
        i, j = to_z3(i), to_z3(j)
        lo, hi = z3.If(i < j, i, j), z3.If(i < j, j, i)
        return z3.If(i == j, z3.IntVal(0), z3.If(B(lo, hi), z3.IntVal(1), z3.IntVal(0)))

    return f


def _conc_adj(name, model, n):
    f = simple_adj(name)
    return np.array([[_ev(model, f(z3.IntVal(i), z3.IntVal(j))) for j in range(n)] for i in range(n)], dtype=int).reshape(n, n)


def _rand_adj(rng, n):
    a = np.triu(rng.integers(0, 2, size=(n, n)), 1)
    return a + a.T


def _const_fn(a):
    a = np.asarray(a)
    rows = [[int(x) for x in r] for r in a]

    def f(i, j):
        t = z3.IntVal(0)
        for r in range(len(rows) - 1, -1, -1):
            rt = z3.IntVal(0)
            for c in range(len(rows[r]) - 1, -1, -1):
                rt = z3.If(to_z3(j) == c, z3.IntVal(rows[r][c]), rt)
            t = z3.If(to_z3(i) == r, rt, t)
        return t

    return f


class SimpleGraph(Item):
    """an arbitrary simple graph on n nodes 0..n-1 (n a size symbol / expression) as an abstract networkx graph"""

    def __init__(self, name, n):
        self.name, self.n = name, n

    def symbolic(self, I):
        return mk_graph(self.n, simple_adj(self.name), self.name, gid=z3.Int(f"gid_{self.name}"))

    def concrete(self, model, env):
        n = _ev(model, self.n)
        if n > 12:
            raise ValueError("witness too large")
        return _conc_adj(self.name, model, n)

    def random(self, rng, env):
        return _rand_adj(rng, _rand_eval(self.n, rng, env))

    def real(self, conc):
        import networkx as nx

        return nx.from_numpy_array(np.asarray(conc))

    def const(self, I, conc):
        return mk_graph(int(np.asarray(conc).shape[0]), _const_fn(conc), self.name, gid=z3.Int(f"gid_{self.name}"))

    def jsonable(self, conc):
        return np.asarray(conc).tolist()


class SimpleAdj(SimpleGraph):
    """the same graphs given as an integer adjacency matrix (numpy array)"""

    def symbolic(self, I):
        a = new_array((self.n, self.n), simple_adj(self.name), self.name)
        a.store.graph_id = (z3.Int(f"gid_{self.name}"), a.store.f)
        return a

    def real(self, conc):
        return np.asarray(conc).copy()

    def const(self, I, conc):
        a = np.asarray(conc)
        r = new_array((int(a.shape[0]), int(a.shape[0])), _const_fn(a), self.name)
        r.store.graph_id = (z3.Int(f"gid_{self.name}"), r.store.f)
        return r


class GraphList(Item):
    """a Python list of SYMBOLIC length whose element k is an arbitrary simple graph (size NL(k), edges ADJL(k,.,.)):
    engine value SymList with abstract graphs as elements (no concrete replay)"""

    def __init__(self, name, length):
        self.name, self.length = name, length

    def symbolic(self, I):
        from pyvc.symlist import SymList

        NL = z3.Function(f"{self.name}_n", z3.IntSort(), z3.IntSort())
        B = z3.Function(f"{self.name}_adj", z3.IntSort(), z3.IntSort(), z3.IntSort(), z3.BoolSort())
        GID = z3.Function(f"gid_{self.name}", z3.IntSort(), z3.IntSort())

        def elem(k):
            k = to_z3(k)

            def adj(i, j):
                i, j = to_z3(i), to_z3(j)
                lo, hi = z3.If(i < j, i, j), z3.If(i < j, j, i)
                return z3.If(i == j, z3.IntVal(0), z3.If(B(k, lo, hi), z3.IntVal(1), z3.IntVal(0)))

            return mk_graph(z3.If(NL(k) >= 1, NL(k), z3.IntVal(1)), adj, f"{self.name}[{k}]", gid=GID(k))

        return SymList(self.length, elem, self.name)

    def concrete(self, model, env):
        raise ValueError("lists of graphs of symbolic length are not replayed")

    def random(self, rng, env):
        raise ValueError("lists of graphs of symbolic length are not replayed")
