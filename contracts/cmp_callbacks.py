"""C15 - the two matcher callbacks of circuit_comparison.circuit_is_isomorphic, evaluated exactly on complete finite tables [F, exact].

The callbacks are NESTED functions; their FunctionDef nodes are taken mechanically from the AST of the real circuit_is_isomorphic
(re-read on every run) and compiled unchanged in the namespace of the real module (nothing else of the enclosing function runs).

  node_match  [F: all ordered pairs of 27 operations = the 14 operation classes of the property's quantifier x register types e/p]
        node_match({'op': a}, {'op': b})  <=>  same class  and  same q_registers_type  (and, for two wrappers, the same wrapped classes):
        what "the same operation up to a renaming of registers of the same type" needs of a node.
  edge_match, single edges  [F: 3 x 3 tags None / 'c' / 't']   edge_match({k: {control_target: s}}, {k': {control_target: t}}) <=> s == t.
  edge_match, two parallel edges  [F: all 9 x 9 pairs of tag bundles, both insertion orders]
        C15.F.edge_match.verdict-does-not-depend-on-the-insertion-order-of-parallel-edges: networkx hands the callback the dict
        {key: attributes} of ALL edges between two nodes; the verdict must be a function of the two bundles of tags, not of the order in
        which the edges were inserted (remove_identity re-inserts an edge).  REFUTED on the unchanged tree = recorded finding C15 #2
        (`next(iter(e))` looks at the first key only); registered in props/C15.findings.md.
"""
from __future__ import annotations

import ast
import itertools
import time

from pyvc import source
from vf.core import Obl

CMP = "graphiq.utils.circuit_comparison"
ISO = f"{CMP}:circuit_is_isomorphic"
ONE = ["Identity", "Hadamard", "Phase", "PhaseDagger", "SigmaX", "SigmaY", "SigmaZ"]
TWO = ["CNOT", "CZ"]
CLASSICAL = ["ClassicalCNOT", "ClassicalCZ", "MeasurementCNOTandReset"]


def _callbacks():
    import importlib

    m, node, _ = source.find(ISO)
    real = importlib.import_module(CMP)
    out = {}
    for fn in node.body:
        if isinstance(fn, ast.FunctionDef) and fn.name in ("node_match", "edge_match"):
            mod = ast.Module(body=[fn], type_ignores=[])
            ns = dict(vars(real))
            exec(compile(mod, f"<{fn.name} of the real circuit_is_isomorphic>", "exec"), ns)  # noqa: S102 - the repository's own code
            out[fn.name] = ns[fn.name]
    return out


def _ops():
    import graphiq.circuit.ops as gops

    L = []
    for t in "ep":
        for nme in ONE:
            L.append((nme, (t,), getattr(gops, nme)(register=0, reg_type=t)))
        L.append(("MeasurementZ", (t,), gops.MeasurementZ(register=0, reg_type=t, c_register=0)))
    for ct, tt in (("e", "e"), ("e", "p")):
        for nme in TWO:
            L.append((nme, (ct, tt), getattr(gops, nme)(control=0, control_type=ct, target=1, target_type=tt)))
        for nme in CLASSICAL:
            L.append((nme, (ct, tt), getattr(gops, nme)(control=0, control_type=ct, target=1, target_type=tt, c_register=0)))
    L.append(("OneQubitGateWrapper[H]", ("e",), gops.OneQubitGateWrapper([gops.Hadamard], register=0, reg_type="e")))
    L.append(("OneQubitGateWrapper[H,P]", ("e",), gops.OneQubitGateWrapper([gops.Hadamard, gops.Phase], register=0, reg_type="e")))
    L.append(("OneQubitGateWrapper[H]", ("p",), gops.OneQubitGateWrapper([gops.Hadamard], register=0, reg_type="p")))
    return L


def obligations():
    out = []
    t0 = time.time()
    try:
        cb = _callbacks()
        nm, em = cb["node_match"], cb["edge_match"]
    except Exception as e:  # noqa: BLE001
        return [Obl(name="C15.F.isomorphism-callbacks.extracted", function=ISO, status="undecided", kind="F", backend="exact",
                    detail=f"{type(e).__name__}: {e}", clause="node_match / edge_match are nested functions of circuit_is_isomorphic")]
    ops = _ops()
    bad = []
    for (na, ta, a), (nb, tb, b) in itertools.product(ops, ops):
        want = na == nb and ta == tb
        try:
            got = bool(nm({"op": a}, {"op": b}))
        except Exception as e:  # noqa: BLE001
            got = f"raises {type(e).__name__}"
        if got != want:
            bad.append([na, list(ta), nb, list(tb), got])
    out.append(Obl(name="C15.F.node_match.is-class-and-register-type-equality", function=ISO, status="discharged" if not bad else "refuted",
                   kind="F", backend="exact", ms=(time.time() - t0) * 1000, detail="" if not bad else f"{len(bad)} pairs, first {bad[:3]}",
                   clause=f"node_match <=> same class and same q_registers_type (wrappers: same wrapped classes) on all {len(ops)}^2 ordered pairs",
                   witness=None if not bad else {"pairs": bad[:10]}, replayed=bool(bad)))
    tags = [None, "c", "t"]
    bad = [(s, t, bool(em({"k": {"control_target": s}}, {"q": {"control_target": t}}))) for s in tags for t in tags
           if bool(em({"k": {"control_target": s}}, {"q": {"control_target": t}})) != (s == t)]
    out.append(Obl(name="C15.F.edge_match.single-edges-compare-their-role-tags", function=ISO, status="discharged" if not bad else "refuted",
                   kind="F", backend="exact", detail="" if not bad else repr(bad), clause="edge_match on two single edges <=> equal control_target tags "
                   "(3 x 3 tags)", witness=None if not bad else {"cases": [list(map(str, b)) for b in bad]}, replayed=bool(bad)))
    bad = []
    for (s1, s2), (t1, t2) in itertools.product(itertools.product(tags, tags), repeat=2):
        def bundle(x, y, flip):
            items = [("a", {"control_target": x}), ("b", {"control_target": y})]
            return dict(items[::-1] if flip else items)
        verdicts = {bool(em(bundle(s1, s2, f1), bundle(t1, t2, f2))) for f1 in (False, True) for f2 in (False, True)}
        if len(verdicts) > 1:
            bad.append([[str(s1), str(s2)], [str(t1), str(t2)]])
    out.append(Obl(name="C15.F.edge_match.verdict-does-not-depend-on-the-insertion-order-of-parallel-edges", function=ISO,
                   status="discharged" if not bad else "refuted", kind="F", backend="exact",
                   detail="" if not bad else f"{len(bad)} of 81 bundle pairs get different verdicts for different insertion orders, first {bad[:3]}",
                   clause="for two parallel edges between the same nodes the verdict is a function of the two bundles {key: tag}, whatever "
                          "order the keys were inserted in (all 9 x 9 bundle pairs x 2 x 2 orders)",
                   witness=None if not bad else {"function": ISO, "bundle_pairs": bad[:10],
                                                 "note": "edge_match({'a': s1, 'b': s2}, ...) vs the same dicts with the keys inserted in the other order"},
                   replayed=bool(bad)))
    return out
