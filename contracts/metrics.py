"""C18 / C17 / C13 - sidecar contracts on graphiq/metrics.py (the REAL constructors and `evaluate` methods are interpreted).

What is specified (from the property statements)
  C18  every metric class: after `__init__` with default arguments every attribute `evaluate` reads on `self` exists
       (`reads-defined.*`, decided on the object the real constructor chain builds);
       CircuitDepth / CircuitEmitterCount / CircuitCnotCount / CircuitUnitaryCount / CircuitMeasureCount `.evaluate`:
           value  = penalty(definition)   where the definition is a query of the circuit API
                    depth                -> circuit.depth
                    emitter count        -> circuit.n_emitters
                    ee-CNOT count        -> |nodes labelled {Emitter-Emitter, CNOT}| of the circuit
                    unitary count        -> sum over the 8 unitary gate classes K of |nodes labelled K| of
                                            remove_identity(unwrap_nodes(copy(circuit)))
                    measurement count    -> |nodes labelled MeasurementCNOTandReset| of copy(circuit)
           log    : `self._inc` is incremented, `val` is appended to `self.log` iff the new `_inc` is a multiple of `log_steps`
           frame  : no mutating method is called on the caller's circuit (only on the copy); no field of an input is written
  C17  Infidelity.evaluate / TraceDistance.evaluate dispatch on (target.rep_type, state.rep_type): which fidelity function
       on which data; a state held in another representation is converted on a COPY (frame: caller's state untouched)
  C13  the frame clauses above (write log of the interpreter + receivers of recorded mutator calls)

Abstraction: circuits / states are abstract instances of their real classes; the circuit/state API is replaced by
*recorder contracts* (pyvc.trace).  Counts are uninterpreted integers `count[view][labels]` of the circuit *version*
(`view` = C, unwrap(C), rmid(unwrap(C)) ...); [A-WF4] a label that is not a key of `node_dict` labels no node
(get_node_by_labels' own contract, C12/C18 bounded).  Explicit penalty functions are an uninterpreted `pen : Int -> Int`.
New assumption: `x % m` with symbolic m is z3's Euclidean mod under the proved side condition m >= 1 (= Python's `%`).
Not covered here ([B-only], see props/C18.py): CircuitMaxEmitDepth / ...ResetDepth / ...EffDepth `.evaluate` bodies,
Metrics.evaluate weighting, GraphMetric.evaluate (networkx), and the circuit methods behind the recorders
(depth, get_node_by_labels, unwrap_nodes, remove_identity, copy).
"""
from __future__ import annotations

import ast

import z3

from pyvc import source
from pyvc.contract import Contract
from pyvc.interp import Interp, Engine, Path, explore, RaiseEx, Undecided, PathEnd, Frame
from pyvc.trace import recorder, TraceTask, Token, Cursor, same
from pyvc.values import Obj, Opaque, Builtin, Closure, FuncRef, ClsRef, is_sym, to_z3, as_int_term, concrete_int

MET = "graphiq.metrics"
CDAG = "graphiq.circuit.circuit_dag"
CIRC = "graphiq.circuit.circuit_base"
STATE = "graphiq.state"
SBASE = "graphiq.backends.state_base"
SSTATE = "graphiq.backends.stabilizer.state"
DSTATE = "graphiq.backends.density_matrix.state"
GSTATE = "graphiq.backends.graph.state"
DMF = "graphiq.backends.density_matrix.functions"
SFM = "graphiq.backends.stabilizer.functions.metric"

UNITARY_CLASSES = ["Hadamard", "Phase", "PhaseDagger", "SigmaX", "SigmaY", "SigmaZ", "CNOT", "CZ"]  # DESIGN C18 definition

MUTATORS = {"unwrap_nodes", "remove_identity", "convert_representation", "add", "insert_at", "replace_op", "remove_op",
            "group_one_qubit_gates", "validate", "log.append"}
INLINE = {f"{MET}:*", f"{STATE}:QuantumState.rep_type", f"{STATE}:QuantumState.rep_data", f"{SBASE}:StateRepresentationBase.data",
          f"{SSTATE}:Stabilizer.data", f"{SSTATE}:Stabilizer.tableau", f"{SSTATE}:MixedStabilizer.data",
          f"{SSTATE}:MixedStabilizer.mixture"}


# =============================================================================================
# generic custom-harness task (same interface as pyvc Task/TraceTask for pyvc.driver.run_tasks)
# =============================================================================================

class HarnessTask:
    def __init__(self, qual, label, harness, clause="", timeout_ms=10000):
        self.qual = qual
        self.label = label
        self.harness = harness
        self.contract = Contract(qual, clause=clause)
        self.timeout_ms = timeout_ms

    def run(self):
        eng = Engine(self.timeout_ms)

        def h(path):
            self.harness(eng, path)

        try:
            explore(eng, h)
        except Undecided as u:
            eng.record(f"{self.label}:supported-subset", "undecided", 0, f"{u}", None)
        for r in eng.results.values():
            if not hasattr(r, "witness"):
                r.witness, r.replayed = None, False
        return eng


class ReplayTraceTask(TraceTask):
    """TraceTask whose refuted obligations are replayed on the real code: native() -> (witness, reproduced?)"""

    def __init__(self, *a, native=None, **k):
        super().__init__(*a, **k)
        self.native = native

    def run(self):
        eng = super().run()
        bad = [r for r in eng.results.values() if r.status == "refuted"]
        if bad and self.native is not None:
            try:
                wit, ok = self.native()
            except Exception as e:  # noqa: BLE001
                wit, ok = {"replay_error": f"{type(e).__name__}: {e}"}, False
            for r in bad:
                r.witness, r.replayed = wit, ok
        return eng


def rec(eng, name, ok, detail="", witness=None, replayed=False):
    eng.record(name, "discharged" if ok else "refuted", 0, "" if ok else detail, None)
    r = eng.results[name]
    if not ok:
        r.witness, r.replayed = witness, replayed
    elif not hasattr(r, "witness"):
        r.witness, r.replayed = None, False


# =============================================================================================
# C18 (1): constructors define what evaluate reads
# =============================================================================================

def metric_class_names():
    """every class of graphiq/metrics.py that derives from MetricBase (from the real AST)"""
    m = source.module(MET)
    I = Interp(Path(Engine(), []))
    out = []
    for name in m.classes:
        c = I.get_class(MET, name)
        if name != "MetricBase" and any(isinstance(b, ClsRef) and b.name == "MetricBase" for b in c.mro()):
            out.append(name)
    return out


def _self_reads(cls: ClsRef, meth_name, seen=None, closures=None):
    """attributes read through `self` by method `meth_name` (transitively through self.<method>() calls); AugAssign
    targets count as reads.  Returns {attr: 'Class.method:line'}"""
    seen = set() if seen is None else seen
    found = cls.lookup(meth_name)
    out = {}
    if found is None or found[0] != "method" or (found[1].name, meth_name) in seen:
        return out
    seen.add((found[1].name, meth_name))
    node = found[2]
    self_name = node.args.args[0].arg if node.args.args else "self"
    _scan(cls, node, self_name, f"{found[1].name}.{meth_name}", out, seen)
    return out


def _scan(cls, node, self_name, where, out, seen):
    for n in ast.walk(node):
        if isinstance(n, ast.Attribute) and isinstance(n.value, ast.Name) and n.value.id == self_name:
            is_read = isinstance(n.ctx, ast.Load)
            if is_read:
                f = cls.lookup(n.attr)
                if f is not None and f[0] == "method":
                    out.update({k: v for k, v in _self_reads(cls, n.attr, seen).items() if k not in out})
                    continue
                out.setdefault(n.attr, f"{where}:{n.lineno}")
        if isinstance(n, ast.AugAssign) and isinstance(n.target, ast.Attribute) and isinstance(n.target.value, ast.Name) \
                and n.target.value.id == self_name:
            out.setdefault(n.target.attr, f"{where}:{n.lineno}")


def _nx_external(interp, name, attr):
    if name in ("networkx", "nx") and attr in ("Graph", "MultiDiGraph"):
        return Opaque("type", "nx." + attr)
    return NotImplemented


def default_ctor_args(I, name):
    """the arguments a caller MUST give (no default exists); everything else is left to its default"""
    if name in ("Infidelity", "TraceDistance"):
        return {"target": abstract_state(I, "target", "s", "Stabilizer")}
    if name == "GraphMetric":
        return {"graph": Opaque("nx.Graph", "graph")}
    if name == "Metrics":
        return {"metrics_list": []}
    return {}


def reads_defined_task(name):
    qual = f"{MET}:{name}.evaluate"
    label = f"{name}.__init__(defaults)"

    def harness(eng, path):
        I = Interp(path, {}, INLINE, {"external": _nx_external})
        I.stack.append(Frame(MET, {}, label))
        cls = I.get_class(MET, name)
        try:
            obj = I.instantiate(cls, [], default_ctor_args(I, name))
        except RaiseEx as e:
            rec(eng, f"{label}:no-raise", False, f"constructor with default arguments raises {e.exc_name}: {e.msg}",
                {"call": f"graphiq.metrics.{name}()", "actual": f"raises {e.exc_name}"}, _native_default_ctor_fails(name))
            return
        rec(eng, f"{label}:no-raise", True)
        reads = _self_reads(obj.cls, "evaluate")
        # closures stored by the constructor (Metrics.weighting_func) read self too
        for fv in list(obj.fields.values()):
            if isinstance(fv, Closure):
                _scan(obj.cls, fv.node, "self", f"{name}.__init__.<closure>", reads, set())
        if not reads:
            rec(eng, f"{label}:reads-defined.vacuity", False, "evaluate reads nothing on self?")
        for attr, where in sorted(reads.items()):
            ok = attr in obj.fields or obj.cls.lookup(attr) is not None
            wit = None
            rep = False
            if not ok:
                wit, rep = _native_missing_attr(name, attr)
            rec(eng, f"{label}:reads-defined.{attr}", ok,
                f"{where} reads self.{attr}, which {name}() with default arguments never defines "
                f"(defined: {sorted(k for k in obj.fields)})", wit, rep)

    return HarnessTask(qual, label, harness,
                       clause="after __init__ with default arguments every attribute that evaluate reads on self exists")


def _native_default_ctor_fails(name):
    try:
        import importlib

        m = importlib.import_module(MET)
        getattr(m, name)()
        return False
    except Exception:  # noqa: BLE001
        return True


def _native_missing_attr(name, attr):
    """replay: construct the real class with defaults and look the attribute up"""
    try:
        import importlib
        import networkx as nx

        m = importlib.import_module(MET)
        cls = getattr(m, name)
        if name in ("Infidelity", "TraceDistance"):
            o = cls(None)
        elif name == "GraphMetric":
            o = cls(nx.Graph())
        elif name == "Metrics":
            o = cls([])
        else:
            o = cls()
        missing = not hasattr(o, attr)
        return {"call": f"graphiq.metrics.{name}(<defaults>)", "attribute": attr,
                "actual": "AttributeError on evaluate" if missing else "attribute exists natively"}, missing
    except Exception as e:  # noqa: BLE001
        return {"replay_error": f"{type(e).__name__}: {e}"}, False


# =============================================================================================
# abstract circuits / states and the recorder contracts on their API
# =============================================================================================

def abstract_circuit(I, view="C"):
    o = Obj(I.get_class(CDAG, "CircuitDAG"))
    o.fields["__view__"] = view
    o.fields["node_dict"] = Opaque("node_dict", o)
    o.fields["dag"] = Opaque("dag", o)
    return o


def view_of(c):
    return c.fields["__view__"]


def count_const(view, labels):
    return z3.Int(f"count[{view}][{'&'.join(sorted(labels))}]")


def _has(I, circ, label):
    """membership of a label in node_dict: a free boolean per (circuit version, label); forks the path"""
    key = (view_of(circ), label)
    tab = I.path.ghost.setdefault("has", {})
    if key not in tab:
        tab[key] = I.path.decide(z3.Bool(f"has[{key[0]}][{label}]"))
    return tab[key]


def circuit_contracts():
    C = {}

    def depth(I, self):
        return z3.Int(f"depth[{view_of(self)}]")

    def n_emitters(I, self):
        return z3.Int(f"n_emitters[{view_of(self)}]")

    def copy(I, self):
        c = abstract_circuit(I, view_of(self))  # [A] deepcopy: an equal circuit (same view), a fresh object
        I.path.ghost.setdefault("copies", []).append((self, c))
        return c

    def unwrap(I, self):
        self.fields["__view__"] = f"unwrap({view_of(self)})"

    def rmid(I, self):
        self.fields["__view__"] = f"rmid({view_of(self)})"

    def by_labels(I, self, labels):
        labs = [str(x) for x in labels]
        n = count_const(view_of(self), labs)
        I.path.assume(n >= 0)
        for l in labs:  # [A-WF4]
            if I.path.ghost.get("has", {}).get((view_of(self), l)) is False:
                I.path.assume(n == 0)
        return Opaque("nodes", (view_of(self), tuple(sorted(labs)), n))

    C[f"{CDAG}:CircuitDAG.depth"] = recorder(f"{CDAG}:CircuitDAG.depth", "depth", result=depth)
    C[f"{CIRC}:CircuitBase.n_emitters"] = recorder(f"{CIRC}:CircuitBase.n_emitters", "n_emitters", result=n_emitters)
    C[f"{CIRC}:CircuitBase.copy"] = recorder(f"{CIRC}:CircuitBase.copy", "copy", result=copy)
    C[f"{CDAG}:CircuitDAG.unwrap_nodes"] = recorder(f"{CDAG}:CircuitDAG.unwrap_nodes", "unwrap_nodes", result=unwrap)
    C[f"{CDAG}:CircuitDAG.remove_identity"] = recorder(f"{CDAG}:CircuitDAG.remove_identity", "remove_identity", result=rmid)
    C[f"{CDAG}:CircuitDAG.get_node_by_labels"] = recorder(f"{CDAG}:CircuitDAG.get_node_by_labels", "get_node_by_labels",
                                                          result=by_labels)
    return C


def h_len(I, x):
    if isinstance(x, Opaque) and x.tag == "nodes":
        return x.payload[2]
    return None


def h_contains(I, container, item):
    if isinstance(container, Opaque) and container.tag == "node_dict":
        if not isinstance(item, str):
            raise Undecided("node_dict membership of a non-string")
        return _has(I, container.payload, item)
    return None


def h_getattr(I, obj, attr):
    if isinstance(obj, Opaque) and obj.tag == "log" and attr == "append":
        def app(i, x):
            i.path.trace.append({"name": "log.append", "args": [x], "self": obj, "ret": None})
        return Builtin("log.append", app)
    return NotImplemented


def h_binop(I, op, a, b):
    """`x % m` with a symbolic modulus: side condition m >= 1 (obligation), then z3's mod = Python's %"""
    if isinstance(op, ast.Mod) and is_sym(b) and concrete_int(b) is None and not isinstance(a, (str, list, tuple)):
        m = as_int_term(b)
        nm = I.ob_name("mod-positive")
        I.path.oblige(nm, m >= 1)
        I.path.assume(m >= 1)
        return as_int_term(a) % m
    return NotImplemented


HOOKS = {"len": h_len, "contains": h_contains, "getattr": h_getattr, "binop": h_binop, "external": _nx_external}

PEN = z3.Function("pen", z3.IntSort(), z3.IntSort())


def abstract_penalty():
    def pen(i, x):
        i.path.trace.append({"name": "penalty", "args": [x], "self": None, "ret": None})
        return PEN(as_int_term(x))
    return Builtin("penalty", pen)


def reachable(objs):
    """objects reachable from the inputs (through Obj fields / lists / dicts / tuples / Opaque payload owners)"""
    out, todo = {}, list(objs)
    while todo:
        x = todo.pop()
        if id(x) in out or isinstance(x, (str, int, float, bool, type(None), z3.ExprRef, ClsRef)):
            continue
        if isinstance(x, Obj):
            out[id(x)] = x
            todo.extend(x.fields.values())
        elif isinstance(x, (list, tuple, set)):
            out[id(x)] = x
            todo.extend(x)
        elif isinstance(x, dict):
            out[id(x)] = x
            todo.extend(x.values())
        elif isinstance(x, (Opaque, Token)):
            out[id(x)] = x
    return out


def frame_obligations(I, cur, inputs, allowed_writes, label=None):
    """C13 frame clause, from the interpreter's write log and the receivers of recorded calls:
       * no recorded MUTATOR call has an input object as receiver
       * every logged write hits `allowed_writes` [(object, field)] or an object that did not exist before the call"""
    label = label or cur.label
    pre = I.path.ghost["reach_pre"]
    bad_calls = [e["name"] for e in cur.trace if e["name"] in MUTATORS and e["self"] is not None and id(e["self"]) in pre
                 and not any(e["self"] is a and e["name"] == w for a, w in allowed_writes)]
    I.path.engine.record(f"{label}:frame.no-mutator-called-on-an-input", "discharged" if not bad_calls else "refuted", 0,
                         "" if not bad_calls else f"mutating call(s) {bad_calls} on an object passed in by the caller", None)
    bad = []
    for obj, what in I.writes[I.path.ghost.get("writes_mark", 0):]:
        if any(obj is a and what == w for a, w in allowed_writes):
            continue
        if id(obj) in pre:
            bad.append(f"{type(obj).__name__ if not isinstance(obj, Obj) else obj.cls.name}.{what}")
    I.path.engine.record(f"{label}:frame.writes-only-own-fields", "discharged" if not bad else "refuted", 0,
                         "" if not bad else f"writes to caller-visible state outside the declared frame: {bad}", None)


def expect_on(cur, receiver, name, *args):
    r = cur.expect(name, *args)
    ev = cur.trace[cur.pos - 1]
    cur._ob(f"{name}.receiver", ev["self"] is receiver)
    return r


# =============================================================================================
# C18 (2): evaluate of the five counting metrics
# =============================================================================================

PENALTY_KW = {"CircuitDepth": "depth_penalty", "CircuitEmitterCount": "n_emitter_penalty", "CircuitCnotCount": "n_cnot_penalty",
              "CircuitUnitaryCount": "n_unitary_penalty", "CircuitMeasureCount": "m_penalty"}


def mk_metric_inputs(name, explicit, ctor_kwargs=None, extra_inputs=None):
    """the metric object is built by its REAL constructor (default arguments, or symbolic log_steps + abstract penalty);
    then `_inc` / `log` are set to an arbitrary reachable state (any counter value, any log)"""

    def mk(I):
        cls = I.get_class(MET, name)
        kw = dict(ctor_kwargs(I) if ctor_kwargs else {})
        L = 1
        if explicit:
            L = z3.Int("log_steps")
            kw["log_steps"] = L
            if name in PENALTY_KW:
                kw[PENALTY_KW[name]] = abstract_penalty()
        metric = I.instantiate(cls, [], kw)
        inc0 = z3.Int("inc0")
        I.path.assume(inc0 >= 0)
        metric.fields["_inc"] = inc0
        log = Opaque("log", metric)
        metric.fields["log"] = log
        others = extra_inputs(I, metric) if extra_inputs else [Opaque("state", "unused"), abstract_circuit(I, "C")]
        I.path.ghost["metric"] = dict(obj=metric, L=L, inc0=inc0, log=log, explicit=explicit)
        I.path.ghost["reach_pre"] = reachable([metric] + list(others))
        I.path.ghost["writes_mark"] = len(I.writes)
        return [metric] + list(others)

    return mk


def requires_metric(I, metric, *rest):
    L = I.path.ghost["metric"]["L"]
    return to_z3(L) >= 1 if is_sym(L) else True


def finish_metric(I, cur, metric, val, inputs):
    """common tail of every evaluate: penalty already consumed; counter, log, frame"""
    g = I.path.ghost["metric"]
    new_inc = g["inc0"] + 1
    due = I.path.decide((new_inc % to_z3(g["L"])) == 0) if is_sym(g["L"]) else (True if g["L"] == 1 else
                                                                                I.path.decide(new_inc % g["L"] == 0))
    if due:
        expect_on(cur, g["log"], "log.append", val)
    I.path.oblige(f"{cur.label}:post.counter-incremented", as_int_term(metric.fields["_inc"]) == new_inc)
    ok_log = metric.fields.get("log") is g["log"]
    I.path.engine.record(f"{cur.label}:post.log-object-kept", "discharged" if ok_log else "refuted", 0,
                         "" if ok_log else "self.log was rebound", None)


def with_frame(spec):
    """the C13 frame clause is decided FIRST (from the whole recorded trace + write log), then the trace is walked"""

    def wrapped(I, cur, metric, *rest):
        g = I.path.ghost["metric"]
        frame_obligations(I, cur, list(rest), [(metric, "_inc"), (g["log"], "log.append")])
        return spec(I, cur, metric, *rest)

    return wrapped


def penalised(I, cur, x):
    g = I.path.ghost["metric"]
    if g["explicit"]:
        cur.expect("penalty", x)
        return PEN(as_int_term(x))
    return x


def spec_depth(I, cur, metric, state, circuit):
    d = expect_on(cur, circuit, "depth")
    val = penalised(I, cur, d)
    finish_metric(I, cur, metric, val, [state, circuit])
    return val


def spec_emitters(I, cur, metric, state, circuit):
    n = expect_on(cur, circuit, "n_emitters")
    val = penalised(I, cur, n)
    finish_metric(I, cur, metric, val, [state, circuit])
    return val


def _queries(cur):
    """pop the (pure) label queries from the trace: [(receiver, labels, count)]"""
    qs = [e for e in cur.trace if e["name"] == "get_node_by_labels"]
    cur.trace[:] = [e for e in cur.trace if e["name"] != "get_node_by_labels"]
    return [(e["self"], [str(x) for x in e["args"][0]], e["ret"].payload[2]) for e in qs]


def spec_cnot(I, cur, metric, state, circuit):
    qs = _queries(cur)
    ok = all(r is circuit and sorted(l) == ["CNOT", "Emitter-Emitter"] for r, l, n in qs) and len(qs) <= 1
    cur._ob("label-query.is{Emitter-Emitter,CNOT}-on-the-circuit", ok)
    definition = count_const("C", ["Emitter-Emitter", "CNOT"])
    I.path.assume(definition >= 0)
    for l in ("Emitter-Emitter", "CNOT"):  # [A-WF4] for the definition itself
        if I.path.ghost.get("has", {}).get(("C", l)) is False:
            I.path.assume(definition == 0)
    val = penalised(I, cur, definition)
    finish_metric(I, cur, metric, val, [state, circuit])
    return val


def spec_measure(I, cur, metric, state, circuit):
    qs = _queries(cur)
    c1 = expect_on(cur, circuit, "copy")
    ok = len(qs) == 1 and qs[0][0] is c1 and qs[0][1] == ["MeasurementCNOTandReset"]
    cur._ob("label-query.is{MeasurementCNOTandReset}-on-the-copy", ok)
    definition = count_const("C", ["MeasurementCNOTandReset"])
    I.path.assume(definition >= 0)
    val = penalised(I, cur, definition)
    finish_metric(I, cur, metric, val, [state, circuit])
    return val


def spec_unitary(I, cur, metric, state, circuit):
    qs = _queries(cur)
    c1 = expect_on(cur, circuit, "copy")
    expect_on(cur, c1, "unwrap_nodes")
    expect_on(cur, c1, "remove_identity")
    V = "rmid(unwrap(C))"
    has = I.path.ghost.get("has", {})
    asked = [l[0] for r, l, n in qs if len(l) == 1]
    # [F] label list: exactly the 8 unitary gate classes, each at most once, every present one queried, all on the copy
    cur._ob("labels.every-query-is-one-unitary-class-on-the-copy",
            all(r is c1 and len(l) == 1 and l[0] in UNITARY_CLASSES for r, l, n in qs))
    cur._ob("labels.no-class-counted-twice", len(set(asked)) == len(asked))
    cur._ob("labels.every-present-unitary-class-is-counted",
            all((l in asked) for l in UNITARY_CLASSES if has.get((V, l)) is not False))
    cur._ob("labels.membership-tested-for-all-8-classes", all((V, l) in has for l in UNITARY_CLASSES))
    total = z3.IntVal(0)
    for l in UNITARY_CLASSES:
        c = count_const(V, [l])
        I.path.assume(c >= 0)
        if has.get((V, l)) is False:  # [A-WF4]
            I.path.assume(c == 0)
        total = total + c
    val = penalised(I, cur, total)
    finish_metric(I, cur, metric, val, [state, circuit])
    return val


SPECS = {"CircuitDepth": spec_depth, "CircuitEmitterCount": spec_emitters, "CircuitCnotCount": spec_cnot,
         "CircuitMeasureCount": spec_measure, "CircuitUnitaryCount": spec_unitary}
DEFINITION = {"CircuitDepth": "circuit.depth", "CircuitEmitterCount": "circuit.n_emitters",
              "CircuitCnotCount": "number of nodes labelled Emitter-Emitter and CNOT",
              "CircuitMeasureCount": "number of MeasurementCNOTandReset nodes (of the copy)",
              "CircuitUnitaryCount": "number of H,P,Pdag,X,Y,Z,CNOT,CZ nodes of remove_identity(unwrap_nodes(copy))"}


def count_tasks(only=None, spec_override=None, label_prefix=""):
    T = []
    C = circuit_contracts()
    for name, spec in SPECS.items():
        if only and name not in only:
            continue
        for explicit in (False, True):
            lab = f"{label_prefix}{name}.evaluate[{'log_steps=L,penalty=pen' if explicit else 'default arguments'}]"
            T.append(ReplayTraceTask(f"{MET}:{name}.evaluate", mk_metric_inputs(name, explicit), with_frame((spec_override or {}).get(name, spec)), C,
                               native=(lambda n_=name: native_count_metric(n_)),
                               inline=INLINE, label=lab, hooks=HOOKS, requires=requires_metric,
                               clause=f"value = penalty({DEFINITION[name]}); _inc+1; log appended every log_steps; "
                                      f"caller's circuit not mutated (C13 frame)"))
    return T


def unitary_label_lemma():
    """[F] the definition's class list against the real graphiq.circuit.ops (exact, native import): the 8 names are
    exactly the non-parameterised, non-wrapper, non-identity unitary gate classes"""
    from vf.core import Obl
    import importlib
    import inspect

    ops = importlib.import_module("graphiq.circuit.ops")
    uni = set()
    for n, c in inspect.getmembers(ops, inspect.isclass):
        if c.__module__ != ops.__name__ or n.endswith("Base") or n in ("Identity", "OneQubitGateWrapper"):
            continue
        if issubclass(c, ops.OneQubitOperationBase) and not issubclass(c, getattr(ops, "ParameterizedOneQubitRotation", ())) \
                and "Measurement" not in n:
            uni.add(n)
        if issubclass(c, ops.ControlledPairOperationBase) and "Parameterized" not in n:
            uni.add(n)
    para = {n for n in uni if "Parameter" in n or n in ("RX", "RY", "RZ")}
    uni -= para
    ok = uni == set(UNITARY_CLASSES)
    return [Obl(name="lemma.unitary-classes(definition list == unitary gate classes of graphiq.circuit.ops)",
                function="graphiq.circuit.ops", status="discharged" if ok else "refuted", kind="F", backend="exact",
                detail="" if ok else f"ops has {sorted(uni)}, definition lists {sorted(UNITARY_CLASSES)}",
                clause="unitary count = number of unitary gate nodes (H,P,Pdag,X,Y,Z,CNOT,CZ)")]


# =============================================================================================
# C17: Infidelity / TraceDistance dispatch
# =============================================================================================

def _rep(I, kind, name, n_mix=2):
    """abstract representation object of the real class `kind` holding token data"""
    if kind == "Stabilizer":
        o = Obj(I.get_class(SSTATE, "Stabilizer"))
        o.fields["_tableau"] = Token("tableau", name)
    elif kind == "MixedStabilizer":
        o = Obj(I.get_class(SSTATE, "MixedStabilizer"))
        if name == "target":
            o.fields["_mixture"] = [(1.0, Token("tableau", name, 0))]
        else:
            ps = []
            for k in range(n_mix):
                p = z3.Real(f"p[{name}][{k}]")
                ps.append((p, Token("tableau", name, k)))
            o.fields["_mixture"] = ps
    elif kind == "DensityMatrix":
        o = Obj(I.get_class(DSTATE, "DensityMatrix"))
        o.fields["_data"] = Token("rho", name)
    elif kind == "Graph":
        o = Obj(I.get_class(GSTATE, "Graph"))
        o.fields["_data"] = Token("graph", name)
    else:
        raise KeyError(kind)
    return o


def abstract_state(I, name, rep_type, kind, mixed=False):
    o = Obj(I.get_class(STATE, "QuantumState"))
    o.fields["_rep_type"] = rep_type
    o.fields["_rep_data"] = _rep(I, kind, name)
    o.fields["mixed"] = mixed
    o.fields["__name__"] = name
    return o


def _data_token(rep):
    if rep.cls.name == "Stabilizer":
        return rep.fields["_tableau"]
    if rep.cls.name == "MixedStabilizer":
        return rep.fields["_mixture"]
    return rep.fields["_data"]


def state_contracts():
    C = {}

    def copy(I, self):
        c = Obj(self.cls)
        c.fields.update(self.fields)
        r = Obj(self.fields["_rep_data"].cls)
        r.fields.update({k: (list(v) if isinstance(v, list) else v) for k, v in self.fields["_rep_data"].fields.items()})
        c.fields["_rep_data"] = r
        c.fields["__name__"] = f"copy({self.fields['__name__']})"
        return c

    def convert(I, self, new_rep_type):
        """[A] contract of QuantumState.convert_representation (C08): in place; the new representation object's class
        follows the real helper functions (_graph_to_stabilizer/_density_to_stabilizer: MixedStabilizer iff self.mixed)"""
        old = self.fields["_rep_type"]
        if old == new_rep_type:
            return None
        nm = self.fields["__name__"]
        src = _data_token(self.fields["_rep_data"])
        if new_rep_type == "s":
            if self.fields["mixed"]:
                r = Obj(I.get_class(SSTATE, "MixedStabilizer"))
                r.fields["_mixture"] = [(z3.Real(f"p[conv({nm})][{k}]"), Token("conv-tableau", nm, k)) for k in range(2)]
            else:
                r = Obj(I.get_class(SSTATE, "Stabilizer"))
                r.fields["_tableau"] = Token("conv-tableau", nm)
        elif new_rep_type == "dm":
            r = Obj(I.get_class(DSTATE, "DensityMatrix"))
            r.fields["_data"] = Token("conv-rho", nm)
        else:
            raise Undecided("conversion to " + str(new_rep_type))
        self.fields["_rep_data"] = r
        self.fields["_rep_type"] = new_rep_type
        return None

    C[f"{STATE}:QuantumState.copy"] = recorder(f"{STATE}:QuantumState.copy", "copy", result=copy)
    C[f"{STATE}:QuantumState.convert_representation"] = recorder(f"{STATE}:QuantumState.convert_representation",
                                                                 "convert_representation", result=convert)
    for q, nm in ((f"{SFM}:fidelity", "sfm.fidelity"), (f"{DMF}:fidelity", "dmf.fidelity"), (f"{DMF}:trace_distance", "dmf.trace_distance")):
        C[q] = recorder(q, nm, result=(lambda nm_: (lambda I, a, b: I.path.fresh(nm_.replace(".", "_"), "real")))(nm))
    return C


STATE_KINDS = [("s", "Stabilizer", False), ("s", "MixedStabilizer", True), ("dm", "DensityMatrix", False),
               ("dm", "DensityMatrix", True), ("g", "Graph", False), ("g", "Graph", True)]
TARGET_KINDS = [("s", "Stabilizer"), ("s", "MixedStabilizer"), ("dm", "DensityMatrix"), ("g", "Graph")]


def _state_inputs(tk, sk):
    def extra(I, metric):
        return [abstract_state(I, "state", sk[0], sk[1], sk[2]), Opaque("circuit", "unused")]

    def ctor(I):
        return {"target": abstract_state(I, "target", tk[0], tk[1])}

    return ctor, extra


def spec_infidelity(tk, sk):
    def spec(I, cur, metric, state, circuit):
        target = metric.fields["target"]
        trep = target.fields["_rep_data"]
        if tk[0] == "s":
            if sk[0] == "s":
                rep = state.fields["_rep_data"]
            else:
                cp = expect_on(cur, state, "copy")
                expect_on(cur, cp, "convert_representation", "s")
                rep = cp.fields["_rep_data"]
            tab = trep.fields["_tableau"] if tk[1] == "Stabilizer" else trep.fields["_mixture"][0][1]
            if rep.cls.name == "Stabilizer":
                fid = cur.expect("sfm.fidelity", tab, rep.fields["_tableau"])
            else:
                fid = 0
                for p_i, t_i in rep.fields["_mixture"]:
                    f_i = cur.expect("sfm.fidelity", tab, t_i)
                    fid = fid + p_i * f_i
        else:
            if sk[0] == "dm":
                sdata = state.fields["_rep_data"].fields["_data"]
            else:
                cp = expect_on(cur, state, "copy")
                expect_on(cur, cp, "convert_representation", "dm")
                sdata = cp.fields["_rep_data"].fields["_data"]
            fid = cur.expect("dmf.fidelity", trep.fields["_data"], sdata)
        val = 1 - fid
        finish_metric(I, cur, metric, val, [state, circuit, target])
        return val

    return spec


def spec_trace_distance(tk, sk):
    def spec(I, cur, metric, state, circuit):
        target = metric.fields["target"]
        if sk[0] == "dm":
            sdata = state.fields["_rep_data"].fields["_data"]
        else:
            cp = expect_on(cur, state, "copy")
            expect_on(cur, cp, "convert_representation", "dm")
            sdata = cp.fields["_rep_data"].fields["_data"]
        val = cur.expect("dmf.trace_distance", target.fields["_rep_data"].fields["_data"], sdata)
        finish_metric(I, cur, metric, val, [state, circuit, target])
        return val

    return spec


def dispatch_tasks(spec_override=None, label_prefix="", only=None):
    T = []
    C = state_contracts()
    for cls_name, mk_spec in (("Infidelity", spec_infidelity), ("TraceDistance", spec_trace_distance)):
        for tk in TARGET_KINDS:
            for sk in STATE_KINDS:
                for explicit in (False, True):
                    lab = (f"{label_prefix}{cls_name}.evaluate[target={tk[0]}/{tk[1]},state={sk[0]}/{sk[1]}"
                           f"{',mixed' if sk[2] else ''}{',log_steps=L' if explicit else ''}]")
                    if only and not only(lab):
                        continue
                    ctor, extra = _state_inputs(tk, sk)
                    supported = tk[0] in ("s", "dm") if cls_name == "Infidelity" else tk[0] == "dm"
                    sp = with_frame((spec_override or mk_spec)(tk, sk))
                    T.append(ReplayTraceTask(f"{MET}:{cls_name}.evaluate", mk_metric_inputs(cls_name, explicit, ctor, extra), sp, C,
                                       native=(lambda c_=cls_name, t_=tk, s_=sk: native_dispatch(c_, t_, s_)),
                                       inline=INLINE, label=lab, hooks=HOOKS, requires=requires_metric,
                                       expect_raise=None if supported else ["ValueError"],
                                       clause="dispatch on (target.rep_type, state.rep_type): the fidelity / trace distance "
                                              "function of the target's representation on the target's data and the state's "
                                              "data, the state converted on a COPY; returns 1-F (resp. T); log; frame"))
    return T


# =============================================================================================
# native replays (real graphiq objects) for refuted obligations of the trace tasks
# =============================================================================================

def _native_circuits():
    from graphiq.circuit.circuit_dag import CircuitDAG
    from graphiq.circuit import ops

    out = []
    c = CircuitDAG(n_emitter=2, n_photon=1, n_classical=1)
    for o in (ops.Hadamard(register=0, reg_type="e"), ops.CNOT(control=0, control_type="e", target=1, target_type="e"),
              ops.CNOT(control=0, control_type="e", target=0, target_type="p"), ops.CZ(control=1, control_type="e", target=0, target_type="e"),
              ops.SigmaY(register=1, reg_type="e"), ops.SigmaZ(register=0, reg_type="p"), ops.Identity(register=0, reg_type="e"),
              ops.OneQubitGateWrapper([ops.Hadamard, ops.Phase], register=0, reg_type="p"),
              ops.MeasurementCNOTandReset(control=1, control_type="e", target=0, target_type="p", c_register=0),
              ops.PhaseDagger(register=0, reg_type="e"), ops.SigmaX(register=0, reg_type="e")):
        c.add(o)
    out.append(("2e1p: H,CNOTee,CNOTep,CZee,Y,Z,I,wrap[H,P],MCR,Pdag,X", c))
    c2 = CircuitDAG(n_emitter=1, n_photon=1, n_classical=1)
    c2.add(ops.CZ(control=0, control_type="e", target=0, target_type="p"))
    c2.add(ops.SigmaZ(register=0, reg_type="e"))
    out.append(("1e1p: CZep,Z", c2))
    out.append(("empty 1e", CircuitDAG(n_emitter=1, n_photon=0, n_classical=0)))
    return out


def _oracle(name, c):
    seq = c.sequence()
    un = c.sequence(unwrapped=True)
    nm = lambda o: type(o).__name__  # noqa: E731
    if name == "CircuitDepth":
        lvl, best = {}, 0
        for o in seq:
            if nm(o) in ("Input", "Output"):
                continue
            regs = [(t, r) for r, t in zip(o.q_registers, o.q_registers_type)] + [("c", r) for r in o.c_registers]
            l = 1 + max([lvl.get(k, 0) for k in regs] or [0])
            for k in regs:
                lvl[k] = l
            best = max(best, l)
        return best
    if name == "CircuitEmitterCount":
        return c.n_emitters
    if name == "CircuitCnotCount":
        return sum(1 for o in seq if nm(o) == "CNOT" and o.control_type == "e" and o.target_type == "e")
    if name == "CircuitUnitaryCount":
        return sum(1 for o in un if nm(o) in UNITARY_CLASSES)
    if name == "CircuitMeasureCount":
        return sum(1 for o in seq if nm(o) == "MeasurementCNOTandReset")
    raise KeyError(name)


def native_count_metric(name):
    """search for a real failing input of `name`'s contract among small real circuits x {default, explicit} construction"""
    import importlib

    met = importlib.import_module(MET)
    cls = getattr(met, name)
    for desc, c in _native_circuits():
        before = [(type(o).__name__, tuple(o.q_registers), tuple(o.q_registers_type)) for o in c.sequence()]
        want = _oracle(name, c)
        for explicit in (False, True):
            call = f"{name}({'log_steps=2, ' + PENALTY_KW[name] + '=lambda x: 3*x+1' if explicit else ''}).evaluate(None, <{desc}>) x3"
            try:
                m = cls(log_steps=2, **{PENALTY_KW[name]: (lambda x: 3 * x + 1)}) if explicit else cls()
                vals = [m.evaluate(None, c) for _ in range(3)]
            except Exception as e:  # noqa: BLE001
                return {"call": call, "expected": "returns", "actual": f"raises {type(e).__name__}: {e}"}, True
            exp = 3 * want + 1 if explicit else want
            exp_log = [exp] if explicit else [exp] * 3
            after = [(type(o).__name__, tuple(o.q_registers), tuple(o.q_registers_type)) for o in c.sequence()]
            if vals != [exp] * 3 or list(m.log) != exp_log or m._inc != 3 or after != before:
                return {"call": call, "expected": {"values": [exp] * 3, "log": exp_log, "_inc": 3, "circuit": "unchanged"},
                        "actual": {"values": [float(v) for v in vals], "log": [float(v) for v in m.log], "_inc": m._inc,
                                   "circuit": "unchanged" if after == before else "MODIFIED"}}, True
    return {"note": "no failing input among the small native circuits"}, False


def native_dispatch(cls_name, tk, sk):
    """the real metric on real QuantumState objects of the given representations"""
    import importlib
    import numpy as np
    import networkx as nx
    from graphiq.state import QuantumState

    met = importlib.import_module(MET)

    def mk(rep, mixed):
        if rep == "s":
            return QuantumState(2, rep_type="s", mixed=mixed)
        if rep == "dm":
            return QuantumState(np.diag([1.0, 0, 0, 0]), rep_type="dm", mixed=mixed)
        g = nx.Graph()
        g.add_nodes_from([0, 1])
        g.add_edge(0, 1)
        return QuantumState(g, rep_type="g", mixed=mixed)

    call = f"{cls_name}(target=<{tk[0]} {tk[1]}>).evaluate(<state {sk[0]} mixed={sk[2]}>, None)"
    try:
        target = mk(tk[0], tk[1] == "MixedStabilizer")
        state = mk(sk[0], sk[2])
        rt0, cls0 = state.rep_type, type(state.rep_data).__name__
        v = getattr(met, cls_name)(target).evaluate(state, None)
        changed = (state.rep_type, type(state.rep_data).__name__) != (rt0, cls0)
        return {"call": call, "actual": f"returns {float(v)!r}" + ("; caller's state CONVERTED in place" if changed else "")}, changed
    except ValueError as e:
        return {"call": call, "actual": f"raises ValueError: {e}"}, False
    except Exception as e:  # noqa: BLE001
        return {"call": call, "expected": "1 - F computed by the fidelity function of the target's representation",
                "actual": f"raises {type(e).__name__}: {e}"}, True


# =============================================================================================
# canaries: deliberately wrong contracts that MUST be refuted, and whose refutation must show on the real code
# =============================================================================================

def canary_summary(d):
    by = {}
    for o in d.obligations:
        lab = o.name.split("|")[0].split(":")[0]
        if not lab.startswith("canary."):
            continue
        e = by.setdefault(lab, {"name": lab, "function": o.function, "refuted": False, "replayed": False})
        if o.status == "refuted":
            e["refuted"] = True
            e["replayed"] = e["replayed"] or bool(o.replayed)
    return list(by.values())


def _spec_unitary_without_cz(I, cur, metric, state, circuit):
    _queries(cur)
    c1 = expect_on(cur, circuit, "copy")
    expect_on(cur, c1, "unwrap_nodes")
    expect_on(cur, c1, "remove_identity")
    V = "rmid(unwrap(C))"
    total = z3.IntVal(0)
    for l in UNITARY_CLASSES:
        if l != "CZ":
            c = count_const(V, [l])
            if I.path.ghost.get("has", {}).get((V, l)) is False:
                I.path.assume(c == 0)
            total = total + c
    val = penalised(I, cur, total)
    finish_metric(I, cur, metric, val, [state, circuit])
    return val


def _native_unitary_counts_cz():
    import importlib

    met = importlib.import_module(MET)
    desc, c = _native_circuits()[1]
    v = met.CircuitUnitaryCount().evaluate(None, c)
    return {"call": f"CircuitUnitaryCount().evaluate(None, <{desc}>)", "canary claims": 1, "actual": int(v)}, int(v) == 2


def _spec_depth_logs_every_call(I, cur, metric, state, circuit):
    d = expect_on(cur, circuit, "depth")
    val = penalised(I, cur, d)
    g = I.path.ghost["metric"]
    expect_on(cur, g["log"], "log.append", val)  # wrong: ignores log_steps
    I.path.oblige(f"{cur.label}:post.counter-incremented", as_int_term(metric.fields["_inc"]) == g["inc0"] + 1)
    return val


def _native_depth_log_steps():
    import importlib

    met = importlib.import_module(MET)
    desc, c = _native_circuits()[0]
    m = met.CircuitDepth(log_steps=2)
    for _ in range(3):
        m.evaluate(None, c)
    return {"call": f"CircuitDepth(log_steps=2).evaluate(None, <{desc}>) x3", "canary claims": "3 log entries",
            "actual": f"{len(m.log)} log entries"}, len(m.log) == 1


def canary_reads_task():
    """wrong claim: CircuitCnotCount.evaluate reads self.n_emitter_penalty (the pre-fix attribute name) and finds it defined"""
    qual = f"{MET}:CircuitCnotCount.evaluate"
    label = "canary.CircuitCnotCount-defines-n_emitter_penalty"

    def harness(eng, path):
        I = Interp(path, {}, INLINE, {"external": _nx_external})
        I.stack.append(Frame(MET, {}, label))
        obj = I.instantiate(I.get_class(MET, "CircuitCnotCount"), [], {})
        ok = "n_emitter_penalty" in obj.fields
        wit, rep = _native_missing_attr("CircuitCnotCount", "n_emitter_penalty")
        rec(eng, f"{label}:reads-defined.n_emitter_penalty", ok, "CircuitCnotCount() defines no n_emitter_penalty", wit, rep)

    return HarnessTask(qual, label, harness, clause="canary")


def count_canary_tasks():
    C = circuit_contracts()
    T = []
    for (cname, name, spec, native, explicit) in (
            ("canary.unitary-count-without-CZ.", "CircuitUnitaryCount", _spec_unitary_without_cz, _native_unitary_counts_cz, False),
            ("canary.depth-logged-on-every-call.", "CircuitDepth", _spec_depth_logs_every_call, _native_depth_log_steps, True)):
        lab = f"{cname}{name}.evaluate"
        T.append(ReplayTraceTask(f"{MET}:{name}.evaluate", mk_metric_inputs(name, explicit), spec, C, native=native, inline=INLINE,
                                 label=lab, hooks=HOOKS, requires=requires_metric, clause="canary"))
    T.append(canary_reads_task())
    return T


def _spec_converts_in_place(tk, sk):
    def spec(I, cur, metric, state, circuit):
        target = metric.fields["target"]
        expect_on(cur, state, "convert_representation", "dm")  # wrong: no copy
        fid = cur.expect("dmf.fidelity", target.fields["_rep_data"].fields["_data"], state.fields["_rep_data"].fields["_data"])
        val = 1 - fid
        finish_metric(I, cur, metric, val, [state, circuit, target])
        return val

    return spec


def dispatch_canary_tasks():
    C = state_contracts()
    tk, sk = ("dm", "DensityMatrix"), ("s", "Stabilizer", False)
    ctor, extra = _state_inputs(tk, sk)

    def native():
        wit, changed = native_dispatch("Infidelity", tk, sk)
        wit["canary claims"] = "the caller's state is converted in place"
        return wit, not changed

    return [ReplayTraceTask(f"{MET}:Infidelity.evaluate", mk_metric_inputs("Infidelity", False, ctor, extra), _spec_converts_in_place(tk, sk), C,
                            native=native, inline=INLINE, label="canary.infidelity-converts-the-state-in-place.Infidelity.evaluate",
                            hooks=HOOKS, requires=requires_metric, clause="canary")]


def frame_canary_tasks():
    """wrong frame: 'evaluate writes nothing at all' (not even self._inc) - must be refuted"""
    C = circuit_contracts()

    def spec(I, cur, metric, state, circuit):
        bad = [w for o, w in I.writes[I.path.ghost.get("writes_mark", 0):] if o is metric]
        I.path.engine.record(f"{cur.label}:frame.writes-nothing", "discharged" if not bad else "refuted", 0,
                             "" if not bad else f"evaluate writes self.{bad}", None)
        cur.trace[:] = []
        return None

    def native():
        import importlib

        met = importlib.import_module(MET)
        desc, c = _native_circuits()[0]
        m = met.CircuitEmitterCount()
        m.evaluate(None, c)
        return {"call": "CircuitEmitterCount().evaluate(None, c)", "canary claims": "_inc stays 0", "actual": f"_inc = {m._inc}"}, m._inc == 1

    class _T(ReplayTraceTask):
        def run(self):
            eng = super().run()
            eng.results.pop(f"{self.label}:post.return", None)  # the canary only states the frame
            return eng

    return [_T(f"{MET}:CircuitEmitterCount.evaluate", mk_metric_inputs("CircuitEmitterCount", False), spec, C, native=native,
               inline=INLINE, label="canary.evaluate-writes-nothing.CircuitEmitterCount.evaluate", hooks=HOOKS, requires=requires_metric,
               clause="canary")]
