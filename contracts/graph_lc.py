"""Sidecar contract for graphiq/backends/graph/state.py: Graph.local_complementation (C09) - the edge-set implementation of
local complementation, proved to realise the SAME rule as lc_equivalence_check.local_comp_graph:

      adj'[j,k] = adj[j,k] xor (adj[j,v] and adj[v,k])   for j != k,   diagonal unchanged (0)

`copy=False` mutates the held networkx graph in place and returns self; `copy=True` returns a deep copy carrying the new edge
set and leaves self untouched (the neighbours are read from self before any edge is touched, in both modes).

The loop `for a, b in itertools.combinations(neighbors, 2)` runs over the pairs of a neighbour list of SYMBOLIC length.  It is
verified with a pair-loop rule (below): an invariant S(p,q) indexed by the position pair that is about to be processed,
    init      S(0,1) is the state at loop entry
    step      for arbitrary 0 <= p < q < m: the REAL body on (l[p], l[q]) takes S(p,q) to S(p,q+1)
    wrap      S(p,m) = S(p+1,p+2)      (end of a row of the triangular enumeration)
    exit      the code after the loop continues from S(m-2,m) if m >= 2, else from the entry state
which is induction over the lexicographic order in which itertools.combinations yields the pairs [A].
Invariant used: an unordered pair {x,y} of distinct neighbours of v is toggled iff (min pos, max pos) < (p,q)
lexicographically, pos = position in the neighbour list ([A] nx.neighbors: duplicate-free enumeration of exactly the
adjacent nodes, contracts/nxmodel.py).

Assumed: the Graph holds a graph state (`Graph.is_graph_state` returns True - all local-Clifford lists are [Identity]; the
other case raises NotImplementedError and is outside the property), nodes are 0..n-1, the graph is simple.
"""
from __future__ import annotations

import ast

import numpy as np
import z3

from pyvc.contract import Contract, Task
from pyvc.interp import Undecided, PathEnd, BreakEx, ContinueEx, ReturnEx
from pyvc.loops import Entry, assigned_names
from pyvc.schema import Item
from pyvc.values import Obj, Opaque, as_int_term, to_z3
from pyvc import schema as S
from . import nxmodel as NX
from .lc_equiv import lc_rule

GSTATE = "graphiq.backends.graph.state"
SBASE = "graphiq.backends.state_base"
GLC = f"{GSTATE}:Graph.local_complementation"
IGS = f"{GSTATE}:Graph.is_graph_state"
C = {}


# ------------------------------------------------------------------------------------------ schema item
class GraphRep(Item):
    """graphiq.backends.graph.state.Graph holding an arbitrary simple graph on n nodes (a graph state: all LC = [Identity])"""

    def __init__(self, name, n):
        self.name, self.n = name, n
        self.inner = NX.SimpleGraph(name, n)

    def _wrap(self, I, g):
        o = Obj(I.get_class(GSTATE, "Graph"))
        o.fields["_data"] = g
        return o

    def symbolic(self, I):
        return self._wrap(I, self.inner.symbolic(I))

    def concrete(self, model, env):
        return self.inner.concrete(model, env)

    def random(self, rng, env):
        return self.inner.random(rng, env)

    def real(self, conc):
        from graphiq.backends.graph.state import Graph

        return Graph(self.inner.real(conc))

    def const(self, I, conc):
        return self._wrap(I, self.inner.const(I, conc))

    def jsonable(self, conc):
        return np.asarray(conc).tolist()


# ------------------------------------------------------------------------------------------ contracts
def _glc_requires(I, self, node_id, copy):
    g = self.fields["_data"]
    return z3.And(to_z3(node_id) >= 0, to_z3(node_id) < to_z3(g.payload["n"]))


def _glc_spec(I, self, node_id, copy):
    g = self.fields["_data"]
    new_adj = lc_rule(g.payload["adj"], node_id)
    if copy:
        out = Obj(self.cls)
        out.fields["_data"] = NX.mk_graph(g.payload["n"], new_adj, "lc", gid=g.payload["id"])
        return out
    g.payload["adj"] = new_adj
    return self


C[GLC] = Contract(GLC, requires=_glc_requires, spec=_glc_spec,
                  clause="Graph.local_complementation toggles precisely the edges among the neighbours of node_id (same rule as "
                         "local_comp_graph); copy=False: in place, returns self; copy=True: a copy is changed and returned, self is not")
C[IGS] = Contract(IGS, requires=None, spec=lambda I, cls, graph: True,
                  clause="[assumed] the Graph holds a graph state: every node's LC list is [Identity]")


# ------------------------------------------------------------------------------------------ pair-loop rule
def pair_loop_hook(func, target, state):
    """state(I, p, q, entry_adj) -> {graph value: adjacency closure}; entry_adj: {id(graph value): closure at loop entry}"""

    def hook(interp, node, it):
        if not (isinstance(it, Opaque) and it.tag == "combinations2"):
            return False
        fr = interp.stack[-1]
        if fr.func_name.split(".")[-1] != func or ast.unparse(node.target) != target or node.orelse:
            return False
        path = interp.path
        lst = it.payload
        m = to_z3(lst.length)
        tag = f"{fr.func_name}:pairloop({target})"
        tnames = {n.id for n in ast.walk(node.target) if isinstance(n, ast.Name)}
        extra = assigned_names(node.body) - tnames
        path.engine.record(f"{tag}.frame.vars", "discharged" if not extra else "refuted", 0,
                           "" if not extra else f"loop body assigns {sorted(extra)} which the pair-loop contract does not cover", None)
        if extra:
            raise PathEnd()
        graphs = list(state(interp, z3.IntVal(0), z3.IntVal(1), None).keys())
        entry_adj = {id(g): g.payload["adj"] for g in graphs}

        def set_state(st):
            for g, fn in st.items():
                g.payload["adj"] = fn

        def check_state(label, st, extra_pc=()):
            for g, fn in st.items():
                i, j = path.fresh("lk"), path.fresh("lk")
                n_ = to_z3(g.payload["n"])
                path.oblige(f"{label}:post.{g.payload['label']}.adjacency",
                            as_int_term(g.payload["adj"](i, j)) == as_int_term(fn(i, j)),
                            extra=[i >= 0, i < n_, j >= 0, j < n_] + list(extra_pc))

        # init
        check_state(tag + ".init", state(interp, z3.IntVal(0), z3.IntVal(1), entry_adj))
        # step at an arbitrary pair of positions
        saved_pc, saved_env = len(path.pc), dict(fr.env)
        p, q = path.fresh("pp"), path.fresh("pq")
        path.assume(z3.And(p >= 0, p < q, q < m))
        set_state(state(interp, p, q, entry_adj))
        interp.assign(node.target, (lst.get(p), lst.get(q)))
        try:
            interp.exec_block(node.body)
        except ContinueEx:
            pass
        except (BreakEx, ReturnEx):
            raise Undecided("break/return inside a pair loop")
        check_state(tag + ".preserve", state(interp, p, q + 1, entry_adj))
        del path.pc[saved_pc:]
        fr.env.clear()
        fr.env.update(saved_env)
        # wrap
        r = path.fresh("pp")
        set_state(state(interp, r, m, entry_adj))
        check_state(tag + ".wrap", state(interp, r + 1, r + 2, entry_adj), extra_pc=[r >= 0, r + 2 <= m])
        # exit
        fin = state(interp, m - 2, m, entry_adj)
        set_state({g: (lambda x, y, g=g, fn=fn: z3.If(m >= 2, as_int_term(fn(x, y)), as_int_term(entry_adj[id(g)](x, y)))) for g, fn in fin.items()})
        return True

    return hook


def _glc_state(I, p, q, entry_adj):
    fr = I.stack[-1]
    out = fr.env["output_graph"].fields["_data"]
    if entry_adj is None:
        return {out: None}
    nb = I.path.ghost["nx_neighbors"][-1]
    NPOS, v, adjv = nb["NPOS"], nb["v"], nb["adj"]
    a0 = entry_adj[id(out)]

    def toggled(x, y):
        x, y = to_z3(x), to_z3(y)
        px, py = NPOS(x), NPOS(y)
        lo, hi = z3.If(px < py, px, py), z3.If(px < py, py, px)
        return z3.And(x != y, as_int_term(adjv(v, x)) == 1, as_int_term(adjv(v, y)) == 1,
                      z3.Or(lo < to_z3(p), z3.And(lo == to_z3(p), hi < to_z3(q))))

    return {out: lambda x, y: z3.If(toggled(x, y), 1 - as_int_term(a0(x, y)), as_int_term(a0(x, y)))}


INLINE = {f"{GSTATE}:Graph.get_neighbors", f"{GSTATE}:Graph.copy", f"{SBASE}:StateRepresentationBase.data"}


def _hooks():
    h = dict(NX.HOOKS)
    h["loop"] = pair_loop_hook("local_complementation", "(a, b)", _glc_state)
    return h


def tasks():
    n = z3.Int("n")
    T = []
    for copy in (False, True):
        T.append(Task(GLC, C[GLC], [S.Assume(n >= 1), GraphRep("G", n), S.IntArg("node_id"), S.Const("copy", copy)], C,
                      inline=INLINE, hooks=_hooks(), label=f"Graph.local_complementation[copy={copy}]", timeout_ms=20000))
    return T


def canary_tasks():
    n = z3.Int("n")

    def bad(I, self, node_id, copy):  # the closed neighbourhood is complemented (edges at v toggled as well)
        g = self.fields["_data"]
        adj, v = g.payload["adj"], to_z3(node_id)
        g.payload["adj"] = lambda j, k: z3.If(to_z3(j) == to_z3(k), z3.IntVal(0),
                                              (adj(j, k) + adj(j, v) * adj(v, k) + z3.If(z3.Or(to_z3(j) == v, to_z3(k) == v), 1, 0)) % 2)
        return self

    return [Task(GLC, C[GLC], [S.Assume(n >= 1), GraphRep("G", n), S.IntArg("node_id"), S.Const("copy", False)], C,
                 inline=INLINE, hooks=_hooks(), label="canary.Graph.local_complementation.closed-neighbourhood", spec_override=bad,
                 timeout_ms=5000)]
