"""C02 - contracts for the time-reversed solver's local building blocks.

`_change_pauli_type(tableau, row, column, result)` [P + F]:
   [P]  for every current Pauli at (row, column) and every wanted Pauli the tableau is transformed by the stated gate contracts
        (per-row rules of contracts/stab_gates.py) and the class list returned is the stated one; afterwards the Pauli at
        (row, column) is the wanted one whenever the current one is not the identity;
   [F]  ghost clause Sem(C) o G = id: the returned list, read as a one-qubit wrapper (matrix product of the list, last listed
        gate acts first), is the inverse (up to global phase) of the unitary applied to the tableau - exact 2x2 arithmetic over
        all 9 (current, wanted) cases.
L_meas [F] (DESIGN C02): for both outcomes m, (|0><m|_e (x) X_p^m) . CNOT_{e->p} . H_e (|0>_e (x) psi) = 2^{-1/2} |0>_e (x) psi:
   the time-reversed measurement step is undone by measure-CNOT-reset whatever outcome is drawn (exact 4x4 identity on a basis).
"""
from __future__ import annotations

import itertools
import time

import numpy as np
import z3

from pyvc.contract import Contract, Task
from pyvc import schema as S
from pyvc.values import Obj, to_z3
from vf.core import Obl
from .common import TRANS, TABLEAU_ACCESSORS, idx_in
from .stab_gates import C as GC, _and

TRS = "graphiq.solvers.time_reversed_solver"
OPS = "graphiq.circuit.ops"
Q = f"{TRS}:TimeReversedSolver._change_pauli_type"

# (current Pauli) -> wanted -> (gates applied to the tableau in order, classes returned)
TABLE = {
    "x": {"z": (["hadamard_gate"], ["Hadamard"]), "y": (["phase_gate"], ["SigmaZ", "Phase"]), "x": ([], [])},
    "y": {"z": (["phase_dagger_gate", "hadamard_gate"], ["Phase", "Hadamard"]), "x": (["phase_dagger_gate"], ["Phase"]), "y": ([], [])},
    "z": {"x": (["hadamard_gate"], ["Hadamard"]), "y": (["hadamard_gate", "phase_gate"], ["Hadamard", "SigmaZ", "Phase"]), "z": ([], [])},
    "i": {"x": ([], []), "y": ([], []), "z": ([], [])},
}


def _spec_factory(result):
    def spec(I, self, tableau, row, column, res):
        tab = tableau.fields["_table"]
        n = to_z3(tableau.fields["n_qubits"])
        x = tab.get(to_z3(row), to_z3(column))
        z = tab.get(to_z3(row), n + to_z3(column))
        if I.path.decide(z3.And(x == 1, z == 0)):
            cur = "x"
        elif I.path.decide(z3.And(x == 1, z == 1)):
            cur = "y"
        elif I.path.decide(z3.And(x == 0, z == 1)):
            cur = "z"
        else:
            cur = "i"
        gates, classes = TABLE[cur][result]
        for g in gates:
            GC[f"{TRANS}:{g}"].spec(I, tableau, column)
        # the wanted Pauli is now at (row, column)
        if cur != "i":
            t2 = tableau.fields["_table"]
            want = {"x": (1, 0), "y": (1, 1), "z": (0, 1)}[result]
            I.path.oblige(f"_change_pauli_type[{result}]:spec.wanted-pauli-at-(row,column)",
                          z3.And(t2.get(to_z3(row), to_z3(column)) == want[0], t2.get(to_z3(row), n + to_z3(column)) == want[1]))
        return [I.get_class(OPS, c) for c in classes]

    return spec


def _req(I, self, tableau, row, column, res):
    n = tableau.fields["n_qubits"]
    return _and(idx_in(row, n), idx_in(column, n))


def contracts_and_tasks(Call):
    T = []
    for result in ("x", "y", "z"):
        c = Contract(Q, requires=_req, spec=_spec_factory(result),
                     clause="local Pauli change: tableau updated by the stated gates, inverse gate classes returned, wanted Pauli reached")

        def mk(I, _r=result):
            slf = Obj(I.get_class(TRS, "TimeReversedSolver"))
            tab = S.Stabilizer("S").symbolic(I)
            return [slf, tab, z3.Int("row"), z3.Int("col"), _r]

        T.append(Task(Q, c, mk, Call, inline=TABLEAU_ACCESSORS, label=f"_change_pauli_type[{result}]"))
        # upper-case result is accepted as well (result.lower())
    return T


# ---------------------------------------------------------------------------------------------- exact finite lemmas
SQ = 1 / np.sqrt(2)
M = {"Hadamard": np.array([[1, 1], [1, -1]], dtype=complex) * SQ, "Phase": np.array([[1, 0], [0, 1j]], dtype=complex),
     "SigmaZ": np.array([[1, 0], [0, -1]], dtype=complex), "SigmaX": np.array([[0, 1], [1, 0]], dtype=complex)}
G = {"hadamard_gate": M["Hadamard"], "phase_gate": M["Phase"], "phase_dagger_gate": M["Phase"].conj().T}


def _phase_equal(A, B):
    k = np.argmax(np.abs(B))
    ph = A.flat[k] / B.flat[k]
    return abs(abs(ph) - 1) < 1e-12 and np.allclose(A, ph * B, atol=1e-12)


def finite_obligations():
    out = []
    t0 = time.time()
    bad = []
    for cur, row in TABLE.items():
        for want, (gates, classes) in row.items():
            U = np.eye(2, dtype=complex)
            for g in gates:  # applied in order: U = G_k ... G_1
                U = G[g] @ U
            W = np.eye(2, dtype=complex)
            for c in classes:  # wrapper = product in list order (last listed acts first)
                W = W @ M[c]
            if not _phase_equal(W @ U, np.eye(2, dtype=complex)):
                bad.append((cur, want))
    out.append(Obl(name="C02.F._change_pauli_type.returned-wrapper-inverts-the-applied-gates", function=Q,
                   status="discharged" if not bad else "refuted", kind="F", backend="exact", ms=(time.time() - t0) * 1000,
                   detail="" if not bad else f"cases {bad}", clause="Sem(gate list as wrapper) . U_applied = identity up to phase, all 12 cases",
                   witness=None if not bad else {"cases": bad}, replayed=bool(bad)))
    # L_meas
    t0 = time.time()
    I2 = np.eye(2, dtype=complex)
    H, X = M["Hadamard"], M["SigmaX"]
    CNOT = np.zeros((4, 4), dtype=complex)
    CNOT[0, 0] = CNOT[1, 1] = CNOT[2, 3] = CNOT[3, 2] = 1  # qubit order (e, p), control e
    ok = True
    for m in (0, 1):
        proj_reset = np.zeros((2, 2), dtype=complex)
        proj_reset[0, m] = 1  # |0><m|
        corr = np.linalg.matrix_power(X, m)
        K = np.kron(proj_reset, corr) @ CNOT @ np.kron(H, I2)
        for psi in (np.array([1, 0], dtype=complex), np.array([0, 1], dtype=complex)):
            vin = np.kron(np.array([1, 0], dtype=complex), psi)
            ok = ok and np.allclose(K @ vin, SQ * vin, atol=1e-12)
    out.append(Obl(name="C02.F.L_meas.measure-cnot-reset-undoes-the-time-reversed-measurement", function=f"{TRS}:TimeReversedSolver._time_reversed_measurement",
                   status="discharged" if ok else "refuted", kind="F", backend="exact", ms=(time.time() - t0) * 1000,
                   clause="(|0><m|_e (x) X_p^m) CNOT_{e->p} H_e (|0>_e (x) psi) = 2^{-1/2} |0>_e (x) psi for m = 0, 1 (basis of psi; linear)"))
    return out
