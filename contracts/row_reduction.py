"""linalg.row_reduction / _row_red_one_step (C08 _graph_finder, C09 solution-basis search): X and Z are transformed IN LOCKSTEP by
elementary row operations only.

The property-level fact both users need: the pair (X', Z') returned is (E X, E Z) for ONE invertible GF(2) matrix E - then the
rows generate the same stabilizer group up to signs (C08) and the null space of the coefficient matrix is unchanged (C09).
Elementary row operations (row_swap, add_rows: contracts in stab_gates.py, proved in C07/C01's linalg tasks) are invertible, so it
suffices that
   (R1) the ONLY writes to the two matrices are calls  row_swap(M, a, b) / add_rows(M, a, t),
   (R2) they come in pairs: the same operation with the same row indices first on the X matrix, then on the Z matrix,
   (R3) the matrices returned are the argument objects (the work is in place), the pivot stays within the matrix.
_row_red_one_step [P, symbolic shape]  StepTask: (R1)-(R3) on all three branches; the two `for j in the_ones` loops over a filtered row
   list of symbolic length by the invariant rule of pyvc/invloop.py with a per-iteration trace check (one paired add_rows, rows in
   bounds because the list enumerates rows p0 <= j < n_row); the returned pivot is characterised (same list object with p0 or
   p0 - 1 / a new list [p0 | p0 + 1, p1 + 1] inside the matrix).
row_reduction [P, symbolic shape; partial correctness]  RowRedTask: while-loop by havoc + invariant (pyvc/invloop.InvWhile) on top of
   the step contract: every write to X / Z is made by a step (R1, R2 inherited), returns (x_matrix, z_matrix, rank) with the argument
   objects and -1 <= rank < n_row (rank = -1 exactly in the branch "last column, nothing at or below row 0").  Termination is not
   claimed (the loop ends when a step leaves the pivot column unchanged).
NOT proved: that the result is in reduced echelon form, and which pivot is reached (bounded part).
[A] `l.remove(l[0])` on a list of symbolic length = the list without its first element (engine model, pyvc/models.py);
    `[i for i in range(a, b) if c(i)]` = increasing enumeration of the hits (filter theory, lemma FILTER).
"""
from __future__ import annotations

import ast

import z3

from pyvc import source, models, schema as S
from pyvc import symlist as SL
from pyvc.contract import Contract
from pyvc.interp import Interp, Engine, explore, RaiseEx, Undecided, PathEnd, Frame
from pyvc.invloop import InvLoop, InvWhile, make_hook, make_while_hook
from pyvc.values import NDArr, FuncRef, new_array, to_z3, as_int_term, concrete_int
from .common import LINALG
from .stab_gates import C as GC

STEP = f"{LINALG}:_row_red_one_step"
ROWRED = f"{LINALG}:row_reduction"
OPS = ("row_swap", "add_rows")


def _bits_fn(tag, nargs):
    B = z3.Function(tag, *([z3.IntSort()] * nargs), z3.BoolSort())
    return lambda *i: z3.If(B(*[to_z3(x) for x in i]), z3.IntVal(1), z3.IntVal(0))


def _fresh_tag(I, base):
    c = I.path.counter.get(base, 0)
    I.path.counter[base] = c + 1
    return f"{base}!{c}"


def _havoc_pair(I):
    """both working matrices get unspecified bit contents IN PLACE; the closures are remembered: any later write that is not a
    recorded row operation replaces them and is seen by `_only_row_ops`"""
    g = I.path.ghost["rr"]
    for key in ("X", "Z"):
        a = g[key]
        a.assign_from(_bits_fn(_fresh_tag(I, "rr" + key), a.ndim))
        g["f" + key] = a.store.f
    return [g["X"], g["Z"]]


def _only_row_ops(I):
    g = I.path.ghost["rr"]
    return g["X"].store.f is g["fX"] and g["Z"].store.f is g["fZ"]


def recording_ops():
    R = {}
    for op in OPS:
        q = f"{LINALG}:{op}"
        real = GC[q]

        def spec(I, M, a, b, _real=real, _op=op):
            g = I.path.ghost["rr"]
            which = "X" if (isinstance(M, NDArr) and M.store is g["X"].store) else "Z" if (isinstance(M, NDArr) and M.store is g["Z"].store) else None
            untouched = which is None or M.store.f is g["f" + which]
            I.path.trace.append({"name": _op, "args": [M, a, b], "self": None, "ret": M, "which": which, "clean": untouched})
            r = _real.spec(I, M, a, b)
            if which is not None:
                g["f" + which] = M.store.f
            return r

        R[q] = Contract(q, requires=real.requires, spec=spec, clause=real.clause)
    return R


def check_pairs(I, label, events):
    """(R1)/(R2) on a trace segment: markers of already checked loops / steps stand for themselves, everything else comes in
    (X, Z) pairs of the same row operation with equal indices"""
    path = I.path
    k, n = 0, 0
    ok_struct = True
    while k < len(events):
        e = events[k]
        if e.get("marker") is not None or e["name"] == "paired-row-ops":
            k += 1
            continue
        if k + 1 >= len(events):
            ok_struct = False
            break
        e2 = events[k + 1]
        good = e["name"] in OPS and e2["name"] == e["name"] and e.get("which") == "X" and e2.get("which") == "Z" and e.get("clean") and e2.get("clean")
        if not good:
            ok_struct = False
            break
        n += 1
        path.oblige(f"{label}.same-rows-on-x-and-z#{n}", z3.And(to_z3(e["args"][1]) == to_z3(e2["args"][1]), to_z3(e["args"][2]) == to_z3(e2["args"][2])))
        if e["name"] == "add_rows":  # row t := row a + row t is invertible only for a != t (a == t would zero the row)
            path.oblige(f"{label}.add_rows-source-differs-from-target#{n}", to_z3(e["args"][1]) != to_z3(e["args"][2]))
        k += 2
    path.engine.record(f"{label}.row-operations-come-in-(x,z)-pairs", "discharged" if ok_struct else "refuted", 0,
                       "" if ok_struct else f"recorded operations {[(e['name'], e.get('which')) for e in events]!r} are not (X, Z) pairs of one row operation", None)


# ------------------------------------------------------------------------------------------ [i for i in range(a, b) if c(i)]
def range_filter_hook(interp, elt, gens):
    if len(gens) != 1 or len(gens[0].ifs) != 1 or gens[0].is_async:
        return None
    g = gens[0]
    if not (isinstance(g.iter, ast.Call) and ast.unparse(g.iter.func) == "range" and len(g.iter.args) == 2 and not g.iter.keywords
            and isinstance(g.target, ast.Name) and isinstance(elt, ast.Name) and elt.id == g.target.id):
        return None
    for n in ast.walk(g.ifs[0]):
        if isinstance(n, (ast.Call, ast.NamedExpr, ast.Lambda, ast.ListComp, ast.IfExp)):
            return None
    lo, hi = interp.eval(g.iter.args[0]), interp.eval(g.iter.args[1])
    if concrete_int(lo) is not None and concrete_int(hi) is not None:
        return None
    models.used("[i for i in range(a, b) if c(i)] with symbolic bounds = filtered index enumeration (lemma FILTER)")
    path, fr = interp.path, interp.stack[-1]
    env_now = dict(fr.env)
    frozen = {k: (v.snapshot() if isinstance(v, NDArr) else v) for k, v in env_now.items()}  # the test reads the matrices AS THEY ARE NOW
    tname = g.target.id

    def cond_at(k, quiet=True):
        cur = dict(fr.env)
        fr.env.clear()
        fr.env.update(frozen)
        fr.env[tname] = k
        if quiet:
            path.quiet += 1
        interp.stack.append(fr)
        try:
            return interp.truth_term(interp.eval(g.ifs[0]))
        finally:
            interp.stack.pop()
            if quiet:
                path.quiet -= 1
            fr.env.clear()
            fr.env.update(cur)

    saved = len(path.pc)
    k0 = path.fresh("ck")
    path.assume(z3.And(k0 >= to_z3(lo), k0 < to_z3(hi)))
    cond_at(k0, quiet=False)  # the test's own obligations (index bounds) at an arbitrary position of the range
    del path.pc[saved:]
    lst, info = SL.filtered_range(interp, lo, hi, lambda i: cond_at(to_z3(i)), _fresh_tag(interp, "rowsel"))
    if info is not None:
        lst.filter = info
    return lst


# ------------------------------------------------------------------------------------------ _row_red_one_step
def _loop_inv(I, k, env):
    g = I.path.ghost["rr"]
    return [("x-is-the-working-x", isinstance(env.get("x_matrix"), NDArr) and env["x_matrix"].store is g["X"].store),
            ("z-is-the-working-z", isinstance(env.get("z_matrix"), NDArr) and env["z_matrix"].store is g["Z"].store),
            ("only-row-operations-write-the-matrices", _only_row_ops(I))]


def step_loops(pair_check):
    def _iter_check(I, tag, events):
        pair_check(I, tag + ".iteration", events)
        ok = len(events) == 2
        I.path.engine.record(f"{tag}.iteration.one-paired-add_rows", "discharged" if ok and events[0]["name"] == "add_rows" else "refuted", 0,
                             "" if ok else f"{len(events)} recorded operation(s) in one iteration", None)

    return [InvLoop("_row_red_one_step", "j", None, modifies={"x_matrix", "z_matrix"}, havoc=lambda I, env: _havoc_pair(I), inv=_loop_inv,
                    trace_check=_iter_check)]


class StepTask:
    def __init__(self, label="_row_red_one_step[row operations in lockstep]", timeout_ms=10000, pair_check=check_pairs):
        self.qual = STEP
        self.label = label
        self.contract = Contract(STEP, clause="X and Z are changed only by row_swap / add_rows, the same operation with the same rows on both; returns "
                                              "the argument matrices and a pivot inside the matrix (same list: p0 or p0-1; new list: [p0|p0+1, p1+1])")
        self.timeout_ms = timeout_ms
        self.contracts = recording_ops()
        self.hooks = {"loop": make_hook(step_loops(pair_check)), "comprehension": range_filter_hook}
        self.pair_check = pair_check

    def run(self):
        eng = Engine(self.timeout_ms)
        m, node, cls = source.find(self.qual)
        lab = self.label

        def rec(name, ok, detail=""):
            eng.record(f"{lab}:{name}", "discharged" if ok else "refuted", 0, "" if ok else detail, None)
            return ok

        def harness(path):
            I = Interp(path, self.contracts, set(), dict(self.hooks))
            I.task_name = self.qual
            path.ghost["task"] = self.qual
            f = FuncRef(m.name, node, self.qual, None)
            I.stack.append(Frame(m.name, {}, lab))
            r, c = z3.Int("rows"), z3.Int("cols")
            path.assume(z3.And(r >= 1, c >= 1))
            X = S.Matrix("X", r, c, bits=True).symbolic(I)
            Z = S.Matrix("Z", r, c, bits=True).symbolic(I)
            p0, p1 = z3.Int("p0"), z3.Int("p1")
            path.assume(z3.And(p0 >= 0, p0 < r, p1 >= 0, p1 < c))
            pivot = [p0, p1]
            path.ghost["rr"] = dict(X=X, Z=Z, fX=X.store.f, fZ=Z.store.f)
            path.trace = []
            try:
                ret = I.call_function(f, [X, Z, pivot], {}, force_body=True)
            except RaiseEx as e:
                rec("no-raise", False, f"real body raises {e.exc_name}: {e.msg}")
                return
            rec("no-raise", True)
            ok = isinstance(ret, tuple) and len(ret) == 3 and isinstance(ret[2], list) and len(ret[2]) == 2
            if not rec("post.returns-(x,z,pivot)", ok, repr(ret)):
                return
            rec("post.returns-the-argument-matrices", isinstance(ret[0], NDArr) and isinstance(ret[1], NDArr) and ret[0].store is X.store and ret[1].store is Z.store
                and ret[0].shape == X.shape and ret[1].shape == Z.shape, "the matrices returned are not the (whole) argument objects")
            rec("post.only-row-operations-write-the-matrices", _only_row_ops(I), "a matrix is written other than through row_swap / add_rows")
            self.pair_check(I, f"{lab}:post", list(path.trace))
            q0, q1 = to_z3(ret[2][0]), to_z3(ret[2][1])
            if ret[2] is pivot:
                path.oblige(f"{lab}:post.pivot.same-list", z3.And(q1 == p1, z3.Or(q0 == p0, z3.And(q0 == p0 - 1, p1 == c - 1))))
            else:
                path.oblige(f"{lab}:post.pivot.new-list", z3.And(q1 == p1 + 1, q1 < c, z3.Or(q0 == p0, q0 == p0 + 1), q0 < r))
                rec("post.pivot.argument-list-untouched", pivot[0] is p0 and pivot[1] is p1, "the caller's pivot list is modified although a new one is returned")

        try:
            explore(eng, harness)
        except Undecided as u:
            eng.record(f"{lab}:supported-subset", "undecided", 0, f"{u}", None)
        wit = None
        for r_ in eng.results.values():
            r_.witness, r_.replayed = None, False
            if r_.status == "refuted" and ("same-rows" in r_.name or "pairs" in r_.name or "source-differs" in r_.name or "only-row-operations" in r_.name):
                if wit is None:
                    wit = native_pairing_witness(swap_z=self.pair_check is not check_pairs) or False
                if wit:
                    r_.witness, r_.replayed = wit, True
            if r_.status == "refuted" and r_.detail.startswith("RELAXED") and not r_.replayed:
                r_.status = "undecided"  # a relaxed model that does not replay proves nothing
        return eng


def native_pairing_witness(swap_z=False, shapes=((2, 1), (2, 2), (3, 2))):
    """REAL _row_red_one_step on every small bit matrix X (Z = a fixed matrix), every pivot: are the recorded row operations
    (X, Z) pairs with equal rows and add_rows source != target, and are the matrices written by nothing else?"""
    import importlib
    import itertools

    import numpy as np

    la = importlib.import_module(LINALG)
    saved = {k: getattr(la, k) for k in OPS}
    for (r, c) in shapes:
        for bits in itertools.product((0, 1), repeat=r * c):
            for p0, p1 in itertools.product(range(r), range(c)):
                x = np.array(bits).reshape(r, c)
                z = (np.arange(r * c).reshape(r, c) % 2 + np.eye(r, c, dtype=int)) % 2
                x0, z0 = x.copy(), z.copy()
                calls = []
                try:
                    for k in OPS:
                        def spy(mat, a, b, _k=k, _f=saved[k]):
                            calls.append((_k, "X" if mat is x else "Z" if mat is z else "?", int(a), int(b)))
                            return _f(mat, a, b)
                        setattr(la, k, spy)
                    try:
                        la._row_red_one_step(x, z, [p0, p1])
                    except Exception as e:  # noqa: BLE001
                        calls.append(("raises", type(e).__name__, 0, 0))
                finally:
                    for k, f in saved.items():
                        setattr(la, k, f)
                ok = len(calls) % 2 == 0
                xs, zs = x0.copy(), z0.copy()
                for e1, e2 in zip(calls[0::2], calls[1::2]):
                    want2 = (e1[0], "Z", e1[3], e1[2]) if (swap_z and e1[0] == "add_rows") else (e1[0], "Z", e1[2], e1[3])
                    ok = ok and e1[1] == "X" and e2 == want2 and not (e1[0] == "add_rows" and e1[2] == e1[3])
                    saved[e1[0]](xs, e1[2], e1[3])
                    saved[e2[0]](zs, e2[2], e2[3])
                ok = ok and np.array_equal(xs, x) and np.array_equal(zs, z)
                if not ok:
                    return {"function": STEP, "args": {"x_matrix": x0.tolist(), "z_matrix": z0.tolist(), "pivot": [p0, p1]},
                            "expected": "row operations in (X, Z) pairs with equal rows" + (" (canary: Z with exchanged rows)" if swap_z else "") +
                                        ", add_rows source != target, no other write",
                            "actual": {"row operations": [list(c_) for c_ in calls], "x_matrix after": x.tolist(), "z_matrix after": z.tolist()}}
    return None


# ------------------------------------------------------------------------------------------ row_reduction
def _step_req(I, x, z, pivot):
    if not (isinstance(x, NDArr) and isinstance(z, NDArr) and x.ndim == 2 and z.ndim == 2 and isinstance(pivot, list) and len(pivot) == 2):
        return False
    r, c = to_z3(x.shape[0]), to_z3(x.shape[1])
    return z3.And(to_z3(z.shape[0]) == r, to_z3(z.shape[1]) == c, to_z3(pivot[0]) >= 0, to_z3(pivot[0]) < r, to_z3(pivot[1]) >= 0, to_z3(pivot[1]) < c)


def _step_spec(I, x, z, pivot):
    """contract of _row_red_one_step as USED by row_reduction (proved by StepTask): paired row operations only (one marker event),
    same matrices returned, pivot as characterised"""
    g = I.path.ghost["rr"]
    ok = x.store is g["X"].store and z.store is g["Z"].store and _only_row_ops(I)
    I.path.trace.append({"name": "paired-row-ops", "args": [x, z], "self": None, "ret": None, "clean": ok})
    I.path.oblige(I.ob_name("step-applied-to-the-working-pair"), z3.BoolVal(bool(ok)))
    _havoc_pair(I)
    r, c = to_z3(x.shape[0]), to_z3(x.shape[1])
    p0, p1 = to_z3(pivot[0]), to_z3(pivot[1])
    same = I.path.fresh("step_keeps_the_pivot_list", "bool")
    if I.path.decide(same):
        q0 = I.path.fresh("p0_after")
        I.path.assume(z3.Or(q0 == p0, z3.And(q0 == p0 - 1, p1 == c - 1)))
        pivot[0] = q0
        return (x, z, pivot)
    q0 = I.path.fresh("p0_after")
    I.path.assume(z3.And(z3.Or(q0 == p0, q0 == p0 + 1), q0 < r, p1 + 1 < c))
    return (x, z, [q0, z3.simplify(p1 + 1)])


STEP_CONTRACT = Contract(STEP, requires=_step_req, spec=_step_spec, clause="(as proved by StepTask)")


def _rr_havoc(I, env):
    g = I.path.ghost["rr"]
    hv = _havoc_pair(I)
    r, c = to_z3(g["X"].shape[0]), to_z3(g["X"].shape[1])
    a, b, d = I.path.fresh("pv0"), I.path.fresh("pv1"), I.path.fresh("old1")
    same = I.path.fresh("pivot_is_old_pivot", "bool")
    env["pivot"] = [a, b]
    env["old_pivot"] = [I.path.fresh("old0"), d]
    I.path.assume(z3.And(a >= -1, a < r, b >= 0, b < c, z3.Implies(same, d == b), z3.Or(a >= 0, same)))
    g["same"] = same
    return hv + [env["pivot"], env["old_pivot"]]


def _rr_inv(I, k, env):
    g = I.path.ghost["rr"]
    pv, old = env.get("pivot"), env.get("old_pivot")
    ok = isinstance(pv, list) and len(pv) == 2 and isinstance(old, list) and len(old) == 2
    out = [("pivot-lists", ok),
           ("x-is-the-working-x", isinstance(env.get("x_matrix"), NDArr) and env["x_matrix"].store is g["X"].store),
           ("z-is-the-working-z", isinstance(env.get("z_matrix"), NDArr) and env["z_matrix"].store is g["Z"].store),
           ("only-steps-write-the-matrices", _only_row_ops(I))]
    if ok:
        r, c = to_z3(g["X"].shape[0]), to_z3(g["X"].shape[1])
        a, b = to_z3(pv[0]), to_z3(pv[1])
        alias = z3.BoolVal(True) if pv is old else g.get("same", z3.BoolVal(False))
        out.append(("pivot-inside-the-matrix", z3.And(a >= -1, a < r, b >= 0, b < c, z3.Or(a >= 0, alias))))
    return out


RR_WHILE = [InvWhile("row_reduction", "pivot[1] != old_pivot[1]", modifies={"x_matrix", "z_matrix", "pivot", "old_pivot"}, havoc=_rr_havoc, inv=_rr_inv)]


class RowRedTask:
    def __init__(self, label="row_reduction[row operations in lockstep, partial correctness]", timeout_ms=10000, rank_lo=-1):
        self.qual = ROWRED
        self.label = label
        self.contract = Contract(ROWRED, clause="every write to X / Z is made by a step (paired row operations); returns (x_matrix, z_matrix, rank): the "
                                                "argument objects, -1 <= rank < rows")
        self.timeout_ms = timeout_ms
        self.contracts = {STEP: STEP_CONTRACT}
        self.hooks = {"while": make_while_hook(RR_WHILE)}
        self.rank_lo = rank_lo

    def run(self):
        eng = Engine(self.timeout_ms)
        m, node, cls = source.find(self.qual)
        lab = self.label

        def rec(name, ok, detail=""):
            eng.record(f"{lab}:{name}", "discharged" if ok else "refuted", 0, "" if ok else detail, None)
            return ok

        def harness(path):
            I = Interp(path, self.contracts, set(), dict(self.hooks))
            I.task_name = self.qual
            path.ghost["task"] = self.qual
            f = FuncRef(m.name, node, self.qual, None)
            I.stack.append(Frame(m.name, {}, lab))
            r, c = z3.Int("rows"), z3.Int("cols")
            path.assume(z3.And(r >= 1, c >= 1))
            X = S.Matrix("X", r, c, bits=True).symbolic(I)
            Z = S.Matrix("Z", r, c, bits=True).symbolic(I)
            path.ghost["rr"] = dict(X=X, Z=Z, fX=X.store.f, fZ=Z.store.f)
            path.trace = []
            try:
                ret = I.call_function(f, [X, Z], {}, force_body=True)
            except RaiseEx as e:
                rec("no-raise", False, f"real body raises {e.exc_name}: {e.msg}")
                return
            rec("no-raise", True)
            ok = isinstance(ret, tuple) and len(ret) == 3
            if not rec("post.returns-(x,z,rank)", ok, repr(ret)):
                return
            rec("post.returns-the-argument-matrices", isinstance(ret[0], NDArr) and isinstance(ret[1], NDArr) and ret[0].store is X.store and ret[1].store is Z.store
                and ret[0].shape == X.shape and ret[1].shape == Z.shape, "the matrices returned are not the (whole) argument objects")
            rec("post.only-steps-write-the-matrices", _only_row_ops(I) and all(e["name"] == "paired-row-ops" and e["clean"] for e in path.trace),
                "a matrix is written other than by _row_red_one_step")
            path.oblige(f"{lab}:post.rank-range", z3.And(to_z3(ret[2]) >= self.rank_lo, to_z3(ret[2]) < r))

        try:
            explore(eng, harness)
        except Undecided as u:
            eng.record(f"{lab}:supported-subset", "undecided", 0, f"{u}", None)
        for r_ in eng.results.values():
            r_.witness, r_.replayed = None, False
            if r_.status == "refuted" and "rank-range" in r_.name:
                import importlib

                import numpy as np

                la = importlib.import_module(LINALG)
                x0 = np.zeros((1, 1), dtype=int)
                rank = int(la.row_reduction(x0.copy(), x0.copy())[2])
                if not (self.rank_lo <= rank < 1):
                    r_.witness, r_.replayed = {"function": ROWRED, "args": {"x_matrix": [[0]], "z_matrix": [[0]]}, "expected": f"{self.rank_lo} <= rank < 1",
                                               "actual": f"rank = {rank}"}, True
        return eng


def tasks():
    return [StepTask(), RowRedTask()]


def _pairs_with_swapped_rows(I, label, events):
    """WRONG relation: the Z matrix gets the operation with its two row indices exchanged"""
    ev = []
    for e in events:
        if e.get("which") == "Z" and e["name"] == "add_rows":
            e = dict(e)
            e["args"] = [e["args"][0], e["args"][2], e["args"][1]]
        ev.append(e)
    check_pairs(I, label, ev)


def canary_tasks():
    return [StepTask(label="canary._row_red_one_step.z-gets-the-rows-exchanged", pair_check=_pairs_with_swapped_rows, timeout_ms=1500),
            RowRedTask(label="canary.row_reduction.rank-never-negative", rank_lo=0)]


def native_canary_replays():
    """the two canaries contradicted by real runs: (a) add_rows on X and Z with the SAME (source, target); (b) X = 0 gives rank -1"""
    import importlib

    import numpy as np

    la = importlib.import_module(LINALG)
    calls = []
    saved = la.add_rows

    def spy(mat, a, b):
        calls.append((int(a), int(b)))
        return saved(mat, a, b)

    try:
        la.add_rows = spy
        la._row_red_one_step(np.array([[1, 0], [1, 1]]), np.array([[0, 1], [1, 0]]), [0, 0])
    finally:
        la.add_rows = saved
    rank = la.row_reduction(np.zeros((1, 1), dtype=int), np.zeros((1, 1), dtype=int))[2]
    return {"add_rows calls on (X, Z) for X=[[1,0],[1,1]], pivot [0,0]": calls, "same_indices_on_both": len(calls) == 2 and calls[0] == calls[1],
            "row_reduction(X=[[0]]) rank": int(rank)}


TRUSTED = [
    "[A] l.remove(l[0]) on a list of symbolic length = the list without its first element; [i for i in range(a,b) if c(i)] = filtered "
    "enumeration (lemma FILTER); row_swap / add_rows by their proved contracts (contracts/stab_gates.py)",
    "row_reduction: partial correctness (while-loop by havoc + invariant; termination not claimed)",
]
